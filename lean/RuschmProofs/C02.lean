/-
Property C02 — tail calls run in bounded space.

"A procedure call in tail position - the last expression of a procedure body, either arm of a tail
if, the tail sub-form of a tail begin, let, let*, cond, case, and, or, when, unless, or the
procedure handed to apply in such a position - does not consume interpreter stack, and a loop
written with such calls (self, mutual, through a procedure parameter, with rest parameters)
completes for any iteration count using stack and live heap that do not grow with the count. The
loop also computes the same result as the equivalent bounded iteration."

What is proved here is about the MODEL's activation counters: `Store.depth` is the number of
`apply_procedure` activations alive (`applyProcedure` = `enter`, run the trampoline `applyLoop`,
`leave`), `Store.maxDepth` the largest value `depth` ever had. They decide whether the Rust stack
grows; real stack bytes and live heap are MEASURED by the correspondence check, not proved.

Only property theorems live here (each is audited with `#print axioms`); helpers are in
`RuschmProofs/TailLemmas.lean`, `RuschmProofs/ErrLemmas.lean`, `RuschmProofs/EvalLemmas.lean`.
Vocabulary: `DepthOk σ σ'` := `σ'.depth = σ.depth ∧ σ.maxDepth ≤ σ'.maxDepth`; `EvalsSeq ρ σ es σ'`:
the expressions `es` evaluate in order to values, from `σ` to `σ'`; the fuel-free judgements
`Evals`, `EvalsArgs`, `Applies` (the loop), `AppliesProc` (one activation), `AppliesScheme`,
`EvalsBody`, `EvalsTail` of `EvalLemmas.lean`.
-/
import RuschmProofs.TailLemmas

namespace Ruschm.C02
open Ruschm Ruschm.Eval Ruschm.Prim

/-! ## 1. activations are balanced -/

/-- EVERY evaluator function, for EVERY amount of fuel and EVERY outcome (value, error, even the
fuel error) gives the store back with the `depth` it received (`enter`/`leave` are balanced), and
never lowers `maxDepth`. -/
theorem depth_restored (n : Nat) :
    (∀ σ ρ e, DepthOk σ (evalExpr n σ ρ e).2) ∧
    (∀ σ ρ es, DepthOk σ (evalArgs n σ ρ es).2) ∧
    (∀ σ p as env, DepthOk σ (applyProcedure n σ p as env).2) ∧
    (∀ σ p as env, DepthOk σ (applyLoop n σ p as env).2) ∧
    (∀ σ lam cenv as, DepthOk σ (applyScheme n σ lam cenv as).2) ∧
    (∀ σ ρ ds, DepthOk σ (evalDefs n σ ρ ds).2) ∧
    (∀ σ ρ es, DepthOk σ (evalBody n σ ρ es).2) ∧
    (∀ σ ρ e, DepthOk σ (evalTail n σ ρ e).2) :=
  have h := depth_all n
  ⟨h.expr, h.args, h.proc, h.loop, h.scheme, h.defs, h.body, h.tail⟩

/-- the same for the fuel-free judgements -/
theorem depth_restored_judgements :
    (∀ {σ ρ e r σ'}, Evals σ ρ e r σ' → DepthOk σ σ') ∧
    (∀ {σ ρ es r σ'}, EvalsArgs σ ρ es r σ' → DepthOk σ σ') ∧
    (∀ {σ p as env r σ'}, AppliesProc σ p as env r σ' → DepthOk σ σ') ∧
    (∀ {σ p as env r σ'}, Applies σ p as env r σ' → DepthOk σ σ') ∧
    (∀ {σ lam cenv as r σ'}, AppliesScheme σ lam cenv as r σ' → DepthOk σ σ') ∧
    (∀ {σ ρ ds r σ'}, EvalsDefs σ ρ ds r σ' → DepthOk σ σ') ∧
    (∀ {σ ρ es r σ'}, EvalsBody σ ρ es r σ' → DepthOk σ σ') ∧
    (∀ {σ ρ e r σ'}, EvalsTail σ ρ e r σ' → DepthOk σ σ') :=
  ⟨Evals.depthOk, EvalsArgs.depthOk, AppliesProc.depthOk, Applies.depthOk, AppliesScheme.depthOk,
   EvalsDefs.depthOk, EvalsBody.depthOk, EvalsTail.depthOk⟩

example : (evalExpr 6 {} 0 (.call (.lambda (.mk ⟨[], none⟩ [] [.prim (.int 1) none]) none) [] none)).2.depth = 0 ∧
    (evalExpr 6 {} 0 (.call (.lambda (.mk ⟨[], none⟩ [] [.prim (.int 1) none]) none) [] none)).2.maxDepth = 1 := by
  simp [evalExpr, evalArgs, applyProcedure, applyLoop, applyScheme, evalDefs, evalBody, evalTail, procArity,
    arityOk, enter, leave, Store.newFrame, bindFixed, Lambda.formals, Lambda.defs, Lambda.body]

/-- an ordinary (non-tail) call DOES nest: the loop of the callee runs one level deeper, and the
level is counted -/
theorem nontail_call_nests {σ p args env r σ'} (h : AppliesProc σ p args env r σ') :
    (∃ σ₁, Applies (enter σ) p args env r σ₁ ∧ σ' = leave σ₁) ∧ (enter σ).depth = σ.depth + 1 ∧
    σ.depth + 1 ≤ σ'.maxDepth := by
  obtain ⟨σ₁, hl, rfl⟩ := AppliesProc.iff_loop.mp h
  refine ⟨⟨σ₁, hl, rfl⟩, rfl, ?_⟩
  have := hl.depthOk.2
  show σ.depth + 1 ≤ σ₁.maxDepth
  exact Nat.le_trans (Nat.le_max_right _ _) this

/-! ## 2. the trampoline does not nest -/

/-- A user procedure whose body ends in a pending tail call: applying it IS (same outcome, same
final store) continuing THE SAME loop with the callee, started in the store `σ₃` left by the
non-tail parts (body, operator, operands) — and `σ₃` has the depth the loop was entered with.
No activation is added for the callee: the final `maxDepth` is the one reached by the non-tail
parts (`σ₃.maxDepth`) raised only by what the continued loop itself does; if the callee is a
native procedure it is `σ₃.maxDepth`. -/
theorem trampoline_no_nesting {σ : Store} {lam : Lambda} {cenv : Nat} {args : List Value} {env : Nat}
    {f targs tenv σ₁ fv σ₂ vs σ₃}
    (ha : arityOk lam.formals.fixed.length lam.formals.rest.isSome args.length = true)
    (hs : AppliesScheme σ lam cenv args (.ok (.tailCall f targs tenv)) σ₁)
    (hf : Evals σ₁ tenv f (.ok fv) σ₂) (hargs : EvalsArgs σ₂ tenv targs (.ok vs) σ₃)
    (hp : (procArity fv).isSome) :
    σ₃.depth = σ.depth ∧
    (∀ r σ', Applies σ (.closure lam cenv) args env r σ' ↔ Applies σ₃ fv vs env r σ') ∧
    (∀ b r σ', fv = .builtin b → b ≠ .apply → Applies σ (.closure lam cenv) args env r σ' →
      σ'.maxDepth = σ₃.maxDepth) := by
  refine ⟨((hs.depthOk.trans hf.depthOk).trans hargs.depthOk).1,
    Applies.closure_tail_iff ha hs hf hargs hp, ?_⟩
  rintro b r σ' rfl hb h
  have h' := (Applies.closure_tail_iff ha hs hf hargs hp r σ').mp h
  obtain ⟨n, _, hrun⟩ := Stable.at_succ h' 0
  cases hok : arityOk b.arity.1 b.arity.2 vs.length with
  | false =>
    rw [applyLoop_arity_gate n σ₃ env (p := .builtin b) rfl hok] at hrun
    cases hrun; rfl
  | true =>
    rw [applyLoop_builtin_step n σ₃ env hb hok] at hrun
    have := (applyPure_counters σ₃ b vs).2
    rw [hrun] at this; exact this

/-- `apply` in the loop: the loop continues with the procedure it was handed, in the SAME store —
no `enter`, no activation -/
theorem apply_no_nesting {σ : Store} {args : List Value} {env : Nat} {f args'} (ha : 1 ≤ args.length)
    (hs : spreadApply args = .ok (f, args')) (r σ') :
    Applies σ (.builtin .apply) args env r σ' ↔ Applies σ f args' env r σ' :=
  Applies.apply_iff ha hs r σ'

example : spreadApply [.builtin .add, .num (.int 1), .pair (.num (.int 2)) .nil] =
    .ok (.builtin .add, [.num (.int 1), .num (.int 2)]) := rfl

/-- every iteration the trampoline reaches, through any number of pending tail calls and `apply`s,
starts at the depth the loop was entered with -/
theorem reaches_same_depth {env σ p args σq q qargs} (h : Reaches env σ p args σq q qargs) :
    σq.depth = σ.depth := by
  induction h with
  | refl => rfl
  | apply _ _ _ ih => exact ih
  | tail _ hs hf hargs _ _ ih =>
    exact ih.trans ((hs.depthOk.trans hf.depthOk).trans hargs.depthOk).1

/-! ## 3. which expressions are tail expressions -/

/-- `if` passes tail position to the chosen arm: after the test, `eval_tail_expression` of the `if`
is `eval_tail_expression` of that arm (fuel level) -/
theorem tail_if (n : Nat) (σ : Store) (ρ : Nat) (t c : Expr) (a : Option Expr) (l : Loc) :
    evalTail (n+1) σ ρ (.cond t c a l) =
      match evalExpr n σ ρ t with
      | (.error er, σ₁) => (.error er, σ₁)
      | (.ok tv, σ₁) =>
        if tv.truthy then evalTail n σ₁ ρ c
        else match a with
          | some alt => evalTail n σ₁ ρ alt
          | none => (.ok (.value .void), σ₁) := by
  rw [evalTail]
  generalize evalExpr n σ ρ t = x
  obtain ⟨r, σ₁⟩ := x
  cases r with
  | error e => rfl
  | ok tv =>
    simp only
    split
    · rfl
    · cases a <;> rfl

/-- the same, fuel-free: given the test's value, the `if` in tail position has exactly the outcomes
of the chosen arm in tail position -/
theorem tail_if_judgement {σ ρ t c a l tv σ₁} (ht : Evals σ ρ t (.ok tv) σ₁) (r σ') :
    EvalsTail σ ρ (.cond t c a l) r σ' ↔
      if tv.truthy then EvalsTail σ₁ ρ c r σ'
      else match a with
        | some alt => EvalsTail σ₁ ρ alt r σ'
        | none => r = .ok (.value .void) ∧ σ' = σ₁ :=
  EvalsTail.cond_iff ht r σ'

/-- a call in tail position is not evaluated: it is handed back to the trampoline -/
theorem tail_call_pending (n : Nat) (σ : Store) (ρ : Nat) (f : Expr) (args : List Expr) (l : Loc) :
    evalTail (n+1) σ ρ (.call f args l) = (.ok (.tailCall f args ρ), σ) := by
  rw [evalTail]

/-- the last expression of a body is evaluated by `eval_tail_expression`, the ones before it by
`eval_expression` -/
theorem tail_body_last (n : Nat) (σ : Store) (ρ : Nat) (e e' last : Expr) (es : List Expr) :
    evalBody (n+1) σ ρ [last] = evalTail n σ ρ last ∧
    evalBody (n+1) σ ρ (e :: e' :: es) =
      match evalExpr n σ ρ e with
      | (.error er, σ₁) => (.error er, σ₁)
      | (.ok _, σ₁) => evalBody n σ₁ ρ (e' :: es) := by
  constructor
  · rw [evalBody]
  · rw [evalBody]
    · generalize evalExpr n σ ρ e = x
      obtain ⟨r, σ₁⟩ := x
      cases r <;> rfl
    · simp

/-- fuel-free: if the expressions before the last one evaluate (to values), the body's outcome is
the last expression's outcome as a tail expression -/
theorem tail_body_last_judgement {ρ σ es σ₁ last r σ'} (hs : EvalsSeq ρ σ es σ₁)
    (ht : EvalsTail σ₁ ρ last r σ') : EvalsBody σ ρ (es ++ [last]) r σ' :=
  EvalsBody.seq_last hs ht

example : EvalsBody {} 0 ([.prim (.int 1) none] ++ [.call (.prim (.int 2) none) [] none])
    (.ok (.tailCall (.prim (.int 2) none) [] 0)) {} :=
  tail_body_last_judgement (.cons (Evals.prim rfl) .nil) EvalsTail.call

/-! ## 4. the derived forms keep their tail sub-form in tail position

These theorems are ABOUT THE GENERATED CONSTANT `Gen.grammarData` (regenerated from
`/repo/src/parser/grammar.sld` on every run; through the shape theorems of `C05Shapes.lean`): an edit
of `grammar.sld` that moves a tail sub-form out of tail position re-opens them.

`DTail sub d` — the datum `sub` is in tail position of the datum `d` as the parser will transform it:
`d` itself; an arm of `(if t c)` / `(if t c a)`; the last body form of a `(lambda …)` in operator
position; and through one expansion step (`expand1`, the bundled rules applied to what follows the
keyword, located at the form — what `transform_to_statement` does) of a bundled derived form.
`IsList d xs`: `d` is the proper list of `xs`. A form is `(kw . rest)` = `.pair (.sym kw l₁) rest l`.
`dtail_intail` (below) carries `DTail` over to `InTail` on the transformed expressions. -/

open Ruschm.Macro in
/-- `(begin form… last)`: `last` — the expansion is `((lambda () form… last))` -/
theorem tail_position_begin {sub l₁ rest l pre last} (hu : IsList rest (pre ++ [last])) (h : DTail sub last) :
    DTail sub (.pair (.sym "begin" l₁) rest l) :=
  dtail_begin hu h

open Ruschm.Macro in
/-- `(let ((name val) …) form… last)`, bindings possibly empty: `last` — the expansion is
`((lambda (name …) form… last) val …)` -/
theorem tail_position_let {sub l₁ rest l bs bds nvs pre last} (hu : IsList rest (bs :: (pre ++ [last])))
    (hbs : IsList bs bds) (hp : IsPairs bds nvs) (h : DTail sub last) :
    DTail sub (.pair (.sym "let" l₁) rest l) :=
  dtail_let hu hbs hp h

open Ruschm.Macro in
/-- `(let* ((name val) …) form… last)`, any number of bindings: `last` — nested `let`s -/
theorem tail_position_letstar {sub l₁ rest l bs bds nvs pre last} (hu : IsList rest (bs :: (pre ++ [last])))
    (hbs : IsList bs bds) (hp : IsPairs bds nvs) (h : DTail sub last) :
    DTail sub (.pair (.sym "let*" l₁) rest l) :=
  dtail_letstar h nvs hu hbs hp

open Ruschm.Macro in
/-- `(when test form… last)` and `(unless test form… last)`: `last` — `(if test (begin form… last))` -/
theorem tail_position_when_unless {sub l₁ rest l test pre last} (hu : IsList rest (test :: (pre ++ [last])))
    (h : DTail sub last) :
    DTail sub (.pair (.sym "when" l₁) rest l) ∧ DTail sub (.pair (.sym "unless" l₁) rest l) :=
  ⟨dtail_when hu h, dtail_unless hu h⟩

open Ruschm.Macro in
/-- `(and test… last)` and `(or test… last)`, any number of tests: `last` — nested `if`s (for `or`:
inside `((lambda (x) (if x x □)) test)`) -/
theorem tail_position_and_or {sub l₁ rest l pre last} (hu : IsList rest (pre ++ [last])) (h : DTail sub last) :
    DTail sub (.pair (.sym "and" l₁) rest l) ∧ DTail sub (.pair (.sym "or" l₁) rest l) :=
  ⟨dtail_and h pre hu, dtail_or h pre hu⟩

open Ruschm.Macro Ruschm.C05 in
/-- `cond`, the LAST clause: `(else form… last)` and `(test form… last)`: `last`; `(test => receiver)`:
the call `(receiver temp)`; `(test)`: the test. (Side conditions: those of the rule order, see
`C05Shapes.lean`.) -/
theorem tail_position_cond_last {sub l₁ rest l c} (hu : IsList rest [c]) :
    (∀ e pre last, IsList c (e :: (pre ++ [last])) → isSym "else" e = true → DTail sub last →
      DTail sub (.pair (.sym "cond" l₁) rest l)) ∧
    (∀ test pre last, IsList c (test :: (pre ++ [last])) → isSym "else" test = false →
      (∀ a r, pre ++ [last] = [a, r] → isSym "=>" a = false) → DTail sub last →
      DTail sub (.pair (.sym "cond" l₁) rest l)) ∧
    (∀ test a r, IsList c [test, a, r] → isSym "=>" a = true → isSym "else" test = false →
      DTail (L l [r, S l "temp"]) (.pair (.sym "cond" l₁) rest l)) ∧
    (∀ test, IsList c [test] → DTail sub test → DTail sub (.pair (.sym "cond" l₁) rest l)) :=
  ⟨fun _ _ _ hc he h => dtail_cond_else hu hc he h,
   fun _ _ _ hc hte hna h => dtail_cond_clause_sole hu hc hte hna h,
   fun _ _ _ hc ha hte => dtail_cond_arrow_sole hu hc ha hte,
   fun _ hc h => dtail_cond_test_sole hu hc h⟩

open Ruschm.Macro Ruschm.C05 in
/-- `cond`, a clause that is NOT the last: its tail sub-form (the last form of `(test form… last)`,
the call `(receiver temp)` of `(test => receiver)`) is in tail position, and so is everything in tail
position of `(cond clause…)` on the remaining clauses -/
theorem tail_position_cond_more {sub l₁ rest l c clauses} (hu : IsList rest (c :: clauses)) (hcl : clauses ≠ []) :
    (∀ test pre last, IsList c (test :: (pre ++ [last])) →
      (∀ a r, pre ++ [last] = [a, r] → isSym "=>" a = false) →
      (DTail sub last → DTail sub (.pair (.sym "cond" l₁) rest l)) ∧
      (DTail sub (.pair (.sym "cond" l) (Datum.ofList none clauses) l) → DTail sub (.pair (.sym "cond" l₁) rest l))) ∧
    (∀ test a r, IsList c [test, a, r] → isSym "=>" a = true →
      DTail (L l [r, S l "temp"]) (.pair (.sym "cond" l₁) rest l) ∧
      (DTail sub (.pair (.sym "cond" l) (Datum.ofList none clauses) l) → DTail sub (.pair (.sym "cond" l₁) rest l))) ∧
    (∀ test, IsList c [test] →
      (DTail sub (.pair (.sym "cond" l) (Datum.ofList none clauses) l) → DTail sub (.pair (.sym "cond" l₁) rest l))) :=
  ⟨fun _ _ _ hc hna => dtail_cond_clause_more hu hc hcl hna,
   fun _ _ _ hc ha => dtail_cond_arrow_more hu hc ha hcl,
   fun _ hc h => dtail_cond_test_more hu hc hcl h⟩

open Ruschm.Macro Ruschm.C05 in
/-- `case` with an atomic key, the LAST clause: `(else form… last)` and `((atom…) form… last)`: `last`;
`(else => receiver)` and `((atom…) => receiver)`: the call `(receiver key)` -/
theorem tail_position_case_last {sub l₁ rest l key c} (hu : IsList rest [key, c])
    (hk : ∀ ks, IsList key ks → ks = []) :
    (∀ e pre last, IsList c (e :: (pre ++ [last])) → isSym "else" e = true →
      (∀ a r, pre ++ [last] = [a, r] → isSym "=>" a = false) → DTail sub last →
      DTail sub (.pair (.sym "case" l₁) rest l)) ∧
    (∀ e a r, IsList c [e, a, r] → isSym "else" e = true → isSym "=>" a = true →
      DTail (L l [r, key]) (.pair (.sym "case" l₁) rest l)) ∧
    (∀ as atoms pre last, IsList c (as :: (pre ++ [last])) → IsList as atoms → atoms ≠ [] →
      (∀ a r, pre ++ [last] = [a, r] → isSym "=>" a = false) → DTail sub last →
      DTail sub (.pair (.sym "case" l₁) rest l)) ∧
    (∀ as atoms a r, IsList c [as, a, r] → IsList as atoms → atoms ≠ [] → isSym "=>" a = true →
      DTail (L l [r, key]) (.pair (.sym "case" l₁) rest l)) :=
  ⟨fun _ _ _ hc he hna h => dtail_case_else hu hc he hna hk h,
   fun _ _ _ hc he ha => dtail_case_else_arrow hu hc he ha hk,
   fun _ _ _ _ hc has hne hna h => dtail_case_clause_sole hu hc has hne hna hk h,
   fun _ _ _ _ hc has hne ha => dtail_case_arrow_sole hu hc has hne ha hk⟩

open Ruschm.Macro Ruschm.C05 in
/-- `case`, a clause that is NOT the last (atomic key), and a key that is a list (bound first to
`atom-key`): the clause's tail sub-form, and everything in tail position of the `case` on the
remaining clauses -/
theorem tail_position_case_more {sub l₁ rest l} :
    (∀ key c clauses, IsList rest (key :: c :: clauses) → clauses ≠ [] → (∀ ks, IsList key ks → ks = []) →
      (∀ as atoms pre last, IsList c (as :: (pre ++ [last])) → IsList as atoms → atoms ≠ [] →
        (∀ a r, pre ++ [last] = [a, r] → isSym "=>" a = false) →
        (DTail sub last → DTail sub (.pair (.sym "case" l₁) rest l)) ∧
        (DTail sub (.pair (.sym "case" l) (Datum.ofList none (key :: clauses)) l) →
          DTail sub (.pair (.sym "case" l₁) rest l))) ∧
      (∀ as atoms a r, IsList c [as, a, r] → IsList as atoms → atoms ≠ [] → isSym "=>" a = true →
        DTail (L l [r, key]) (.pair (.sym "case" l₁) rest l) ∧
        (DTail sub (.pair (.sym "case" l) (Datum.ofList none (key :: clauses)) l) →
          DTail sub (.pair (.sym "case" l₁) rest l)))) ∧
    (∀ k keys clauses, IsList rest (k :: clauses) → IsList k keys → keys ≠ [] → clauses ≠ [] →
      DTail sub (.pair (.sym "case" l) (Datum.ofList none (S l "atom-key" :: clauses)) l) →
      DTail sub (.pair (.sym "case" l₁) rest l)) :=
  ⟨fun _ _ _ hu hcl hk =>
    ⟨fun _ _ _ _ hc has hne hna => dtail_case_clause_more hu hc has hne hcl hna hk,
     fun _ _ _ _ hc has hne ha => dtail_case_arrow_more hu hc has hne ha hcl hk⟩,
   fun _ _ _ hu hk hkn hcl h => dtail_case_list_key hu hk hkn hcl h⟩

open Ruschm.Macro Ruschm.Macro.Ex in
/-- examples: `(when t 1 (f))`, `(let* ((a 1) (b 2)) (f))`, `(or 1 2 (f))`,
`(cond (t 1) (else 2 (f)))`: the call `(f)` is in tail position -/
example : DTail (lst [sy "f"]) (lst [sy "when", sy "t", num 1, lst [sy "f"]]) :=
  (tail_position_when_unless (l₁ := none) (l := none) (rest := lst [sy "t", num 1, lst [sy "f"]]) (test := sy "t")
    (pre := [num 1]) (last := lst [sy "f"]) rfl (.here _)).1

open Ruschm.Macro Ruschm.Macro.Ex in
example : DTail (lst [sy "f"]) (lst [sy "let*", lst [lst [sy "a", num 1], lst [sy "b", num 2]], lst [sy "f"]]) :=
  tail_position_letstar (l₁ := none) (l := none)
    (rest := lst [lst [lst [sy "a", num 1], lst [sy "b", num 2]], lst [sy "f"]])
    (bs := lst [lst [sy "a", num 1], lst [sy "b", num 2]]) (pre := []) (last := lst [sy "f"])
    (bds := [lst [sy "a", num 1], lst [sy "b", num 2]])
    (nvs := [(sy "a", num 1), (sy "b", num 2)]) rfl rfl (.cons rfl (.cons rfl .nil)) (.here _)

open Ruschm.Macro Ruschm.Macro.Ex in
example : DTail (lst [sy "f"]) (lst [sy "or", num 1, num 2, lst [sy "f"]]) :=
  (tail_position_and_or (l₁ := none) (l := none) (rest := lst [num 1, num 2, lst [sy "f"]])
    (pre := [num 1, num 2]) (last := lst [sy "f"]) rfl (.here _)).2

open Ruschm.Macro Ruschm.Macro.Ex in
example : DTail (lst [sy "f"]) (lst [sy "cond", lst [sy "t", num 1], lst [sy "else", num 2, lst [sy "f"]]]) :=
  ((tail_position_cond_more (l₁ := none) (l := none)
      (rest := lst [lst [sy "t", num 1], lst [sy "else", num 2, lst [sy "f"]]])
      (c := lst [sy "t", num 1]) (clauses := [lst [sy "else", num 2, lst [sy "f"]]]) rfl
      (by simp)).1 (sy "t") [] (num 1) rfl (by simp)).2
    ((tail_position_cond_last (l₁ := none) (l := none) (rest := lst [lst [sy "else", num 2, lst [sy "f"]]])
      (c := lst [sy "else", num 2, lst [sy "f"]]) rfl).1 (sy "else") [num 2] (lst [sy "f"]) rfl rfl (.here _))

/-- the transformer leaves the syntax environment as it was whenever it produces an expression or a
definition (`define-syntax` is accepted only at top level and in library bodies) — so the keywords mean
the same for every sub-form of an expression -/
theorem transform_keeps_syntax_env (n : Nat) (d : Datum) (env env' : Xform.SynEnv) (s : Statement)
    (h : Xform.toStatement n d env = (.ok s, env')) (hs : Xform.Keep.IsED s) : env' = env :=
  ((Xform.Keep.keepAll n).stmt d).keep env s env' h hs

/-- FROM DATA TO EXPRESSIONS. If `sub` is in tail position of the datum `d` (`DTail`: through `if`
arms, lambda applications and expansions of the bundled forms) and the parser's transformer turns `d`
— in a syntax environment where the nine keywords resolve to the bundled rules (`StdEnv`) — into the
expression `e`, then it turns `sub` (in such an environment, which it leaves unchanged) into an
expression `esub` that is in tail position of `e` (`InTail`): the tail sub-form of every derived form
ends up where `eval_tail_expression` hands it to the trampoline. -/
theorem dtail_intail {sub d : Datum} (h : Macro.DTail sub d) {n env e env'} (hstd : Xform.StdEnv env)
    (hx : Xform.toStatement n d env = (.ok (.expr e), env')) :
    ∃ m envs esub, Xform.StdEnv envs ∧ Xform.toStatement m sub envs = (.ok (.expr esub), envs) ∧ InTail esub e :=
  Xform.dtail_intail h hstd hx

/-- the interpreter's own syntax environment (an empty scope over the bundled forms) is such an
environment -/
theorem default_env_std : Xform.StdEnv [[], Interp.grammarScope] := Xform.stdEnv_default

open Ruschm.Macro Ruschm.Macro.Ex in
set_option maxRecDepth 100000 in
/-- example, end to end: `(when t 1 (f))` is transformed by the real transformer in the interpreter's
syntax environment, and the transformed `(f)` is `InTail` of the result -/
example : ∃ e env' m envs esub,
    Xform.toStatement 300 (lst [sy "when", sy "t", num 1, lst [sy "f"]]) [[], Interp.grammarScope] = (.ok (.expr e), env') ∧
    Xform.toStatement m (lst [sy "f"]) envs = (.ok (.expr esub), envs) ∧ InTail esub e := by
  have hx : ∃ e env', Xform.toStatement 300 (lst [sy "when", sy "t", num 1, lst [sy "f"]])
      [[], Interp.grammarScope] = (.ok (.expr e), env') := ⟨_, _, rfl⟩
  obtain ⟨e, env', hx⟩ := hx
  have hd : DTail (lst [sy "f"]) (lst [sy "when", sy "t", num 1, lst [sy "f"]]) :=
    (tail_position_when_unless (l₁ := none) (l := none) (rest := lst [sy "t", num 1, lst [sy "f"]]) (test := sy "t")
      (pre := [num 1]) (last := lst [sy "f"]) rfl (.here _)).1
  obtain ⟨m, envs, esub, _, hs, hin⟩ := dtail_intail hd default_env_std hx
  exact ⟨e, env', m, envs, esub, hx, hs, hin⟩

/-! ## 5. the general principle: a call in tail position is a pending call of the same loop

`InTail sub e` — `sub` is `e`, or in an arm of a tail `if`, or the last body expression of a `lambda`
that is the operator of a tail call. `TailPath env σ ρ e σs ρs sub` — evaluation of the tail
expression `e` arrives at `sub` (the tests select the arms, the lambdas' operands, definitions and
earlier body expressions evaluate). `TailRuns env σ ρ e r σ'` — the running loop, having the tail
expression `e` to evaluate, ends with `r`, `σ'`. `PendingRuns` — the same for a pending call. -/

/-- If `sub` is in tail position of `e` and evaluation reaches it (`TailPath`), then `sub` is
evaluated as a tail expression OF THE SAME LOOP, at the same depth: whatever the loop does from
`sub` on is what it does from `e` on. No `applyProcedure` activation is opened on the way — the
lambdas on the path are applied by the trampoline. -/
theorem intail_no_activation {env σ ρ e σs ρs sub} (h : TailPath env σ ρ e σs ρs sub) :
    InTail sub e ∧ σs.depth = σ.depth ∧
    ∀ r σ', TailRuns env σs ρs sub r σ' → TailRuns env σ ρ e r σ' :=
  ⟨h.spec.1, h.spec.2.1.1, h.spec.2.2⟩

/-- in particular, when `sub` is a call: operator and operands are evaluated and THE LOOP CONTINUES
with the callee (`Applies`, the loop — not `AppliesProc`, an activation), in a store of the depth
the tail expression `e` was entered with -/
theorem intail_call_continues_loop {env σ ρ e σs ρs f targs l fv σ₂ vs σ₃ r σ'}
    (h : TailPath env σ ρ e σs ρs (.call f targs l)) (hf : Evals σs ρs f (.ok fv) σ₂)
    (hargs : EvalsArgs σ₂ ρs targs (.ok vs) σ₃) (hp : (procArity fv).isSome)
    (hl : Applies σ₃ fv vs env r σ') :
    σ₃.depth = σ.depth ∧ TailRuns env σ ρ e r σ' :=
  ⟨((h.spec.2.1.trans hf.depthOk).trans hargs.depthOk).1,
   h.spec.2.2 r σ' (TailRuns.call (.inr ⟨fv, σ₂, hf, .inr ⟨vs, σ₃, hargs, .inr ⟨hp, hl⟩⟩⟩))⟩

/-- and a procedure whose body ends in `e` (parameters bound, definitions and earlier body
expressions evaluated): applying it in the loop is `TailRuns` of `e` -/
theorem tail_expression_of_body {env σ formals defs pre last cenv args restArgs σ₁ σ₂ σ₃ r σ'}
    (ha : arityOk formals.fixed.length formals.rest.isSome args.length = true)
    (hb : bindFixed (σ.newFrame (some cenv)).2 (σ.newFrame (some cenv)).1 formals.fixed args = (.ok restArgs, σ₁))
    (hd : EvalsDefSeq (σ.newFrame (some cenv)).1
      (Ref.bindRest σ₁ (σ.newFrame (some cenv)).1 formals.rest restArgs) defs σ₂)
    (hpre : EvalsSeq (σ.newFrame (some cenv)).1 σ₂ pre σ₃)
    (h : TailRuns env σ₃ (σ.newFrame (some cenv)).1 last r σ') :
    Applies σ (.closure (.mk formals defs (pre ++ [last])) cenv) args env r σ' :=
  TailRuns.applies ha hb hd hpre h

/-- example: in `(if #t ((lambda () (f))) 0)` the call `(f)` is reached in tail position -/
example : TailPath 0 {} 0
    (.cond (.prim (.bool true) none)
      (.call (.lambda (.mk ⟨[], none⟩ [] ([] ++ [.call (.sym "f" none) [] none])) none) [] none)
      (some (.prim (.int 0) none)) none)
    (({} : Store).newFrame (some 0)).2 0 (.call (.sym "f" none) [] none) :=
  .cond_then (Evals.prim rfl) rfl (.lam_call EvalsArgs.nil rfl rfl .nil .nil .here)

/-! ## 6. loops written with tail calls run at constant depth -/

/-- the store after `(define (loop n acc) (if (= n 0) acc (loop (- n 1) (+ acc 1))))` in a root frame
that binds `=`, `-`, `+` to the native procedures -/
def countStore : Store :=
  { frames := #[{ parent := none, defs := [("=", .builtin .numEq), ("-", .builtin .sub), ("+", .builtin .add),
      ("loop", .closure countLam 0)] }] }

theorem countStore_env : CountEnv countStore 0 :=
  ⟨⟨by decide, rfl⟩, ⟨by decide, rfl⟩, ⟨by decide, rfl⟩, ⟨by decide, rfl⟩⟩

/-- MAIN. The self-recursive counting loop
`(define (loop n acc) (if (= n 0) acc (loop (- n 1) (+ acc 1))))`, in ANY store whose frame `g` sees
`=`, `-`, `+` and `loop` (`CountEnv`), applied to `N` and `0` for EVERY `N` an `i32` can hold:
the activation completes with the value `N` — the result of the `N`-fold iteration of `(+ acc 1)` from
`0` — gives `depth` back, and `maxDepth` is `max σ.maxDepth (σ.depth + 2)`: the activation itself and
one level for the native calls `=`, `-`, `+` in operand position. The bound does not depend on `N`. -/
theorem loop_depth_bounded {σ : Store} {g : Nat} (env : Nat) (henv : CountEnv σ g) (N : Nat) (hN : N ≤ 2147483647) :
    ∃ σ', AppliesProc σ (.closure countLam g) [.num (.int N), .num (.int 0)] env
        (.ok (.num (.int (Nat.repeat (fun a : Int => a + 1) N 0)))) σ' ∧
      Nat.repeat (fun a : Int => a + 1) N 0 = N ∧
      σ'.depth = σ.depth ∧ σ'.maxDepth = max σ.maxDepth (σ.depth + 2) := by
  have henv' : CountEnv (enter σ) g :=
    ⟨henv.eq.of_frames_eq rfl, henv.sub.of_frames_eq rfl, henv.add.of_frames_eq rfl, henv.loop.of_frames_eq rfl⟩
  obtain ⟨σ₁, hl, hm⟩ := count_loop g env N 0 (enter σ) henv' (by omega) (by omega) (by omega)
  have hit : Nat.repeat (fun a : Int => a + 1) N 0 = N := by rw [repeat_succ_eq]; omega
  refine ⟨leave σ₁, ?_, hit, ?_, ?_⟩
  · rw [hit]
    have := AppliesProc.of_loop hl
    simpa using this
  · show σ₁.depth - 1 = σ.depth
    rw [hl.depthOk.1]; rfl
  · show σ₁.maxDepth = _
    rw [hm]
    show max (max σ.maxDepth (σ.depth + 1)) (σ.depth + 1 + 1) = _
    omega

/-- the same from the concrete top-level store, with the numbers: depth 0 before and after, `maxDepth`
2, for a million iterations as for one -/
theorem loop_depth_bounded_concrete (N : Nat) (hN : N ≤ 2147483647) :
    ∃ σ', AppliesProc countStore (.closure countLam 0) [.num (.int N), .num (.int 0)] 0 (.ok (.num (.int N))) σ' ∧
      σ'.depth = 0 ∧ σ'.maxDepth = 2 := by
  obtain ⟨σ', h, hit, hd, hm⟩ := loop_depth_bounded 0 countStore_env N hN
  rw [hit] at h
  exact ⟨σ', h, hd, hm⟩

example : ∃ σ', AppliesProc countStore (.closure countLam 0) [.num (.int 1000000), .num (.int 0)] 0
    (.ok (.num (.int 1000000))) σ' ∧ σ'.depth = 0 ∧ σ'.maxDepth = 2 :=
  loop_depth_bounded_concrete 1000000 (by decide)

/-! ### the other loop shapes

Each theorem: in ANY store whose frame `g` sees the needed native procedures and the loop's own
name(s), for EVERY count an `i32` can hold, the activation completes with the result of the bounded
iteration, gives `depth` back, and `maxDepth` is at most `max σ.maxDepth (σ.depth + 2)`. -/

/-- from a bound on the loop to the bound on the activation -/
theorem activation_bound {σ : Store} {p args env r} {k : Nat}
    (h : ∃ σ₁, Applies (enter σ) p args env r σ₁ ∧ σ₁.maxDepth ≤ max (enter σ).maxDepth ((enter σ).depth + k)) :
    ∃ σ', AppliesProc σ p args env r σ' ∧ σ'.depth = σ.depth ∧ σ'.maxDepth ≤ max σ.maxDepth (σ.depth + (k + 1)) := by
  obtain ⟨σ₁, hl, hm⟩ := h
  refine ⟨leave σ₁, AppliesProc.of_loop hl, ?_, ?_⟩
  · show σ₁.depth - 1 = σ.depth
    rw [hl.depthOk.1]; rfl
  · show σ₁.maxDepth ≤ _
    refine Nat.le_trans hm ?_
    show max (max σ.maxDepth (σ.depth + 1)) (σ.depth + 1 + k) ≤ _
    omega

/-- THE TAIL CALL WRAPPED IN ANY GOOD TAIL CONTEXT: `(define (loop n acc) (if (= n 0) acc E))` where
evaluating the tail expression `E` leads (`TailPath`: through `if` arms and lambda applications) to
the call `(loop (- n 1) (+ acc 1))` in a frame that still sees the loop's variables, raising
`maxDepth` at most to `depth + 1` (`GoodContext`) -/
theorem loop_depth_bounded_in_context {σ : Store} {g : Nat} (env : Nat) (E : Expr)
    (hE : GoodContext env (ctxLam E) g E)
    (heq : Sees σ g "=" (.builtin .numEq)) (hsub : Sees σ g "-" (.builtin .sub)) (hadd : Sees σ g "+" (.builtin .add))
    (hloop : Sees σ g "loop" (.closure (ctxLam E) g)) (N : Nat) (hN : N ≤ 2147483647) :
    ∃ σ', AppliesProc σ (.closure (ctxLam E) g) [.num (.int N), .num (.int 0)] env (.ok (.num (.int N))) σ' ∧
      σ'.depth = σ.depth ∧ σ'.maxDepth ≤ max σ.maxDepth (σ.depth + 2) := by
  obtain ⟨σ₁, hl, hm⟩ := ctx_loop g env E hE N 0 (enter σ) (heq.of_frames_eq rfl) (hsub.of_frames_eq rfl)
    (hadd.of_frames_eq rfl) (hloop.of_frames_eq rfl) (by omega) (by omega) (by omega)
  have : (0 : Int) + (N : Int) = N := by omega
  rw [this] at hl
  exact activation_bound (k := 1) ⟨σ₁, hl, hm⟩

/-- good contexts exist and compose: the empty one, `((lambda () □))` (the expansion of `begin` and
`(let () …)`), `((lambda (x) □) v)` (the expansion of `let`), the arms of an `if` — e.g. the call
wrapped as `(if #t ((lambda () ((lambda (k) □) 7))) 0)` -/
theorem good_contexts (env : Nat) (L : Lambda) (g : Nat) :
    GoodContext env L g recCall ∧
    (∀ E, GoodContext env L g E → GoodContext env L g (.call (.lambda (.mk ⟨[], none⟩ [] ([] ++ [E])) none) [] none)) ∧
    (∀ E x v, (x ≠ "n" ∧ x ≠ "acc" ∧ x ≠ "-" ∧ x ≠ "+" ∧ x ≠ "loop") → GoodContext env L g E →
      GoodContext env L g (.call (.lambda (.mk ⟨[x], none⟩ [] ([] ++ [E])) none) [.prim (.int v) none] none)) ∧
    (∀ E alt, GoodContext env L g E → GoodContext env L g (.cond (.prim (.bool true) none) E alt none)) ∧
    (∀ E c, GoodContext env L g E → GoodContext env L g (.cond (.prim (.bool false) none) c (some E) none)) :=
  ⟨goodContext_here env L g, fun _ h => goodContext_thunk env L g h, fun _ x v hx h => goodContext_let env L g x v hx h,
   fun _ alt h => goodContext_if_true env L g alt h, fun _ c h => goodContext_if_false env L g c h⟩

example (env g : Nat) (L : Lambda) : GoodContext env L g
    (.cond (.prim (.bool true) none)
      (.call (.lambda (.mk ⟨[], none⟩ [] ([] ++
        [.call (.lambda (.mk ⟨["k"], none⟩ [] ([] ++ [recCall])) none) [.prim (.int 7) none] none])) none) [] none)
      (some (.prim (.int 0) none)) none) :=
  goodContext_if_true env L g _ (goodContext_thunk env L g
    (goodContext_let env L g "k" 7 (by decide) (goodContext_here env L g)))

/-- MUTUAL RECURSION: `(define (even? n) (if (= n 0) #t (odd? (- n 1))))`,
`(define (odd? n) (if (= n 0) #f (even? (- n 1))))`: `(even? N)` is `N mod 2 = 0` -/
theorem loop_depth_bounded_mutual {σ : Store} {g : Nat} (env : Nat) (henv : ParityEnv σ g) (N : Nat)
    (hN : N ≤ 2147483647) :
    ∃ σ', AppliesProc σ (.closure (parityLam true "odd?") g) [.num (.int N)] env (.ok (.bool (N % 2 == 0))) σ' ∧
      σ'.depth = σ.depth ∧ σ'.maxDepth ≤ max σ.maxDepth (σ.depth + 2) := by
  have henv' : ParityEnv (enter σ) g :=
    ⟨henv.eq.of_frames_eq rfl, henv.sub.of_frames_eq rfl, henv.even.of_frames_eq rfl, henv.odd.of_frames_eq rfl⟩
  obtain ⟨⟨σ₁, hl, hm⟩, _⟩ := parity_loop g env N (enter σ) henv' (by omega)
  exact activation_bound (k := 1) ⟨σ₁, hl, Nat.le_of_eq hm⟩

/-- A LOOP THROUGH A PROCEDURE PARAMETER: `(define (loop f n acc) (if (= n 0) acc (f f (- n 1) (+ acc 1))))`
applied to itself -/
theorem loop_depth_bounded_higher_order {σ : Store} {g : Nat} (env : Nat) (henv : ArithEnv σ g) (N : Nat)
    (hN : N ≤ 2147483647) :
    ∃ σ', AppliesProc σ (.closure hoLam g) [.closure hoLam g, .num (.int N), .num (.int 0)] env
        (.ok (.num (.int N))) σ' ∧ σ'.depth = σ.depth ∧ σ'.maxDepth ≤ max σ.maxDepth (σ.depth + 2) := by
  have henv' : ArithEnv (enter σ) g :=
    ⟨henv.eq.of_frames_eq rfl, henv.sub.of_frames_eq rfl, henv.add.of_frames_eq rfl⟩
  obtain ⟨σ₁, hl, hm⟩ := ho_loop g env N 0 (enter σ) henv' (by omega) (by omega) (by omega)
  have : (0 : Int) + (N : Int) = N := by omega
  rw [this] at hl
  exact activation_bound (k := 1) ⟨σ₁, hl, Nat.le_of_eq hm⟩

/-- A LOOP WITH A REST PARAMETER: `(define (loop n . rest) (if (= n 0) (car rest) (loop (- n 1) (+ (car rest) 1))))`
(the final `(car rest)` is itself a tail call, of a native procedure) -/
theorem loop_depth_bounded_variadic {σ : Store} {g : Nat} (env : Nat) (henv : VarEnv σ g) (N : Nat)
    (hN : N ≤ 2147483647) :
    ∃ σ', AppliesProc σ (.closure varLam g) [.num (.int N), .num (.int 0)] env (.ok (.num (.int N))) σ' ∧
      σ'.depth = σ.depth ∧ σ'.maxDepth ≤ max σ.maxDepth (σ.depth + 2) := by
  have henv' : VarEnv (enter σ) g :=
    ⟨henv.eq.of_frames_eq rfl, henv.sub.of_frames_eq rfl, henv.add.of_frames_eq rfl, henv.car.of_frames_eq rfl,
     henv.loop.of_frames_eq rfl⟩
  obtain ⟨σ₁, hl, hm⟩ := var_loop g env N 0 (enter σ) henv' (by omega) (by omega) (by omega)
  have : (0 : Int) + (N : Int) = N := by omega
  rw [this] at hl
  exact activation_bound (k := 1) ⟨σ₁, hl, Nat.le_of_eq hm⟩

/-- `apply` IN TAIL POSITION: `(define (loop n acc) (if (= n 0) acc (apply loop (- n 1) (cons (+ acc 1) '()))))` -/
theorem loop_depth_bounded_apply {σ : Store} {g : Nat} (env : Nat) (henv : AppEnv σ g) (N : Nat)
    (hN : N ≤ 2147483647) :
    ∃ σ', AppliesProc σ (.closure appLam g) [.num (.int N), .num (.int 0)] env (.ok (.num (.int N))) σ' ∧
      σ'.depth = σ.depth ∧ σ'.maxDepth ≤ max σ.maxDepth (σ.depth + 2) := by
  have henv' : AppEnv (enter σ) g :=
    ⟨henv.eq.of_frames_eq rfl, henv.sub.of_frames_eq rfl, henv.add.of_frames_eq rfl, henv.cons.of_frames_eq rfl,
     henv.apply.of_frames_eq rfl, henv.loop.of_frames_eq rfl⟩
  obtain ⟨σ₁, hl, hm⟩ := app_loop g env N 0 (enter σ) henv' (by omega) (by omega) (by omega)
  have : (0 : Int) + (N : Int) = N := by omega
  rw [this] at hl
  exact activation_bound (k := 1) ⟨σ₁, hl, Nat.le_of_eq hm⟩

/-- the environments of the four shapes are inhabited (root frames binding the names) -/
example : ParityEnv { frames := #[{ parent := none, defs := [("=", .builtin .numEq), ("-", .builtin .sub),
      ("even?", .closure (parityLam true "odd?") 0), ("odd?", .closure (parityLam false "even?") 0)] }] } 0 ∧
    ArithEnv { frames := #[{ parent := none, defs := [("=", .builtin .numEq), ("-", .builtin .sub),
      ("+", .builtin .add)] }] } 0 ∧
    VarEnv { frames := #[{ parent := none, defs := [("=", .builtin .numEq), ("-", .builtin .sub),
      ("+", .builtin .add), ("car", .builtin .car), ("loop", .closure varLam 0)] }] } 0 ∧
    AppEnv { frames := #[{ parent := none, defs := [("=", .builtin .numEq), ("-", .builtin .sub),
      ("+", .builtin .add), ("cons", .builtin .cons), ("apply", .builtin .apply), ("loop", .closure appLam 0)] }] } 0 :=
  ⟨⟨⟨by decide, rfl⟩, ⟨by decide, rfl⟩, ⟨by decide, rfl⟩, ⟨by decide, rfl⟩⟩,
   ⟨⟨by decide, rfl⟩, ⟨by decide, rfl⟩, ⟨by decide, rfl⟩⟩,
   ⟨⟨by decide, rfl⟩, ⟨by decide, rfl⟩, ⟨by decide, rfl⟩, ⟨by decide, rfl⟩, ⟨by decide, rfl⟩⟩,
   ⟨⟨by decide, rfl⟩, ⟨by decide, rfl⟩, ⟨by decide, rfl⟩, ⟨by decide, rfl⟩, ⟨by decide, rfl⟩, ⟨by decide, rfl⟩⟩⟩

/-! ## further non-vacuity examples -/

section Examples

/-- `(lambda () ((lambda () 1)))` applied in the loop: its pending tail call continues the same loop
at the same depth -/
example : ∃ σ₃ : Store, σ₃.depth = ({} : Store).depth ∧
    ∀ r σ', Applies {} (.closure (.mk ⟨[], none⟩ [] [.call (.lambda (.mk ⟨[], none⟩ [] [.prim (.int 1) none]) none) [] none]) 0) [] 0 r σ' ↔
      Applies σ₃ (.closure (.mk ⟨[], none⟩ [] [.prim (.int 1) none]) 0) [] 0 r σ' :=
  have h := trampoline_no_nesting (σ := {}) (env := 0) (args := [])
    (lam := .mk ⟨[], none⟩ [] [.call (.lambda (.mk ⟨[], none⟩ [] [.prim (.int 1) none]) none) [] none]) (cenv := 0)
    rfl (AppliesScheme.intro_ok rfl EvalsDefs.nil (EvalsBody.last EvalsTail.call)) Evals.lambda EvalsArgs.nil rfl
  ⟨_, h.1, h.2.1⟩

/-- `(apply car '((1)))` reaches `car` at the depth it started with -/
example : ∀ σ : Store, Reaches 0 σ (.builtin .apply) [.builtin .car, .pair (.pair (.num (.int 1)) .nil) .nil] σ
    (.builtin .car) [.pair (.num (.int 1)) .nil] := fun _ => .apply (by simp) rfl .refl

/-- a million iterations of each loop shape, from the top-level environments -/
example : ∃ σ', AppliesProc { frames := #[{ parent := none, defs := [("=", .builtin .numEq), ("-", .builtin .sub),
      ("even?", .closure (parityLam true "odd?") 0), ("odd?", .closure (parityLam false "even?") 0)] }] }
    (.closure (parityLam true "odd?") 0) [.num (.int (1000000 : Nat))] 0 (.ok (.bool ((1000000 : Nat) % 2 == 0))) σ' ∧
    σ'.depth = 0 ∧ σ'.maxDepth ≤ 2 :=
  loop_depth_bounded_mutual 0 ⟨⟨by decide, rfl⟩, ⟨by decide, rfl⟩, ⟨by decide, rfl⟩, ⟨by decide, rfl⟩⟩ 1000000 (by decide)

example : ∃ σ', AppliesProc { frames := #[{ parent := none, defs := [("=", .builtin .numEq), ("-", .builtin .sub),
      ("+", .builtin .add)] }] }
    (.closure hoLam 0) [.closure hoLam 0, .num (.int (1000000 : Nat)), .num (.int 0)] 0
    (.ok (.num (.int (1000000 : Nat)))) σ' ∧ σ'.depth = 0 ∧ σ'.maxDepth ≤ 2 :=
  loop_depth_bounded_higher_order 0 ⟨⟨by decide, rfl⟩, ⟨by decide, rfl⟩, ⟨by decide, rfl⟩⟩ 1000000 (by decide)

example : ∃ σ', AppliesProc { frames := #[{ parent := none, defs := [("=", .builtin .numEq), ("-", .builtin .sub),
      ("+", .builtin .add), ("car", .builtin .car), ("loop", .closure varLam 0)] }] }
    (.closure varLam 0) [.num (.int (1000000 : Nat)), .num (.int 0)] 0
    (.ok (.num (.int (1000000 : Nat)))) σ' ∧ σ'.depth = 0 ∧ σ'.maxDepth ≤ 2 :=
  loop_depth_bounded_variadic 0
    ⟨⟨by decide, rfl⟩, ⟨by decide, rfl⟩, ⟨by decide, rfl⟩, ⟨by decide, rfl⟩, ⟨by decide, rfl⟩⟩ 1000000 (by decide)

example : ∃ σ', AppliesProc { frames := #[{ parent := none, defs := [("=", .builtin .numEq), ("-", .builtin .sub),
      ("+", .builtin .add), ("cons", .builtin .cons), ("apply", .builtin .apply), ("loop", .closure appLam 0)] }] }
    (.closure appLam 0) [.num (.int (1000000 : Nat)), .num (.int 0)] 0
    (.ok (.num (.int (1000000 : Nat)))) σ' ∧ σ'.depth = 0 ∧ σ'.maxDepth ≤ 2 :=
  loop_depth_bounded_apply 0
    ⟨⟨by decide, rfl⟩, ⟨by decide, rfl⟩, ⟨by decide, rfl⟩, ⟨by decide, rfl⟩, ⟨by decide, rfl⟩, ⟨by decide, rfl⟩⟩
    1000000 (by decide)

/-- the counting loop with its recursive call wrapped as `((lambda () ((lambda (k) □) 7)))` -/
example : ∃ σ', AppliesProc { frames := #[{ parent := none, defs := [("=", .builtin .numEq), ("-", .builtin .sub),
      ("+", .builtin .add), ("loop", .closure (ctxLam (.call (.lambda (.mk ⟨[], none⟩ [] ([] ++
        [.call (.lambda (.mk ⟨["k"], none⟩ [] ([] ++ [recCall])) none) [.prim (.int 7) none] none])) none) [] none)) 0)] }] }
    (.closure (ctxLam (.call (.lambda (.mk ⟨[], none⟩ [] ([] ++
        [.call (.lambda (.mk ⟨["k"], none⟩ [] ([] ++ [recCall])) none) [.prim (.int 7) none] none])) none) [] none)) 0)
    [.num (.int (1000000 : Nat)), .num (.int 0)] 0 (.ok (.num (.int (1000000 : Nat)))) σ' ∧
    σ'.depth = 0 ∧ σ'.maxDepth ≤ 2 :=
  loop_depth_bounded_in_context 0 _
    (goodContext_thunk 0 _ 0 (goodContext_let 0 _ 0 "k" 7 (by decide) (goodContext_here 0 _ 0)))
    ⟨by decide, rfl⟩ ⟨by decide, rfl⟩ ⟨by decide, rfl⟩ ⟨by decide, rfl⟩ 1000000 (by decide)

end Examples

end Ruschm.C02

/-
Properties C01 / C17 / C06, the END-TO-END GLUE: a whole program TEXT is the run of its STATEMENTS.

The stages exist separately:
* C06 `read_render_many`: a text written under any valid layout is read back as the data written;
* C01More `transform_render*` / C12More `importDecl_roundtrip_top`: the transformer turns the printed
  form of a core statement / of an import declaration into that statement, up to locations;
* C17 `evalText_eq_fold`: `Interpreter::eval` is the fold of `eval_ast` over the forms of the text;
* `RuschmProofs/Unloc*.lean`: locations matter for the position an error reports, and for nothing else.

Here they are composed at the level of a whole program.  Vocabulary (`RuschmProofs/ProgramTextLemmas.lean`):
`runStmts fuel st sts last` — the statements evaluated one after another by `eval_ast`, stopping at the
first error; `printStmt` — the printed form of a program statement (a core expression or definition,
`CoreSyntax.renderStmt`; an import declaration, `ImportSyntax.renderImport`); `okStmt` — the side
condition (`CoreSyntax.coreStmt` w.r.t. the macro keywords of the interpreter's syntax environment;
`ImportSyntax.WF` for import sets); `programText sts layout` — the tokens of the printed forms
(`Syn.ofDatum`, `Syn.toksL`) under a layout (`Text.interleave`, `ValidLayout`); `PrintsAs syn ps sts` —
the location-free data `ps` are ANY way of writing `sts` (the transformer turns each into the statement).

WHAT IS EQUAL.  The statements `evalText` evaluates carry the positions of the text; the given `sts`
carry whatever locations they have.  The two runs agree on
* the outcome up to locations (`outcomeUnloc`): the same error KIND, or the same value but for the
  positions recorded inside the code of closures;
* the final interpreter state up to such positions (`State.unloc`: store frames and vectors, library
  instances and factories; the syntax environment, root frame, import flag, files EXACTLY);
* the output written (`Store.out`) EXACTLY.
What may differ is the LOCATION an error reports.  (`program_text_reads_as_its_statements` is the
exact form: `evalText` IS `runStmts` on statements that equal `sts` up to locations.)

FUEL.  `evalText fuel` has three budgets. (a) The reader's loop counter is `number of tokens + 1`,
set by `evalText` itself and never exhausted (C17 `evalText_eq_fold`). (b) The transformer gets
`xformFuel d` for each top-level datum `d`, computed from the size of `d`; C01More `transform_render`
needs `2 * size`, C12More `importDecl_roundtrip` needs the nesting depth of the import sets: both are
below `xformFuel d`, so no hypothesis on it appears. (c) The evaluator gets the caller's `fuel` for
every statement: the theorems hold for EVERY `fuel`, with the SAME `fuel` on both sides (a fuel error
on one side is a fuel error on the other); `program_text_fuel_monotone` adds that an outcome other
than the fuel error is kept with any larger `fuel` (from `EvalLemmas`/`LibMoreLemmas` `*_mono`).
-/
import RuschmProofs.ProgramTextLemmas

set_option linter.unusedSimpArgs false
set_option linter.unusedVariables false

namespace Ruschm.C17More
open Ruschm Ruschm.Interp Ruschm.Front Ruschm.FrontSpec Ruschm.Xform Ruschm.CoreSyntax Ruschm.Text
open Ruschm.ProgramText
open Ruschm.Eval (NotFuel)

/-! ## sample program, used by the `example`s -/

/-- `(import (scheme write))  (define x 1)  (display x)` -/
private def samplePgm : List Statement :=
  [.importDecl [.direct [.ident "scheme", .ident "write"] none] none,
   .definition (.mk "x" (.prim (.int 1) none) none),
   .expr (.call (.sym "display" none) [.sym "x" none] none)]

/-- one form per line -/
private def layoutA : List (List Char) :=
  [[], [], [' '], [], [' '], [], [], ['\n'], [], [' '], [' '], [], ['\n'], [], [' '], [], ['\n']]

/-- indented, with a comment, no final newline -/
private def layoutB : List (List Char) :=
  [";p\n".toList, [], ['\n', ' '], [' '], ['\n'], [' '], [], [' '], [], [' '], [' '], [], [' '], [], ['\t'], [], []]

private theorem sample_textA :
    programText samplePgm layoutA = "(import (scheme write))\n(define x 1)\n(display x)\n".toList := by decide

private theorem sample_ok : ∀ s ∈ samplePgm, okStmt C01More.isStdMacro s := by
  intro s hs
  simp only [samplePgm, List.mem_cons, List.not_mem_nil, or_false] at hs
  rcases hs with rfl | rfl | rfl
  · intro t ht
    simp only [List.mem_cons, List.not_mem_nil, or_false] at ht
    subst ht
    exact ⟨"scheme", _, rfl, by decide⟩
  · show coreStmt C01More.isStdMacro (.definition _) = true
    decide
  · show coreStmt C01More.isStdMacro (.expr _) = true
    decide

private theorem sample_sup : ∀ s ∈ samplePgm, SupportedD (printStmt s) := by
  intro s hs
  simp only [samplePgm, List.mem_cons, List.not_mem_nil, or_false] at hs
  rcases hs with rfl | rfl | rfl
  · exact ⟨.inl (by decide), ⟨.inl (by decide), .inl (by decide), trivial⟩, trivial⟩
  · exact ⟨.inl (by decide), .inl (by decide), (by decide : fitsI32 1 = true), trivial⟩
  · exact ⟨.inl (by decide), .inl (by decide), trivial⟩

private theorem sample_layoutA : ValidLayout (programToks samplePgm) layoutA := by decide
private theorem sample_layoutB : ValidLayout (programToks samplePgm) layoutB := by decide

private theorem default_macros : C01More.macroOf (default_ false).syn = C01More.isStdMacro :=
  funext C01More.std_macros

private theorem sample_ok_default : ∀ s ∈ samplePgm, okStmt (C01More.macroOf (default_ false).syn) s := by
  rw [default_macros]; exact sample_ok

/-! ## 1. a program text evaluates as its statements -/

/-- PARSING-LEVEL COMPOSITION (exact).  Let `sts` be program statements — core expressions and
definitions satisfying `CoreSyntax.coreStmt` for the macro keywords of the interpreter's syntax
environment `st.syn`, and import declarations of writable import sets — whose literals the lexer can
spell (`SupportedD`).  Under ANY valid layout of the tokens of their printed forms, the reader reads
the text to its end without error, and `Interpreter::eval` on that text IS the evaluation, by `eval_ast`
one after another and stopping at the first error, of a list of statements `sts'` that equals `sts`
up to source locations: `sts'` is the sequence of `toStatement` results along `evalText`'s loop.  The
syntax environment is never changed.  For every evaluation fuel. -/
theorem program_text_reads_as_its_statements (fuel : Nat) (st : State) (sts : List Statement)
    (layout : List (List Char))
    (hok : ∀ s ∈ sts, okStmt (C01More.macroOf st.syn) s) (hsup : ∀ s ∈ sts, SupportedD (printStmt s))
    (hl : ValidLayout (programToks sts) layout) :
    (formsOf (programText sts layout)).2 = none ∧
    ReadsAs st.syn (formsOf (programText sts layout)).1 sts ∧
    ∃ sts', Statement.unlocList sts' = Statement.unlocList sts ∧
      evalText fuel st (programText sts layout) = runStmts fuel st sts' none := by
  have hp := printsAs_printStmt st.syn sts hok
  have hsup' : ∀ p ∈ sts.map printStmt, SupportedD p := by
    intro p hp'
    obtain ⟨s, hs, rfl⟩ := List.mem_map.1 hp'
    exact hsup s hs
  obtain ⟨h1, h2⟩ := formsText_readsAs st.syn _ sts layout hp hsup' hl
  exact ⟨h1, h2, evalText_readsAs fuel st _ sts h1 h2⟩

example : (∀ s ∈ samplePgm, okStmt (C01More.macroOf (default_ false).syn) s) ∧
    (∀ s ∈ samplePgm, SupportedD (printStmt s)) ∧ ValidLayout (programToks samplePgm) layoutA :=
  ⟨sample_ok_default, sample_sup, sample_layoutA⟩

/-- A PROGRAM TEXT EVALUATES AS ITS STATEMENTS.  Same hypotheses.  `Interpreter::eval` on the text,
from the interpreter state `st`, and the evaluation of the statements `sts` themselves one after
another by `eval_ast` from `st`, stopping at the first error (`runStmts`), with the same fuel, give:
the same outcome up to locations — the value of the last statement (identical but for the positions
inside the code of closures) or the KIND of the first error; the same final interpreter state up to
the positions stored in code; exactly the same output.  Only the location reported with an error can
differ (the text's statements carry the positions of the text). -/
theorem program_text_evaluates_as_its_statements (fuel : Nat) (st : State) (sts : List Statement)
    (layout : List (List Char))
    (hok : ∀ s ∈ sts, okStmt (C01More.macroOf st.syn) s) (hsup : ∀ s ∈ sts, SupportedD (printStmt s))
    (hl : ValidLayout (programToks sts) layout) :
    outcomeUnloc (evalText fuel st (programText sts layout)).1 = outcomeUnloc (runStmts fuel st sts none).1 ∧
    (evalText fuel st (programText sts layout)).2.unloc = (runStmts fuel st sts none).2.unloc ∧
    (evalText fuel st (programText sts layout)).2.store.out = (runStmts fuel st sts none).2.store.out := by
  obtain ⟨h1, h2, _⟩ := program_text_reads_as_its_statements fuel st sts layout hok hsup hl
  exact IU_unpack (evalText_readsAs_unloc fuel st _ sts h1 h2)

example : (∀ s ∈ samplePgm, okStmt (C01More.macroOf (default_ false).syn) s) ∧
    (∀ s ∈ samplePgm, SupportedD (printStmt s)) ∧ ValidLayout (programToks samplePgm) layoutB :=
  ⟨sample_ok_default, sample_sup, sample_layoutB⟩

/-- … in the vocabulary of C01More alone: a list of CORE statements (`coreStmt`), the tokens of their
`renderStmt` forms. -/
theorem core_program_text_evaluates_as_its_statements (fuel : Nat) (st : State) (sts : List Statement)
    (layout : List (List Char))
    (hc : ∀ s ∈ sts, coreStmt (C01More.macroOf st.syn) s = true)
    (hsup : ∀ s ∈ sts, SupportedD (renderStmt s))
    (hl : ValidLayout (Syn.toksL ((sts.map renderStmt).map Syn.ofDatum)) layout) :
    let text := interleave (Syn.toksL ((sts.map renderStmt).map Syn.ofDatum)) layout
    outcomeUnloc (evalText fuel st text).1 = outcomeUnloc (runStmts fuel st sts none).1 ∧
    (evalText fuel st text).2.unloc = (runStmts fuel st sts none).2.unloc ∧
    (evalText fuel st text).2.store.out = (runStmts fuel st sts none).2.store.out := by
  have e : sts.map renderStmt = sts.map printStmt :=
    List.map_congr_left (fun s hs => (printStmt_of_core (hc s hs)).symm)
  intro text
  have := program_text_evaluates_as_its_statements fuel st sts layout
    (fun s hs => okStmt_of_core (hc s hs)) (fun s hs => by rw [printStmt_of_core (hc s hs)]; exact hsup s hs)
    (by unfold programToks formsToks; rw [← e]; exact hl)
  unfold programText formsText formsToks at this
  rw [← e] at this
  exact this

/-- `(define x 1) (f x)` in the syntax environment of a fresh interpreter -/
example : (∀ s ∈ [Statement.definition (.mk "x" (.prim (.int 1) none) none),
        .expr (.call (.sym "f" none) [.sym "x" none] none)],
      coreStmt (C01More.macroOf (default_ false).syn) s = true) := by
  rw [default_macros]; decide

/-- THE SAME FOR ANY WAY OF WRITING THE STATEMENTS.  Let the location-free data `ps` be a way of
writing `sts` in `st.syn` (`PrintsAs`: the transformer, with the fuel the interpreter uses, turns each
datum into the corresponding statement and leaves the syntax environment alone) — the canonical
printed forms are one (`program_text_evaluates_as_its_statements`), `(define (f . formals) body…)`
for a procedure definition is another (`define_sugar_same_run`).  Then the text of `ps` under any valid
layout evaluates as the statements `sts`: same outcome up to locations, same state up to locations,
same output. -/
theorem written_program_evaluates_as_its_statements (fuel : Nat) (st : State) (ps : List Datum)
    (sts : List Statement) (layout : List (List Char))
    (hp : PrintsAs st.syn ps sts) (hsup : ∀ p ∈ ps, SupportedD p) (hl : ValidLayout (formsToks ps) layout) :
    (∃ sts', Statement.unlocList sts' = Statement.unlocList sts ∧
      evalText fuel st (formsText ps layout) = runStmts fuel st sts' none) ∧
    outcomeUnloc (evalText fuel st (formsText ps layout)).1 = outcomeUnloc (runStmts fuel st sts none).1 ∧
    (evalText fuel st (formsText ps layout)).2.unloc = (runStmts fuel st sts none).2.unloc ∧
    (evalText fuel st (formsText ps layout)).2.store.out = (runStmts fuel st sts none).2.store.out := by
  obtain ⟨h1, h2⟩ := formsText_readsAs st.syn ps sts layout hp hsup hl
  exact ⟨evalText_readsAs fuel st _ sts h1 h2, IU_unpack (evalText_readsAs_unloc fuel st _ sts h1 h2)⟩

example : PrintsAs (default_ false).syn (samplePgm.map printStmt) samplePgm ∧
    (∀ p ∈ samplePgm.map printStmt, SupportedD p) ∧ ValidLayout (formsToks (samplePgm.map printStmt)) layoutA :=
  ⟨printsAs_printStmt _ _ sample_ok_default, fun p hp => by
    obtain ⟨s, hs, rfl⟩ := List.mem_map.1 hp
    exact sample_sup s hs, sample_layoutA⟩

/-! ## stopping at the first error -/

/-- NOTHING IS EVALUATED AFTER THE FIRST FAILING STATEMENT: when the statements `pre` succeed, leaving
the state `st₁`, and the next statement `s` fails there, the run of `pre ++ s :: post` is that failure,
in the state `s` left — whatever follows. -/
theorem statements_stop_at_first_error (fuel : Nat) (st st₁ st₂ : State) (pre post : List Statement)
    (s : Statement) (last v : Option Value) (e : SErr)
    (hpre : runStmts fuel st pre last = (.ok v, st₁)) (hfail : evalAst fuel st₁ s = (.error e, st₂)) :
    runStmts fuel st (pre ++ s :: post) last = (.error e, st₂) := by
  rw [runStmts_append, hpre]
  simp only [runStmts, hfail]

/-- the statement `(1)` fails in every state: the operator is not a procedure -/
private theorem sample_fail (st : State) : ∃ loc st₂,
    evalAst 2 st (.expr (.call (.prim (.int 1) none) [] none)) = (.error (.nonProcedure, loc), st₂) := by
  unfold evalAst
  by_cases h : st.importEnd = true <;>
    simp [h, evalExprOrDef, Eval.evalExpr, Eval.evalArgs, Eval.evalPrim, Eval.procArity]

example : runStmts 2 (default_ false) [] none = (.ok none, default_ false) ∧
    ∃ loc st₂, evalAst 2 (default_ false) (.expr (.call (.prim (.int 1) none) [] none)) =
      (.error (.nonProcedure, loc), st₂) :=
  ⟨rfl, sample_fail _⟩

example : (∀ s' ∈ [] ++ Statement.expr (.call (.prim (.int 1) none) [] none) :: samplePgm,
      okStmt (C01More.macroOf (default_ false).syn) s') := by
  intro s' hs'
  rcases List.mem_cons.1 hs' with rfl | hs'
  · rw [default_macros]
    show coreStmt C01More.isStdMacro (.expr _) = true
    decide
  · exact sample_ok_default s' hs'

/-- … hence for the program TEXT: if the statements `pre` succeed (leaving `st₁`) and the next
statement `s` fails in `st₁` with an error of kind `e` (leaving `st₂`), then `Interpreter::eval` on the
text of `pre ++ s :: post`, under any valid layout, returns an error of that kind, having written what
`pre` and the completed effects of `s` wrote (`part`) and nothing of `post`; the state is `st₂` up to
locations. -/
theorem program_text_stops_at_first_failure (fuel : Nat) (st st₁ st₂ : State) (pre post : List Statement)
    (s : Statement) (v : Option Value) (e : Err) (loc : Loc) (layout : List (List Char))
    (hok : ∀ s' ∈ pre ++ s :: post, okStmt (C01More.macroOf st.syn) s')
    (hsup : ∀ s' ∈ pre ++ s :: post, SupportedD (printStmt s'))
    (hl : ValidLayout (programToks (pre ++ s :: post)) layout)
    (hpre : runStmts fuel st pre none = (.ok v, st₁)) (hfail : evalAst fuel st₁ s = (.error (e, loc), st₂)) :
    (∃ loc', (evalText fuel st (programText (pre ++ s :: post) layout)).1 = .error (e, loc')) ∧
    (evalText fuel st (programText (pre ++ s :: post) layout)).2.unloc = st₂.unloc ∧
    ∃ part : List String, st₂.store.out = part ++ st₁.store.out ∧
      (evalText fuel st (programText (pre ++ s :: post) layout)).2.store.out = part ++ st₁.store.out := by
  obtain ⟨h1, h2, h3⟩ := program_text_evaluates_as_its_statements fuel st _ layout hok hsup hl
  rw [statements_stop_at_first_error fuel st st₁ st₂ pre post s none v (e, loc) hpre hfail] at h1 h2 h3
  obtain ⟨part, hp⟩ := (evalAst_out hfail).1
  exact ⟨outcomeUnloc_error h1 rfl, h2, part, hp, by rw [h3]; exact hp⟩

/-! ## fuel -/

/-- FUEL.  If the statements, evaluated with fuel `n`, end in an outcome `r` that is not the fuel error
(a value, or a genuine error), then `Interpreter::eval` on their text with ANY fuel `m ≥ n` ends in that
outcome up to locations, in that state up to locations, with that output: more fuel changes nothing.
(The reader's and the transformer's budgets are internal to `evalText` and always sufficient.) -/
theorem program_text_fuel_monotone (n m : Nat) (hnm : n ≤ m) (st st' : State) (sts : List Statement)
    (layout : List (List Char)) (r : Except SErr (Option Value))
    (hok : ∀ s ∈ sts, okStmt (C01More.macroOf st.syn) s) (hsup : ∀ s ∈ sts, SupportedD (printStmt s))
    (hl : ValidLayout (programToks sts) layout)
    (hrun : runStmts n st sts none = (r, st')) (hr : NotFuel r) :
    outcomeUnloc (evalText m st (programText sts layout)).1 = outcomeUnloc r ∧
    (evalText m st (programText sts layout)).2.unloc = st'.unloc ∧
    (evalText m st (programText sts layout)).2.store.out = st'.store.out := by
  have h := program_text_evaluates_as_its_statements m st sts layout hok hsup hl
  rw [runStmts_mono_le hnm sts st none hrun hr] at h
  exact h

example : runStmts 0 (default_ false) [] none = (.ok none, default_ false) ∧ NotFuel (.ok none : Except SErr (Option Value)) :=
  ⟨rfl, rfl⟩

/-! ## 2. the same through `ruschm FILE` -/

/-- `ruschm FILE` ON A PROGRAM TEXT.  For program statements `sts` (side conditions w.r.t. the nine
bundled derived forms, `C01More.isStdMacro`: the syntax environment of `Interpreter::default()`) written
to a file under any valid layout: standard output is exactly what the statements, evaluated one after
another from the fresh interpreter and stopping at the first error, wrote; the exit status is 0 exactly
when EVERY statement succeeded (`AllOk`), and then there is no diagnostic; otherwise it is 255, with ONE
diagnostic whose error kind is the kind of the first failing statement's error. -/
theorem cli_runs_the_statements (fuel : Nat) (sts : List Statement) (layout : List (List Char))
    (hok : ∀ s ∈ sts, okStmt C01More.isStdMacro s) (hsup : ∀ s ∈ sts, SupportedD (printStmt s))
    (hl : ValidLayout (programToks sts) layout) :
    (cli fuel (some (String.ofList (programText sts layout)))).stdout =
      String.join (runStmts fuel (default_ false) sts none).2.store.out.reverse ∧
    ((cli fuel (some (String.ofList (programText sts layout)))).exitCode = 0 ↔
      AllOk fuel (default_ false) sts) ∧
    (∀ v, (runStmts fuel (default_ false) sts none).1 = .ok v →
      (cli fuel (some (String.ofList (programText sts layout)))).exitCode = 0 ∧
      (cli fuel (some (String.ofList (programText sts layout)))).diag = none ∧
      (cli fuel (some (String.ofList (programText sts layout)))).errKind = none) ∧
    (∀ e loc, (runStmts fuel (default_ false) sts none).1 = .error (e, loc) →
      (cli fuel (some (String.ofList (programText sts layout)))).exitCode = 255 ∧
      (cli fuel (some (String.ofList (programText sts layout)))).diag.isSome = true ∧
      (cli fuel (some (String.ofList (programText sts layout)))).errKind = some e) := by
  have hok' : ∀ s ∈ sts, okStmt (C01More.macroOf (default_ false).syn) s := by
    rw [default_macros]; exact hok
  obtain ⟨h1, _, h3⟩ := program_text_evaluates_as_its_statements fuel (default_ false) sts layout hok' hsup hl
  obtain ⟨c1, c2, c3⟩ := C17.cli_equals_library_interface fuel (String.ofList (programText sts layout))
  have hz := C17.exit_zero_iff_ok fuel (String.ofList (programText sts layout))
  simp only [String.toList_ofList] at c1 c2 c3 hz
  refine ⟨by rw [c1, h3], ?_, ?_, ?_⟩
  · rw [hz, outcomeUnloc_ok_iff h1]
    exact runStmts_ok_iff_allOk fuel sts (default_ false) none
  · intro v hv
    obtain ⟨v', hv'⟩ := (outcomeUnloc_ok_iff h1).2 ⟨v, hv⟩
    exact c2 v' hv'
  · intro e loc he
    obtain ⟨loc', he'⟩ := outcomeUnloc_error h1 he
    obtain ⟨a, b, c⟩ := c3 e loc' he'
    exact ⟨a, by rw [b]; rfl, c⟩

example : (∀ s ∈ samplePgm, okStmt C01More.isStdMacro s) ∧ (∀ s ∈ samplePgm, SupportedD (printStmt s)) ∧
    ValidLayout (programToks samplePgm) layoutA ∧
    String.ofList (programText samplePgm layoutA) = "(import (scheme write))\n(define x 1)\n(display x)\n" :=
  ⟨sample_ok, sample_sup, sample_layoutA, by rw [sample_textA]; simp⟩

/-- STANDARD OUTPUT AT A FAILURE.  When the statements `pre` succeed from the fresh interpreter, leaving
`st₁`, and the next statement `s` fails there (kind `e`), leaving `st₂`: `ruschm FILE` on the text of
`pre ++ s :: post` has written exactly what `pre` wrote, followed by what `s` itself wrote before it
failed (`part`, its completed effects) — nothing of `post`; it exits with 255 and one diagnostic of
kind `e`. -/
theorem cli_stdout_is_output_before_failure (fuel : Nat) (pre post : List Statement) (s : Statement)
    (layout : List (List Char)) (v : Option Value) (st₁ st₂ : State) (e : Err) (loc : Loc)
    (hok : ∀ s' ∈ pre ++ s :: post, okStmt C01More.isStdMacro s')
    (hsup : ∀ s' ∈ pre ++ s :: post, SupportedD (printStmt s'))
    (hl : ValidLayout (programToks (pre ++ s :: post)) layout)
    (hpre : runStmts fuel (default_ false) pre none = (.ok v, st₁))
    (hfail : evalAst fuel st₁ s = (.error (e, loc), st₂)) :
    ∃ part : List String, st₂.store.out = part ++ st₁.store.out ∧
      (cli fuel (some (String.ofList (programText (pre ++ s :: post) layout)))).stdout =
        String.join st₁.store.out.reverse ++ String.join part.reverse ∧
      (cli fuel (some (String.ofList (programText (pre ++ s :: post) layout)))).errKind = some e ∧
      (cli fuel (some (String.ofList (programText (pre ++ s :: post) layout)))).diag.isSome = true ∧
      (cli fuel (some (String.ofList (programText (pre ++ s :: post) layout)))).exitCode = 255 := by
  obtain ⟨c1, _, _, c4⟩ := cli_runs_the_statements fuel _ layout hok hsup hl
  have hrun := statements_stop_at_first_error fuel _ st₁ st₂ pre post s none v (e, loc) hpre hfail
  rw [hrun] at c1 c4
  obtain ⟨part, hp⟩ := (evalAst_out hfail).1
  obtain ⟨a, b, c⟩ := c4 e loc rfl
  refine ⟨part, hp, ?_, c, b, a⟩
  rw [c1]
  exact outText_ext hp

/-- the program `(1)` followed by the sample program: the hypotheses hold with `pre = []` -/
example : runStmts 2 (default_ false) [] none = (.ok none, default_ false) ∧
    (∃ loc st₂, evalAst 2 (default_ false) (.expr (.call (.prim (.int 1) none) [] none)) =
      (.error (.nonProcedure, loc), st₂)) ∧
    ValidLayout (programToks ([] ++ Statement.expr (.call (.prim (.int 1) none) [] none) :: samplePgm))
      ([] :: [] :: [] :: layoutA) ∧
    SupportedD (printStmt (Statement.expr (.call (.prim (.int 1) none) [] none))) :=
  ⟨rfl, sample_fail _, by decide, (by decide : fitsI32 1 = true), trivial⟩

/-! ## 3. layout independence; the statements determine the run -/

/-- LAYOUT INDEPENDENCE AS A COROLLARY.  Two valid layouts of the same program statements — different
line breaks, indentation, comments, LF or CRLF, a final newline or none — give the same run through the
library interface: the same outcome up to locations (value, or error kind), the same state up to
locations, the same output.  (C17 `layout_irrelevant` says this for a token sequence; here both runs
are moreover THE run of the statements, `program_text_evaluates_as_its_statements`.) -/
theorem program_layout_independent (fuel : Nat) (st : State) (sts : List Statement) (l₁ l₂ : List (List Char))
    (hok : ∀ s ∈ sts, okStmt (C01More.macroOf st.syn) s) (hsup : ∀ s ∈ sts, SupportedD (printStmt s))
    (h₁ : ValidLayout (programToks sts) l₁) (h₂ : ValidLayout (programToks sts) l₂) :
    outcomeUnloc (evalText fuel st (programText sts l₁)).1 = outcomeUnloc (evalText fuel st (programText sts l₂)).1 ∧
    (evalText fuel st (programText sts l₁)).2.unloc = (evalText fuel st (programText sts l₂)).2.unloc ∧
    (evalText fuel st (programText sts l₁)).2.store.out = (evalText fuel st (programText sts l₂)).2.store.out := by
  obtain ⟨a1, a2, a3⟩ := program_text_evaluates_as_its_statements fuel st sts l₁ hok hsup h₁
  obtain ⟨b1, b2, b3⟩ := program_text_evaluates_as_its_statements fuel st sts l₂ hok hsup h₂
  exact ⟨a1.trans b1.symm, a2.trans b2.symm, a3.trans b3.symm⟩

example : ValidLayout (programToks samplePgm) layoutA ∧ ValidLayout (programToks samplePgm) layoutB :=
  ⟨sample_layoutA, sample_layoutB⟩

/-- … and through `ruschm FILE`: same standard output, same exit status, same error kind. -/
theorem cli_program_layout_independent (fuel : Nat) (sts : List Statement) (l₁ l₂ : List (List Char))
    (hok : ∀ s ∈ sts, okStmt C01More.isStdMacro s) (hsup : ∀ s ∈ sts, SupportedD (printStmt s))
    (h₁ : ValidLayout (programToks sts) l₁) (h₂ : ValidLayout (programToks sts) l₂) :
    (cli fuel (some (String.ofList (programText sts l₁)))).stdout =
      (cli fuel (some (String.ofList (programText sts l₂)))).stdout ∧
    (cli fuel (some (String.ofList (programText sts l₁)))).exitCode =
      (cli fuel (some (String.ofList (programText sts l₂)))).exitCode ∧
    (cli fuel (some (String.ofList (programText sts l₁)))).errKind =
      (cli fuel (some (String.ofList (programText sts l₂)))).errKind := by
  obtain ⟨a1, a2, a3, a4⟩ := cli_runs_the_statements fuel sts l₁ hok hsup h₁
  obtain ⟨b1, b2, b3, b4⟩ := cli_runs_the_statements fuel sts l₂ hok hsup h₂
  refine ⟨a1.trans b1.symm, ?_, ?_⟩
  · cases hr : (runStmts fuel (default_ false) sts none).1 with
    | ok v => rw [(a3 v hr).1, (b3 v hr).1]
    | error e => obtain ⟨k, l⟩ := e; rw [(a4 k l hr).1, (b4 k l hr).1]
  · cases hr : (runStmts fuel (default_ false) sts none).1 with
    | ok v => rw [(a3 v hr).2.2, (b3 v hr).2.2]
    | error e => obtain ⟨k, l⟩ := e; rw [(a4 k l hr).2.2, (b4 k l hr).2.2]

/-- THE STATEMENTS, NOT THE TOKENS, DETERMINE THE RUN.  This is what is new w.r.t. C17
`layout_irrelevant` / `forms_layout_invariant` (same TOKENS ⇒ same run): two texts with DIFFERENT tokens
run alike as soon as they are two ways of writing the same statements.  Let `ps₁` and `ps₂` be two ways
of writing (`PrintsAs`) statement lists that are equal up to locations; then their texts, each under any
valid layout of its own tokens, give the same outcome up to locations, the same state up to locations
and the same output. -/
theorem same_statements_same_run (fuel : Nat) (st : State) (ps₁ ps₂ : List Datum) (sts₁ sts₂ : List Statement)
    (l₁ l₂ : List (List Char))
    (hp₁ : PrintsAs st.syn ps₁ sts₁) (hp₂ : PrintsAs st.syn ps₂ sts₂)
    (hsame : Statement.unlocList sts₁ = Statement.unlocList sts₂)
    (hs₁ : ∀ p ∈ ps₁, SupportedD p) (hs₂ : ∀ p ∈ ps₂, SupportedD p)
    (h₁ : ValidLayout (formsToks ps₁) l₁) (h₂ : ValidLayout (formsToks ps₂) l₂) :
    outcomeUnloc (evalText fuel st (formsText ps₁ l₁)).1 = outcomeUnloc (evalText fuel st (formsText ps₂ l₂)).1 ∧
    (evalText fuel st (formsText ps₁ l₁)).2.unloc = (evalText fuel st (formsText ps₂ l₂)).2.unloc ∧
    (evalText fuel st (formsText ps₁ l₁)).2.store.out = (evalText fuel st (formsText ps₂ l₂)).2.store.out := by
  obtain ⟨_, a1, a2, a3⟩ := written_program_evaluates_as_its_statements fuel st ps₁ sts₁ l₁ hp₁ hs₁ h₁
  obtain ⟨_, b1, b2, b3⟩ := written_program_evaluates_as_its_statements fuel st ps₂ sts₂ l₂ hp₂ hs₂ h₂
  obtain ⟨c1, c2, c3⟩ := IU_unpack (runStmts_unloc fuel sts₁ sts₂ st st none none hsame rfl rfl)
  exact ⟨a1.trans (c1.trans b1.symm), a2.trans (c2.trans b2.symm), a3.trans (c3.trans b3.symm)⟩

/-- AN INSTANCE WITH DIFFERENT TOKENS: the two spellings of a procedure definition.  For every core
procedure `lam` (any formals, internal definitions, body), the texts `(define (x . formals) def… body…)`
and `(define x (lambda formals def… body…))`, each under any valid layout, followed by the same further
program statements `rest`, give the same run: same outcome up to locations, same state up to
locations, same output. -/
theorem define_sugar_same_run (fuel : Nat) (st : State) (x : String) (lam : Lambda) (rest : List Statement)
    (l₁ l₂ : List (List Char))
    (hc : coreLambda (C01More.macroOf st.syn) lam = true)
    (hok : ∀ s ∈ rest, okStmt (C01More.macroOf st.syn) s)
    (hs₁ : SupportedD (defineSugarD x lam))
    (hs₂ : SupportedD (renderStmt (.definition (.mk x (.lambda lam none) none))))
    (hsr : ∀ s ∈ rest, SupportedD (printStmt s))
    (h₁ : ValidLayout (formsToks (defineSugarD x lam :: rest.map printStmt)) l₁)
    (h₂ : ValidLayout (programToks (.definition (.mk x (.lambda lam none) none) :: rest)) l₂) :
    outcomeUnloc (evalText fuel st (formsText (defineSugarD x lam :: rest.map printStmt) l₁)).1 =
      outcomeUnloc (evalText fuel st (programText (.definition (.mk x (.lambda lam none) none) :: rest) l₂)).1 ∧
    (evalText fuel st (formsText (defineSugarD x lam :: rest.map printStmt) l₁)).2.unloc =
      (evalText fuel st (programText (.definition (.mk x (.lambda lam none) none) :: rest) l₂)).2.unloc ∧
    (evalText fuel st (formsText (defineSugarD x lam :: rest.map printStmt) l₁)).2.store.out =
      (evalText fuel st (programText (.definition (.mk x (.lambda lam none) none) :: rest) l₂)).2.store.out := by
  have hstrip : (defineSugarD x lam).strip = defineSugarD x lam := by
    obtain ⟨fm, defs, body⟩ := lam
    simp [defineSugarD, lst, strip_ofList_none, ident, Datum.strip, strip_formalsD,
      strip_renderDefs defs _ (strip_renderList body)]
  have hdef : okStmt (C01More.macroOf st.syn) (.definition (.mk x (.lambda lam none) none)) := by
    simpa [okStmt, coreStmt, coreDef, core] using hc
  have hp₁ : PrintsAs st.syn (defineSugarD x lam :: rest.map printStmt)
      (.definition (.mk x (.lambda lam none) none) :: rest) :=
    ⟨⟨hstrip, C01More.transform_define_sugar x lam none none st.syn _ hc (by simp only [xformFuel]; omega)⟩,
      printsAs_printStmt st.syn rest hok⟩
  have hok₂ : ∀ s ∈ Statement.definition (.mk x (.lambda lam none) none) :: rest, okStmt (C01More.macroOf st.syn) s := by
    intro s hs
    rcases List.mem_cons.1 hs with rfl | hs
    · exact hdef
    · exact hok s hs
  have hp₂ := printsAs_printStmt st.syn (.definition (.mk x (.lambda lam none) none) :: rest) hok₂
  refine same_statements_same_run fuel st _ _ _ _ l₁ l₂ hp₁ hp₂ rfl ?_ ?_ h₁ h₂
  · intro p hp
    rcases List.mem_cons.1 hp with rfl | hp
    · exact hs₁
    · obtain ⟨s, hs, rfl⟩ := List.mem_map.1 hp
      exact hsr s hs
  · intro p hp
    obtain ⟨s, hs, rfl⟩ := List.mem_map.1 hp
    rcases List.mem_cons.1 hs with rfl | hs
    · exact hs₂
    · exact hsr s hs

/-- `(define (g y) y)` and `(define g (lambda (y) y))`, followed by `(g 1)` -/
private def sampleLam : Lambda := .mk ⟨["y"], none⟩ [] [.sym "y" none]
private def sampleRest : List Statement := [.expr (.call (.sym "g" none) [.prim (.int 1) none] none)]

example : formsText (defineSugarD "g" sampleLam :: sampleRest.map printStmt)
      [[], [], [' '], [], [' '], [], [' '], [], ['\n'], [], [' '], [], []] = "(define (g y) y)\n(g 1)".toList ∧
    programText (.definition (.mk "g" (.lambda sampleLam none) none) :: sampleRest)
      [[], [], [' '], [' '], [], [' '], [], [], [' '], [], [], [' '], [], [' '], [], []]
      = "(define g (lambda (y) y)) (g 1)".toList := by decide

example : coreLambda (C01More.macroOf (default_ false).syn) sampleLam = true ∧
    (∀ s ∈ sampleRest, okStmt (C01More.macroOf (default_ false).syn) s) ∧
    ValidLayout (formsToks (defineSugarD "g" sampleLam :: sampleRest.map printStmt))
      [[], [], [' '], [], [' '], [], [' '], [], ['\n'], [], [' '], [], []] ∧
    ValidLayout (programToks (.definition (.mk "g" (.lambda sampleLam none) none) :: sampleRest))
      [[], [], [' '], [' '], [], [' '], [], [], [' '], [], [], [' '], [], [' '], [], []] := by
  rw [default_macros]
  refine ⟨by decide, ?_, by decide, by decide⟩
  intro s hs
  simp only [sampleRest, List.mem_cons, List.not_mem_nil, or_false] at hs
  subst hs
  show coreStmt C01More.isStdMacro (.expr _) = true
  decide

/-! ## 4. down to the reference semantics (C01) -/

/-- STATEMENTS REFINE THE REFERENCE.  For a program of top-level expressions and definitions, run by the
interpreter (`eval_ast` one after another from the state `st`, first error ends the run): every outcome
other than the fuel error is the outcome the REFERENCE RUN (`RefRuns`: R7RS 5.1 over `Ref.evalTop`, the
evaluation rules written from R7RS) assigns to the program in the root frame — the same value of the
last statement, or the same error kind (`AgreeKind`: up to the order of the operator/operand checks that
R7RS leaves open) — with the same final store (activation counters erased).  Composition of C01
`toplevel_refines_ref` along the program. -/
theorem statements_refine_reference (fuel : Nat) (st st' : State) (sts : List Statement)
    (r : Except SErr (Option Value)) (hs : ∀ s ∈ sts, CoreShape s)
    (hrun : runStmts fuel st sts none = (r, st')) (hr : NotFuel r) :
    ∃ r', RefRuns st.env st.store.erase sts none r' st'.store.erase ∧ AgreeKind r r' :=
  runStmts_refines_ref fuel sts st st' none r hs hrun hr

example : (∀ s ∈ [Statement.expr (.call (.prim (.int 1) none) [] none)], CoreShape s) ∧
    runStmts 0 (default_ false) [] none = (.ok none, default_ false) ∧
    NotFuel (.ok none : Except SErr (Option Value)) :=
  ⟨fun s hs => by simp only [List.mem_cons, List.not_mem_nil, or_false] at hs; subst hs; trivial, rfl, rfl⟩

/-- FROM THE TEXT TO THE REFERENCE (C06 ∘ C01More ∘ C17 ∘ C01).  Let `sts` be core statements written as
a text under any valid layout, and let `Interpreter::eval` on that text, from the state `st`, end in an
outcome `r` other than the fuel error, in the state `st'`.  Then there are statements `sts'`, equal to
`sts` up to source locations (the statements with the positions of the text), to which the reference run
assigns — in the interpreter's root frame, from its store — an outcome that agrees with `r` (same value,
same error kind) and the final store of `st'`. -/
theorem core_program_text_refines_reference (fuel : Nat) (st st' : State) (sts : List Statement)
    (layout : List (List Char)) (r : Except SErr (Option Value))
    (hc : ∀ s ∈ sts, coreStmt (C01More.macroOf st.syn) s = true)
    (hsup : ∀ s ∈ sts, SupportedD (printStmt s))
    (hl : ValidLayout (programToks sts) layout)
    (hrun : evalText fuel st (programText sts layout) = (r, st')) (hr : NotFuel r) :
    ∃ sts' r', Statement.unlocList sts' = Statement.unlocList sts ∧
      RefRuns st.env st.store.erase sts' none r' st'.store.erase ∧ AgreeKind r r' := by
  obtain ⟨_, _, sts', h1, h2⟩ := program_text_reads_as_its_statements fuel st sts layout
    (fun s hs => okStmt_of_core (hc s hs)) hsup hl
  rw [h2] at hrun
  have hshape := coreShape_of_unlocList sts' sts h1 (fun s hs => coreShape_of_core (hc s hs))
  obtain ⟨r', h3, h4⟩ := statements_refine_reference fuel st st' sts' r hshape hrun hr
  exact ⟨sts', r', h1, h3, h4⟩

/-- the empty program: the hypotheses hold (and the sample side conditions above for a longer one) -/
example : evalText 0 (default_ false) (programText [] [[]]) = (.ok none, default_ false) ∧
    NotFuel (.ok none : Except SErr (Option Value)) ∧ ValidLayout (programToks []) [[]] := by
  refine ⟨?_, rfl, by decide⟩
  obtain ⟨_, _, sts', h1, h2⟩ := program_text_reads_as_its_statements 0 (default_ false) [] [[]]
    (fun _ h => by simp at h) (fun _ h => by simp at h) (by decide)
  rw [h2]
  cases sts' with
  | nil => rfl
  | cons a as => simp [Statement.unlocList] at h1

/-- the program `(1)`: `Interpreter::eval` on its text ends in an outcome that is not the fuel error
(the non-procedure error of `program_text_stops_at_first_failure`) — the hypotheses are satisfiable by
a run that does something -/
example : ∃ r st', evalText 2 (default_ false)
      (programText [Statement.expr (.call (.prim (.int 1) none) [] none)] [[], [], [], []]) = (r, st') ∧
    NotFuel r ∧
    (∀ s ∈ [Statement.expr (.call (.prim (.int 1) none) [] none)],
      coreStmt (C01More.macroOf (default_ false).syn) s = true) := by
  obtain ⟨loc, st₂, hf⟩ := sample_fail (default_ false)
  have hcore : ∀ s ∈ [Statement.expr (.call (.prim (.int 1) none) [] none)],
      coreStmt (C01More.macroOf (default_ false).syn) s = true := by
    rw [default_macros]; decide
  obtain ⟨⟨loc', h⟩, _⟩ := program_text_stops_at_first_failure 2 (default_ false) (default_ false) st₂ [] []
    (.expr (.call (.prim (.int 1) none) [] none)) none .nonProcedure loc [[], [], [], []]
    (fun s hs => okStmt_of_core (hcore s hs))
    (fun s hs => by
      simp only [List.nil_append, List.mem_cons, List.not_mem_nil, or_false] at hs
      subst hs
      exact ⟨(by decide : fitsI32 1 = true), trivial⟩)
    (by decide) rfl hf
  exact ⟨.error (.nonProcedure, loc'), _, Prod.ext h rfl, rfl, hcore⟩

end Ruschm.C17More

"""C01 — core evaluation yields the value Scheme semantics assigns.
Theorems: lean/RuschmProofs/C01.lean (lookup of the innermost binding, operands once and in order,
only #f false, internal definitions, the spelling equivalences, refinement of a direct-style
reference evaluator by the trampolined evaluator). Tie: type-directed random programs over the core
forms with ticking sub-expressions, real interpreter vs model (values, errors, tick traces).
Oracle on the implementation alone: the same program in the equivalent spellings the property names
(define sugar vs lambda; direct call vs apply; fixed parameters vs a rest list) gives the same
per-form results and the same tick trace."""
import random
from . import common as C, proggen as P, progrun as R, pyeval

PROP = "C01"
MODULES = ["RuschmProofs.C01", "RuschmProofs.C01More"]
SPELLINGS = [{"define": "sugar", "call": "direct", "params": "fixed"},
             {"define": "lambda", "call": "direct", "params": "fixed"},
             {"define": "sugar", "call": "apply", "params": "fixed"},
             {"define": "lambda", "call": "apply", "params": "rest"}]


def run(rep, tier, rng):
    n = 300 if tier == "quick" else 8000
    cases, groups = [], []
    for i in range(n):
        seed = rng.randrange(1 << 60)
        nforms = rng.randrange(3, 10)
        # a quarter of the groups are CLOSURE SOUP: instances of a few factories handing over to one another (proggen.closure_soup)
        soup = rng.random() < 0.25
        ids = []
        for k, sp in enumerate(SPELLINGS):
            g = P.Gen(random.Random(seed), ticks=True, derived=False, spelling=sp)
            forms = ["(import (verif host))"] + (P.closure_soup(g) if soup else g.toplevel(nforms))
            cid = "p%d_%d" % (i, k)
            cases.append((cid, "progx", ["std+host"] + forms))
            ids.append(cid)
        groups.append(ids)
    impl = C.run_hx(cases)
    model = C.run_driver(cases)
    res = R.compare(rep, cases, impl, model, "core evaluator (RuschmModel/Eval.lean <-> interpreter.rs)")
    byid = {c[0]: c for c in cases}
    ref_judged = [0]
    for ids in groups:
        if not all(i in res for i in ids):
            continue
        base = res[ids[0]]
        rep.count(len(ids))
        rep.nontrivial(tuple(byid[ids[0]][2]))
        if len(rep.cov["samples"]) < 4:
            rep.sample({"program": byid[ids[0]][2][2:5], "results": base[0][1:4], "ticks": base[1][:80]})
        # the independent reference evaluator on EVERY spelling: values of the forms and the order in which the probes fire
        judged = False
        for k, cid in enumerate(ids):
            ref = pyeval.run_program(byid[cid][2][2:])
            if ref is None:
                continue
            judged = True
            r = res[cid]
            if r[0][1:] != ref[0] or r[1].split() != ref[1]:
                j = next((j for j in range(len(ref[0])) if r[0][1 + j] != ref[0][j]), None)
                rep.violation({"what": "the program does not yield the values and the order of evaluation R7RS assigns "
                                       "(independent reference evaluator)", "spelling": SPELLINGS[k], "program": byid[cid][2],
                               "form_index": j, "implementation": r[0][1 + j] if j is not None else {"ticks": r[1]},
                               "reference": ref[0][j] if j is not None else {"ticks": " ".join(ref[1])}})
                break
        ref_judged[0] += 1 if judged else 0
        for k, cid in enumerate(ids[1:], 1):
            r = res[cid]
            # procedures print as <proc> in every spelling; everything else must be identical
            if r[0] != base[0] or r[1] != base[1]:
                j = next((j for j in range(len(base[0])) if r[0][j] != base[0][j]), None)
                rep.violation({"what": "equivalent spellings give different results", "spelling_a": SPELLINGS[0],
                               "spelling_b": SPELLINGS[k], "program_a": byid[ids[0]][2], "program_b": byid[cid][2],
                               "form_index": j, "a": base[0][j] if j is not None else base[1],
                               "b": r[0][j] if j is not None else r[1]})
                break
    rep.extra["program_groups_judged_by_the_reference_evaluator"] = ref_judged[0]
    # lexical lookup of the innermost binding under constant shadowing and re-binding: the scope soup of C03 (nested let / let* /
    # directly applied lambdas whose operands mention the names they re-bind / internal definitions), judged by the reference evaluator
    from . import c03
    c03.scope_soup(rep, tier, rng)


def main(tier, seed):
    rep = C.Report(PROP, tier, seed)
    rng = random.Random(seed)
    rep.cov["rule"] = ("type-directed random programs of 3-9 top-level forms over the core forms (fixed/rest parameters, "
                       "lambda, top-level and internal definitions, if, quote, literals, higher-order calls, apply, set!, "
                       "vectors, bounded tail loops) with ticking sub-expressions, and closure soup (instances of 2-3 closure factories "
                       "that take a step budget, two other instances and an accumulator and hand over to one of them in tail position, "
                       "under an operator, through apply, through a compound operator, from a let body), each rendered in 4 equivalent spellings; "
                       "distinct = distinct program texts of the first spelling")
    ok = C.standard_proof_phase(rep, MODULES, directed_search=lambda r: run(r, tier, rng))
    if ok:
        run(rep, tier, rng)
    return rep.finish("cd lean && lake build RuschmProofs.C01 && lake env lean <#print axioms of every theorem in RuschmProofs/C01.lean>")

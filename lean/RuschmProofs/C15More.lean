/-
Property C15 at the level of program TEXT: reported error locations point into the form that failed.

  "Every run-time error reported for a program carries a source location, and that line and column
   lie within the text of the top-level form whose evaluation failed - at the offending identifier or
   operator when the fault is an unbound variable or a non-procedure, otherwise anywhere in the form -
   never in another form, beyond the end of the file, or in the interpreter's own bundled sources."

`RuschmProofs/C15.lean` proves the position discipline stage by stage (lexer, reader, expander,
transformer, evaluator, `eval_ast`) and, for whole programs, that a reported position is the cursor
after SOME prefix of the program text.  `RuschmProofs/C17More.lean` says that a program text IS the run
of its statements.  Here the two are composed: the position reported for the text of the statements
`pre ++ s :: post`, when `s` is the first statement that fails, lies within the EXTENT of form number
`|pre|` of that text.

Vocabulary:
* `programText sts layout`, `programToks`, `ValidLayout`, `okStmt`, `printStmt`, `runStmts` — the
  text-level vocabulary of C17More, `Ruschm.ProgramText.*` of `ProgramTextLemmas.lean`: THE SAME
  definitions `C17More.lean` states its theorems about;
and, from `RuschmProofs/TextExtentLemmas.lean` (namespace `Ruschm.TextExtent`):
* `extent sts layout i : Pos × Pos` — the position `Text.advs` assigns (from 1:1) to the place where
  the first token of form `i` starts, and the cursor after its last token; both are `Text.advs` of a
  prefix of `programText sts layout`;
* `posLt`, `posLe` — the order of positions (line, then column);
* `Within ext l` — `ext.1 < l ≤ ext.2`.  The interpreter reports CURSORS AFTER tokens (C15
  `token_locs_in_text`), so the positions of the tokens of a form are exactly the positions `l` with
  `start < l ≤ end` that are token cursors; consecutive extents `(start, end]` are disjoint.
-/
import RuschmProofs.TextExtentLemmas

set_option linter.unusedSimpArgs false
set_option linter.unusedVariables false

namespace Ruschm.C15More
open Ruschm Ruschm.Interp Ruschm.Front Ruschm.FrontSpec Ruschm.Xform Ruschm.CoreSyntax Ruschm.Text
open Ruschm.ProgramText Ruschm.TextExtent

/-! ## sample program, used by the `example`s: `(define x 1)  (1)  x` — the fault is in the second form -/

private def samplePre : List Statement := [.definition (.mk "x" (.prim (.int 1) none) none)]
private def sampleBad : Statement := .expr (.call (.prim (.int 1) none) [] none)
private def samplePost : List Statement := [.expr (.sym "x" none)]
private def samplePgm : List Statement := samplePre ++ sampleBad :: samplePost

/-- one form per line: `(define x 1)⏎(1)⏎x⏎` -/
private def layoutA : List (List Char) := [[], [], [' '], [' '], [], ['\n'], [], [], ['\n'], ['\n']]

/-- a comment first, the definition over two lines, the other forms behind it on the same line, no
final newline: `;c⏎( define x⏎1 )  (1) x` -/
private def layoutB : List (List Char) :=
  [";c\n".toList, [' '], [' '], ['\n'], [' '], [' ', ' '], [], [], [' '], []]

private theorem sample_textA : programText samplePgm layoutA = "(define x 1)\n(1)\nx\n".toList := by decide
private theorem sample_textB : programText samplePgm layoutB = ";c\n( define x\n1 )  (1) x".toList := by decide

private theorem sample_layoutA : ValidLayout (programToks samplePgm) layoutA := by decide
private theorem sample_layoutB : ValidLayout (programToks samplePgm) layoutB := by decide

/-- THE EXTENTS COMPUTED, layout A: line 1 columns 1–13, line 2 columns 1–4, line 3 columns 1–2 -/
example : extent samplePgm layoutA 0 = ((1, 1), (1, 13)) ∧ extent samplePgm layoutA 1 = ((2, 1), (2, 4)) ∧
    extent samplePgm layoutA 2 = ((3, 1), (3, 2)) := by decide

/-- THE EXTENTS COMPUTED, layout B: the definition from 2:1 to 3:4, `(1)` from 3:6 to 3:9, `x` from 3:10
to 3:11 -/
example : extent samplePgm layoutB 0 = ((2, 1), (3, 4)) ∧ extent samplePgm layoutB 1 = ((3, 6), (3, 9)) ∧
    extent samplePgm layoutB 2 = ((3, 10), (3, 11)) := by decide

/-- the cursor after the operator `1` of `(1)` — 2:3 under layout A, 3:8 under layout B — lies within
the extent of the second form and of no other -/
example : Within (extent samplePgm layoutA 1) (2, 3) ∧ ¬ Within (extent samplePgm layoutA 0) (2, 3) ∧
    ¬ Within (extent samplePgm layoutA 2) (2, 3) ∧
    Within (extent samplePgm layoutB 1) (3, 8) ∧ ¬ Within (extent samplePgm layoutB 0) (3, 8) ∧
    ¬ Within (extent samplePgm layoutB 2) (3, 8) := by decide

private theorem default_macros : C01More.macroOf (default_ false).syn = C01More.isStdMacro :=
  funext C01More.std_macros

private theorem sample_ok : ∀ s ∈ samplePgm, okStmt (C01More.macroOf (default_ false).syn) s := by
  rw [default_macros]
  intro s hs
  simp only [samplePgm, samplePre, sampleBad, samplePost, List.cons_append, List.nil_append, List.mem_cons,
    List.not_mem_nil, or_false] at hs
  rcases hs with rfl | rfl | rfl
  · show coreStmt C01More.isStdMacro (.definition _) = true
    decide
  · show coreStmt C01More.isStdMacro (.expr _) = true
    decide
  · show coreStmt C01More.isStdMacro (.expr _) = true
    decide

private theorem sample_sup : ∀ s ∈ samplePgm, SupportedD (printStmt s) := by
  intro s hs
  simp only [samplePgm, samplePre, sampleBad, samplePost, List.cons_append, List.nil_append, List.mem_cons,
    List.not_mem_nil, or_false] at hs
  rcases hs with rfl | rfl | rfl
  · exact ⟨.inl (by decide), .inl (by decide), (by decide : fitsI32 1 = true), trivial⟩
  · exact ⟨(by decide : fitsI32 1 = true), trivial⟩
  · exact .inl (by decide)

/-- the definition `(define x 1)` succeeds in every state -/
private theorem sample_pre_ok (st : State) : ∃ v st₁, runStmts 2 st samplePre none = (.ok v, st₁) := by
  unfold samplePre runStmts evalAst
  by_cases h : st.importEnd = true <;>
    simp [h, evalExprOrDef, Eval.evalExpr, Eval.evalPrim, runStmts]

/-- the statement `(1)` fails in every state: the operator is not a procedure -/
private theorem sample_fail (st : State) : ∃ loc st₂,
    evalAst 2 st sampleBad = (.error (.nonProcedure, loc), st₂) := by
  unfold sampleBad evalAst
  by_cases h : st.importEnd = true <;>
    simp [h, evalExprOrDef, Eval.evalExpr, Eval.evalArgs, Eval.evalPrim, Eval.procArity]

/-! ## 1. the extents of the forms are ordered, disjoint, and inside the text -/

/-- EXTENTS ARE ORDERED.  For the text of the statements `sts` under ANY layout (valid or not: this is a
fact about the text alone): every form's extent starts at or after 1:1, is non-empty (`start < end`: a
form has at least one token, a token at least one character) and ends at or before the cursor after the
whole text — never beyond the end of the file; the extent of a form ends at or before the start of every
later form (consecutive forms: `end i ≤ start (i+1)`, with equality exactly when nothing separates
them); hence no position lies within the extents of two different forms. -/
theorem extents_ordered (sts : List Statement) (layout : List (List Char))
    (hsup : ∀ s ∈ sts, SupportedD (printStmt s)) :
    (∀ i, i < sts.length →
      posLe (1, 1) (extent sts layout i).1 ∧ posLt (extent sts layout i).1 (extent sts layout i).2 ∧
      posLe (extent sts layout i).2 (Text.advs (programText sts layout) (1, 1))) ∧
    (∀ i j, i < j → posLe (extent sts layout i).2 (extent sts layout j).1) ∧
    (∀ i j l, i < sts.length → j < sts.length →
      Within (extent sts layout i) l → Within (extent sts layout j) l → i = j) := by
  refine ⟨fun i hi => ⟨advs_le _ _, extent_start_lt_end sts layout i hi hsup, extent_end_le_text sts layout i⟩,
    fun i j h => extent_end_le_start sts layout h, ?_⟩
  intro i j l hi hj hwi hwj
  rcases Nat.lt_trichotomy i j with h | h | h
  · exact (posLt_irrefl_of_le hwj.1 (posLe_trans hwi.2 (extent_end_le_start sts layout h))).elim
  · exact h
  · exact (posLt_irrefl_of_le hwi.1 (posLe_trans hwj.2 (extent_end_le_start sts layout h))).elim

example : ∀ s ∈ samplePgm, SupportedD (printStmt s) := sample_sup

/-! ## 2. the reported position lies within the failing form -/

/-- where a position reported for the failure of form `i` may lie: within the extent of form `i`; or —
for the listed error kinds only — within the extent of an EARLIER form `j < i` (the identifier /
operator written in a procedure that form `j` defined); or the error arose while reading a library
source file (`C15.LibReadErr`: the position then refers to that file, the residue stated in C15). -/
def PositionOK (kinds : List Err) (sts : List Statement) (layout : List (List Char)) (i : Nat) (e : Err)
    (l : Pos) : Prop :=
  Within (extent sts layout i) l ∨
  (e ∈ kinds ∧ ∃ j, j < i ∧ Within (extent sts layout j) l) ∨
  C15.LibReadErr (e, some l)

/-- NEVER AFTER THE FAILING FORM, NEVER OUTSIDE THE TEXT: a position that is `PositionOK` for form `i`
stems from reading a library source, or lies at or before the end of the text of form `i` — so not within
a later form's extent, and not beyond the end of the file. -/
theorem positionOK_not_later (kinds : List Err) (sts : List Statement) (layout : List (List Char))
    (i : Nat) (e : Err) (l : Pos) (h : PositionOK kinds sts layout i e l) :
    C15.LibReadErr (e, some l) ∨
    (posLe l (extent sts layout i).2 ∧ posLe l (Text.advs (programText sts layout) (1, 1)) ∧
      ∀ j, i < j → ¬ Within (extent sts layout j) l) := by
  rcases h with h | ⟨-, j, hj, h⟩ | h
  · right
    exact ⟨h.2, posLe_trans h.2 (extent_end_le_text sts layout i), fun j hj hw =>
      posLt_irrefl_of_le hw.1 (posLe_trans h.2 (extent_end_le_start sts layout hj))⟩
  · right
    have key : posLe l (extent sts layout i).2 := by
      refine posLe_trans h.2 ?_
      unfold extent
      simp only
      exact advs_prefix_le (textThrough_mono (programToks_take_prefix sts (by omega : j + 1 ≤ i + 1)) layout) _
    exact ⟨key, posLe_trans key (extent_end_le_text sts layout i), fun j hj hw =>
      posLt_irrefl_of_le hw.1 (posLe_trans key (extent_end_le_start sts layout hj))⟩
  · exact Or.inl h

example : PositionOK [.unbound, .nonProcedure] samplePgm layoutA 1 .nonProcedure (2, 3) := Or.inl (by decide)

/-- THE FULL STATEMENT of (2): as `error_position_within_failing_form_partial` below, with the second
alternative restricted to the kinds unbound variable and non-procedure.  PROVED:
`error_position_within_failing_form` below. -/
def error_position_within_failing_form_full : Prop :=
  ∀ (fuel : Nat) (st st₁ st₂ : State) (pre post : List Statement) (s : Statement)
    (v : Option Value) (e : Err) (loc : Loc) (layout : List (List Char)),
    locs st = [] →
    (∀ s' ∈ pre ++ s :: post, okStmt (C01More.macroOf st.syn) s') →
    (∀ s' ∈ pre ++ s :: post, SupportedD (printStmt s')) →
    ValidLayout (programToks (pre ++ s :: post)) layout →
    runStmts fuel st pre none = (.ok v, st₁) → evalAst fuel st₁ s = (.error (e, loc), st₂) →
    ∃ l st₂', evalText fuel st (programText (pre ++ s :: post) layout) = (.error (e, some l), st₂') ∧
      st₂'.unloc = st₂.unloc ∧
      PositionOK [.unbound, .nonProcedure] (pre ++ s :: post) layout pre.length e l

/-- THE REPORTED POSITION LIES WITHIN THE FAILING FORM.  Let `pre ++ s :: post` be program statements
(core expressions and definitions, import declarations: `okStmt`, w.r.t. the macro keywords of the
interpreter's syntax environment) whose literals the lexer can spell, written as a text under ANY valid
layout, and run by `Interpreter::eval` from a state `st` that holds no source position (`default()`,
`new_with_stdlib()`: `C15.default_state_unlocated`).  If the statements `pre` succeed (leaving `st₁`) and
`s` — form number `i = |pre|` — is the first that fails, with an error of kind `e`, then the run of the
TEXT ends in an error of that kind `e` which CARRIES a position `l` (a line and a column), in the state
`s` left (up to the positions stored in closures), and
 * EITHER `l` lies within the extent of form `i` — after the start of its first token, at or before the
   cursor after its last token;
 * OR the kind is unbound variable / non-procedure / cyclic import / missing library and `l` lies within
   the extent of an EARLIER form `j < i`;
 * or the error arose while reading a library source file (C15's residue).
In particular (`positionOK_not_later`) never after form `i`, never in a later form, never beyond the end
of the text.

PARTIAL w.r.t. `error_position_within_failing_form_full`: the kinds cyclic import / missing library are
not excluded from the second alternative.  (They cannot occur there — the state never stores the position
of a library name: `LibNamePos.evalAst_noLib`.)  SUPERSEDED by `error_position_within_failing_form` below,
which proves the full statement; kept because `layout_moves_positions_only` is stated with this list of
kinds. -/
theorem error_position_within_failing_form_partial (fuel : Nat) (st st₁ st₂ : State)
    (pre post : List Statement) (s : Statement) (v : Option Value) (e : Err) (loc : Loc)
    (layout : List (List Char))
    (hst : locs st = [])
    (hok : ∀ s' ∈ pre ++ s :: post, okStmt (C01More.macroOf st.syn) s')
    (hsup : ∀ s' ∈ pre ++ s :: post, SupportedD (printStmt s'))
    (hl : ValidLayout (programToks (pre ++ s :: post)) layout)
    (hpre : runStmts fuel st pre none = (.ok v, st₁)) (hfail : evalAst fuel st₁ s = (.error (e, loc), st₂)) :
    ∃ l st₂', evalText fuel st (programText (pre ++ s :: post) layout) = (.error (e, some l), st₂') ∧
      st₂'.unloc = st₂.unloc ∧
      PositionOK [.unbound, .nonProcedure, .cyclic, .libNotFound] (pre ++ s :: post) layout pre.length e l := by
  obtain ⟨l, st₂', h1, h2, h3⟩ := text_fails_located fuel st st₁ st₂ pre post s v e loc layout hst hok hsup hl hpre hfail
  refine ⟨l, st₂', h1, h2, ?_⟩
  rcases h3 with h | ⟨hk, h⟩ | h
  · exact Or.inl h
  · refine Or.inr (Or.inl ⟨?_, h⟩)
    rcases hk with rfl | rfl | rfl | rfl <;> simp
  · exact Or.inr (Or.inr h)

/-- the hypotheses hold for the sample program `(define x 1) (1) x` in `Interpreter::default()`, under
both layouts, with the fault in the SECOND form -/
example : locs (default_ false) = [] ∧
    (∀ s' ∈ samplePre ++ sampleBad :: samplePost, okStmt (C01More.macroOf (default_ false).syn) s') ∧
    (∀ s' ∈ samplePre ++ sampleBad :: samplePost, SupportedD (printStmt s')) ∧
    ValidLayout (programToks (samplePre ++ sampleBad :: samplePost)) layoutA ∧
    ValidLayout (programToks (samplePre ++ sampleBad :: samplePost)) layoutB ∧
    ∃ v st₁ loc st₂, runStmts 2 (default_ false) samplePre none = (.ok v, st₁) ∧
      evalAst 2 st₁ sampleBad = (.error (.nonProcedure, loc), st₂) := by
  obtain ⟨v, st₁, h1⟩ := sample_pre_ok (default_ false)
  obtain ⟨loc, st₂, h2⟩ := sample_fail st₁
  exact ⟨(C15.default_state_unlocated false 0).1, sample_ok, sample_sup, sample_layoutA, sample_layoutB,
    v, st₁, loc, st₂, h1, h2⟩

/-- … so the text `(define x 1)⏎(1)⏎x⏎` run in `Interpreter::default()` reports a non-procedure error at
a position within 2:1–2:4, the extent of `(1)` (the other alternatives are empty: not reading a library,
and no position of line 1 is the operator of a call) -/
example : ∃ l st', evalText 2 (default_ false) "(define x 1)\n(1)\nx\n".toList = (.error (.nonProcedure, some l), st') ∧
    PositionOK [.unbound, .nonProcedure, .cyclic, .libNotFound] samplePgm layoutA 1 .nonProcedure l := by
  obtain ⟨v, st₁, h1⟩ := sample_pre_ok (default_ false)
  obtain ⟨loc, st₂, h2⟩ := sample_fail st₁
  obtain ⟨l, st', k1, -, k3⟩ := error_position_within_failing_form_partial 2 (default_ false) st₁ st₂ samplePre samplePost
    sampleBad v .nonProcedure loc layoutA (C15.default_state_unlocated false 0).1 sample_ok sample_sup
    sample_layoutA h1 h2
  rw [show samplePre ++ sampleBad :: samplePost = samplePgm from rfl, sample_textA] at k1
  exact ⟨l, st', k1, k3⟩

/-- … AT FULL STRENGTH WHEN THE FAILING STATEMENT IS AN EXPRESSION OR A DEFINITION (every run-time fault
other than a failing import).  Same hypotheses, `s` an expression or a definition: the position `l`
reported for the text lies within the extent of form `i = |pre|`, OR the kind is UNBOUND VARIABLE or
NON-PROCEDURE and `l` lies within the extent of an EARLIER form `j < i` — or the error arose while reading
a library source.  Every other kind of fault (type, arity, division by zero, index, …) is reported inside
the form that failed. -/
theorem error_position_within_failing_form_expr (fuel : Nat) (st st₁ st₂ : State)
    (pre post : List Statement) (s : Statement) (v : Option Value) (e : Err) (loc : Loc)
    (layout : List (List Char))
    (hst : locs st = []) (hs : CoreShape s)
    (hok : ∀ s' ∈ pre ++ s :: post, okStmt (C01More.macroOf st.syn) s')
    (hsup : ∀ s' ∈ pre ++ s :: post, SupportedD (printStmt s'))
    (hl : ValidLayout (programToks (pre ++ s :: post)) layout)
    (hpre : runStmts fuel st pre none = (.ok v, st₁)) (hfail : evalAst fuel st₁ s = (.error (e, loc), st₂)) :
    ∃ l st₂', evalText fuel st (programText (pre ++ s :: post) layout) = (.error (e, some l), st₂') ∧
      st₂'.unloc = st₂.unloc ∧
      PositionOK [.unbound, .nonProcedure] (pre ++ s :: post) layout pre.length e l := by
  obtain ⟨d, s', st₁', l, st₂', g1, g2, g3, g4, g5, g6, g7, g8, g9, -⟩ :=
    text_fails_at fuel st st₁ st₂ pre post s v e loc layout hst hok hsup hl hpre hfail
  have htoks := programToks_supported _ hsup
  rw [programToks_append, programToks_cons] at htoks
  have hin : ∀ q ∈ locs d, Within (extent (pre ++ s :: post) layout pre.length) q := fun q hq =>
    formTokLocs_within pre post s layout
      (fun t ht => htoks t (List.mem_append_right _ (List.mem_append_left _ ht))) q (g8 q hq)
  refine ⟨l, st₂', g1, g2, ?_⟩
  rcases evalAst_core_kind (coreShape_of_unloc g4 hs) g7 with hloc | hk
  · exact Or.inl (hin l ((C15.xform_stmt_loc g3).1 l hloc))
  · rcases fail_position_cases (T := locs st₁') g3 (fun q hq => hq) g7 with h | ⟨-, h⟩ | h
    · exact Or.inl (hin l h)
    · refine Or.inr (Or.inl ⟨by rcases hk with rfl | rfl <;> simp, ?_⟩)
      obtain ⟨j, hj, hw⟩ := locate_in_some_extent layout pre
        (fun t ht => htoks t (List.mem_append_left _ ht)) l (g9 l h)
      exact ⟨j, hj, by rw [extent_prefix pre (s :: post) layout j hj]; exact hw⟩
    · exact Or.inr (Or.inr h)

example : CoreShape sampleBad := trivial

/-- for the sample: the non-procedure error of `(define x 1)⏎(1)⏎x⏎` is reported within 2:1–2:4 or — as
far as this theorem goes — at a token of line 1 -/
example : ∃ l st', evalText 2 (default_ false) "(define x 1)\n(1)\nx\n".toList = (.error (.nonProcedure, some l), st') ∧
    PositionOK [.unbound, .nonProcedure] samplePgm layoutA 1 .nonProcedure l := by
  obtain ⟨v, st₁, h1⟩ := sample_pre_ok (default_ false)
  obtain ⟨loc, st₂, h2⟩ := sample_fail st₁
  obtain ⟨l, st', k1, -, k3⟩ := error_position_within_failing_form_expr 2 (default_ false) st₁ st₂ samplePre samplePost
    sampleBad v .nonProcedure loc layoutA (C15.default_state_unlocated false 0).1 trivial sample_ok sample_sup
    sample_layoutA h1 h2
  rw [show samplePre ++ sampleBad :: samplePost = samplePgm from rfl, sample_textA] at k1
  exact ⟨l, st', k1, k3⟩

/-- THE REPORTED POSITION LIES WITHIN THE FAILING FORM — THE FULL STATEMENT, for every program statement
(expression, definition, IMPORT DECLARATION).  Let `pre ++ s :: post` be program statements (`okStmt`) whose
literals the lexer can spell, written as a text under ANY valid layout and run by `Interpreter::eval` from a
state `st` that holds no source position.  If the statements `pre` succeed (leaving `st₁`) and `s` — form
number `i = |pre|` — is the first that fails, with an error of kind `e`, then the run of the TEXT ends in an
error of that kind `e` which CARRIES a position `l`, in the state `s` left (up to the positions stored in
closures), and
 * EITHER `l` lies within the extent of form `i`;
 * OR the kind is UNBOUND VARIABLE or NON-PROCEDURE and `l` lies within the extent of an EARLIER form `j < i`
   (the identifier / operator written in a procedure that form `j` defined);
 * or the error arose while reading a library source file (C15's residue).
In particular a CYCLIC IMPORT or a MISSING LIBRARY is reported inside the import declaration that failed —
at the library name, by `C15.error_kind_and_position` —, never at a library name of an earlier
declaration: the state never holds a position in the role of a library name
(`LibNamePos.evalAst_noLib`: what an import declaration leaves in the state does not depend on the positions
written in its import sets). -/
theorem error_position_within_failing_form : error_position_within_failing_form_full := by
  intro fuel st st₁ st₂ pre post s v e loc layout hst hok hsup hl hpre hfail
  obtain ⟨d, s', st₁', l, st₂', g1, g2, g3, g4, g5, g6, g7, g8, g9, g10⟩ :=
    text_fails_at fuel st st₁ st₂ pre post s v e loc layout hst hok hsup hl hpre hfail
  have htoks := programToks_supported _ hsup
  rw [programToks_append, programToks_cons] at htoks
  have hin : ∀ q ∈ locs d, Within (extent (pre ++ s :: post) layout pre.length) q := fun q hq =>
    formTokLocs_within pre post s layout
      (fun t ht => htoks t (List.mem_append_right _ (List.mem_append_left _ ht))) q (g8 q hq)
  refine ⟨l, st₂', g1, g2, ?_⟩
  -- an unbound variable / a non-procedure: in the form, or in an earlier form, or from a library source
  have outside : e = .unbound ∨ e = .nonProcedure →
      PositionOK [.unbound, .nonProcedure] (pre ++ s :: post) layout pre.length e l := by
    intro hk
    rcases fail_position_cases (T := locs st₁') g3 (fun q hq => hq) g7 with h | ⟨-, h⟩ | h
    · exact Or.inl (hin l h)
    · refine Or.inr (Or.inl ⟨by rcases hk with rfl | rfl <;> simp, ?_⟩)
      obtain ⟨j, hj, hw⟩ := locate_in_some_extent layout pre
        (fun t ht => htoks t (List.mem_append_left _ ht)) l (g9 l h)
      exact ⟨j, hj, by rw [extent_prefix pre (s :: post) layout j hj]; exact hw⟩
    · exact Or.inr (Or.inr h)
  rcases C15.error_kind_and_position g7 with hloc | ⟨l', hl', hk⟩
  · -- the statement's own position
    exact Or.inl (hin l ((C15.xform_stmt_loc g3).1 l hloc.symm))
  · cases hl'
    rcases hk with ⟨hk, -⟩ | ⟨hk, -⟩ | ⟨-, hm⟩ | hk
    · exact outside (Or.inl hk)
    · exact outside (Or.inr hk)
    · -- cyclic import / missing library: a library name; the state holds none, so one of the form
      rcases List.mem_append.1 hm with hm | hm
      · exact absurd rfl (g10 _ hm)
      · exact Or.inl (hin l (C15.xform_locs g3 l (mem_unrole.2 ⟨_, hm⟩)))
    · exact Or.inr (Or.inr hk)

/-- for the sample (hypotheses: the `example` after `error_position_within_failing_form_partial`): the
non-procedure error of `(define x 1)⏎(1)⏎x⏎` is reported within 2:1–2:4 or — as far as this theorem goes —
at a token of line 1 -/
example : ∃ l st', evalText 2 (default_ false) "(define x 1)\n(1)\nx\n".toList = (.error (.nonProcedure, some l), st') ∧
    PositionOK [.unbound, .nonProcedure] samplePgm layoutA 1 .nonProcedure l := by
  obtain ⟨v, st₁, h1⟩ := sample_pre_ok (default_ false)
  obtain ⟨loc, st₂, h2⟩ := sample_fail st₁
  obtain ⟨l, st', k1, -, k3⟩ := error_position_within_failing_form 2 (default_ false) st₁ st₂ samplePre samplePost
    sampleBad v .nonProcedure loc layoutA (C15.default_state_unlocated false 0).1 sample_ok sample_sup
    sample_layoutA h1 h2
  rw [show samplePre ++ sampleBad :: samplePost = samplePgm from rfl, sample_textA] at k1
  exact ⟨l, st', k1, k3⟩

/-! sample program with a failing IMPORT: `(import (nolib))  x` -/

private def sampleImp : Statement := .importDecl [.direct [.ident "nolib"] none] none
private def impPost : List Statement := [.expr (.sym "x" none)]
private def layoutImp : List (List Char) := [[], [], [' '], [], [], [], ['\n'], ['\n']]

private theorem default_fields : (default_ false).importEnd = false ∧ (default_ false).inProgress = [] ∧
    (default_ false).instances = [] ∧ (default_ false).files = [] := by
  unfold default_
  generalize Gen.baseLibText = b
  generalize Gen.writeLibText = w
  exact ⟨rfl, rfl, rfl, rfl⟩

private theorem default_no_nolib : libLookup (default_ false).factories [.ident "nolib"] = none := by
  unfold default_
  generalize Gen.baseLibText = b
  generalize Gen.writeLibText = w
  simp only []
  cases factoryOfText libSchemeBase b <;> cases factoryOfText libSchemeWrite w <;>
    simp [libLookup, libRuschmBase, libRuschmWrite, libSchemeBase, libSchemeWrite]

/-- importing a library that is neither registered nor on file fails: missing library -/
private theorem sampleImp_fails (st : State) (h1 : st.importEnd = false) (h2 : st.inProgress = [])
    (h3 : st.instances = []) (h4 : st.files = []) (h5 : libLookup st.factories [.ident "nolib"] = none) :
    ∃ st₂, evalAst 4 st sampleImp = (.error (.libNotFound, none), st₂) := by
  have key : (evalAst 4 st sampleImp).1 = .error (.libNotFound, none) := by
    unfold sampleImp evalAst evalImport evalImportSets evalImportSet getLibrary
    simp only [h1, h2, h3, h4, h5, libLookup, List.lookup, Bool.not_false, if_true, List.contains_nil,
      Bool.false_eq_true, if_false]
    rfl
  generalize evalAst 4 st sampleImp = x at key
  obtain ⟨r, st₂⟩ := x
  exact ⟨st₂, by simp only at key; rw [key]⟩

private theorem sampleImp_ok :
    ∀ s' ∈ [] ++ sampleImp :: impPost, okStmt (C01More.macroOf (default_ false).syn) s' := by
  rw [default_macros]
  intro s hs
  simp only [sampleImp, impPost, List.nil_append, List.mem_cons, List.not_mem_nil, or_false] at hs
  rcases hs with rfl | rfl
  · intro t ht
    simp only [List.mem_cons, List.not_mem_nil, or_false] at ht
    subst ht
    exact ⟨_, _, rfl, by decide⟩
  · show coreStmt C01More.isStdMacro (.expr _) = true
    decide

private theorem sampleImp_sup : ∀ s' ∈ [] ++ sampleImp :: impPost, SupportedD (printStmt s') := by
  intro s hs
  simp only [sampleImp, impPost, List.nil_append, List.mem_cons, List.not_mem_nil, or_false] at hs
  rcases hs with rfl | rfl
  · exact ⟨.inl (by decide), ⟨.inl (by decide), trivial⟩, trivial⟩
  · exact .inl (by decide)

/-- the hypotheses of `error_position_within_failing_form` hold for `(import (nolib))⏎x⏎` in
`Interpreter::default()`, the failing statement being the IMPORT DECLARATION (form 0, extent 1:1–1:17) … -/
example : programText ([] ++ sampleImp :: impPost) layoutImp = "(import (nolib))\nx\n".toList ∧
    extent ([] ++ sampleImp :: impPost) layoutImp 0 = ((1, 1), (1, 17)) ∧
    locs (default_ false) = [] ∧
    (∀ s' ∈ [] ++ sampleImp :: impPost, okStmt (C01More.macroOf (default_ false).syn) s') ∧
    (∀ s' ∈ [] ++ sampleImp :: impPost, SupportedD (printStmt s')) ∧
    ValidLayout (programToks ([] ++ sampleImp :: impPost)) layoutImp ∧
    runStmts 4 (default_ false) [] none = (.ok none, default_ false) ∧
    ∃ st₂, evalAst 4 (default_ false) sampleImp = (.error (.libNotFound, none), st₂) :=
  ⟨by decide, by decide, (C15.default_state_unlocated false 0).1, sampleImp_ok, sampleImp_sup, by decide, rfl,
    sampleImp_fails _ default_fields.1 default_fields.2.1 default_fields.2.2.1 default_fields.2.2.2 default_no_nolib⟩

/-- … so the missing library is reported at a position WITHIN THE IMPORT DECLARATION, 1:1–1:17: there is no
earlier form, and a missing-library error is not an error from reading a library source unless a library
source was read (the third alternative, C15's residue) -/
example : ∃ l st', evalText 4 (default_ false) "(import (nolib))\nx\n".toList = (.error (.libNotFound, some l), st') ∧
    (Within ((1, 1), (1, 17)) l ∨ C15.LibReadErr (.libNotFound, some l)) := by
  obtain ⟨st₂, h2⟩ := sampleImp_fails _ default_fields.1 default_fields.2.1 default_fields.2.2.1
    default_fields.2.2.2 default_no_nolib
  obtain ⟨l, st', k1, -, k3⟩ := error_position_within_failing_form 4 (default_ false) (default_ false) st₂ []
    impPost sampleImp none .libNotFound none layoutImp (C15.default_state_unlocated false 0).1 sampleImp_ok
    sampleImp_sup (by decide) rfl h2
  rw [show programText ([] ++ sampleImp :: impPost) layoutImp = "(import (nolib))\nx\n".toList by decide] at k1
  refine ⟨l, st', k1, ?_⟩
  rcases k3 with h | ⟨-, j, hj, -⟩ | h
  · rw [show extent ([] ++ sampleImp :: impPost) layoutImp ([] : List Statement).length = ((1, 1), (1, 17)) by decide] at h
    exact Or.inl h
  · exact absurd hj (by simp)
  · exact Or.inr h

/-! ## 3. an unbound identifier is reported exactly at the identifier -/

/-- AN UNBOUND VARIABLE IS REPORTED AT THE IDENTIFIER ITSELF.  Let form `i = |pre|` of the program be a
bare identifier `x` — the unbound variable is an identifier of form `i` itself, not reached through a
procedure defined earlier —, unbound in the state `st₁` the statements `pre` leave.  Then
`Interpreter::eval` on the text, under any valid layout, reports the unbound-variable error EXACTLY at the
end of the extent of form `i`, and that is exactly the cursor after the identifier's token: the start of
the extent advanced over the characters of `x` (`Text.renderTok (.ident x)`). -/
theorem error_position_is_the_identifier (fuel : Nat) (st st₁ : State) (pre post : List Statement)
    (x : String) (loc₀ : Loc) (v : Option Value) (layout : List (List Char))
    (hst : locs st = [])
    (hok : ∀ s' ∈ pre ++ .expr (.sym x loc₀) :: post, okStmt (C01More.macroOf st.syn) s')
    (hsup : ∀ s' ∈ pre ++ .expr (.sym x loc₀) :: post, SupportedD (printStmt s'))
    (hl : ValidLayout (programToks (pre ++ .expr (.sym x loc₀) :: post)) layout)
    (hpre : runStmts (fuel + 1) st pre none = (.ok v, st₁)) (hx : st₁.store.lookup st₁.env x = none) :
    (∃ st', evalText (fuel + 1) st (programText (pre ++ .expr (.sym x loc₀) :: post) layout) =
      (.error (.unbound, some (extent (pre ++ .expr (.sym x loc₀) :: post) layout pre.length).2), st')) ∧
    (extent (pre ++ .expr (.sym x loc₀) :: post) layout pre.length).2 =
      Text.advs (renderTok (.ident x)) (extent (pre ++ .expr (.sym x loc₀) :: post) layout pre.length).1 := by
  have hext : (extent (pre ++ .expr (.sym x loc₀) :: post) layout pre.length).2 =
      Text.advs (renderTok (.ident x)) (extent (pre ++ .expr (.sym x loc₀) :: post) layout pre.length).1 := by
    rw [extent_at]
    simp only [stmtToks_sym, textThrough, List.append_nil, advs_append]
  refine ⟨?_, hext⟩
  obtain ⟨st₂, hfail⟩ := evalAst_unbound_sym fuel st₁ x loc₀ hx
  obtain ⟨d, s', st₁', l, st₂', g1, g2, g3, g4, g5, g6, g7, g8, g9, -⟩ :=
    text_fails_at (fuel + 1) st st₁ st₂ pre post (.expr (.sym x loc₀)) v .unbound loc₀ layout hst hok hsup hl hpre hfail
  refine ⟨st₂', ?_⟩
  rw [g1]
  -- the statement made from the datum is the identifier, with some position
  obtain ⟨loc', rfl⟩ : ∃ loc', s' = .expr (.sym x loc') := by
    cases s' with
    | expr ex =>
      cases ex <;> simp [Statement.unloc, Expr.unloc] at g4
      exact ⟨_, by rw [g4]⟩
    | definition _ => simp [Statement.unloc] at g4
    | importDecl _ _ => simp [Statement.unloc] at g4
    | syntaxDef _ _ _ => simp [Statement.unloc] at g4
    | libraryDef _ _ _ => simp [Statement.unloc] at g4
  obtain ⟨st₃, hev⟩ := evalAst_unbound_sym fuel st₁' x loc' (lookup_none_of_unloc g6 hx)
  rw [hev] at g7
  simp only [Prod.mk.injEq, Except.error.injEq, true_and] at g7
  obtain ⟨hloc, -⟩ := g7
  subst hloc
  -- its position is a position of the datum, i.e. of the one token of the form
  have hmem : l ∈ locs d := C15.xform_locs g3 l (by
    show l ∈ unrole (Statement.rlocs (.expr (.sym x (some l))))
    simp [Statement.rlocs, Expr.rlocs, Loc.as, unrole])
  have := g8 l hmem
  simp only [formTokLocs, stmtToks_sym, locate, tokLocs, List.flatMap_cons, List.flatMap_nil,
    Option.toList_some, List.append_nil, List.mem_singleton] at this
  rw [this, hext, extent_at]

/-- `(define x 1)  y  x` under layout A: the hypotheses hold in `Interpreter::default()`; the unbound `y`
of line 2 is reported at 2:2, the cursor after `y` -/
private def sampleSym : List Statement := samplePre ++ .expr (.sym "y" none) :: samplePost
private def layoutSym : List (List Char) := [[], [], [' '], [' '], [], ['\n'], ['\n'], ['\n']]

example : programText sampleSym layoutSym = "(define x 1)\ny\nx\n".toList ∧
    ValidLayout (programToks sampleSym) layoutSym ∧ extent sampleSym layoutSym 1 = ((2, 1), (2, 2)) := by decide

/-- `y` is unbound after `(define x 1)` in an interpreter whose store is the fresh root frame -/
example : ∃ v st₁, runStmts 2 (default_ false) samplePre none = (.ok v, st₁) ∧
    st₁.store.lookup st₁.env "y" = none := by
  have hd : (default_ false).importEnd = false ∧ (default_ false).env = 0 ∧
      (default_ false).store.frames = #[{ parent := none, defs := [] }] := by
    unfold default_
    generalize Gen.baseLibText = b
    generalize Gen.writeLibText = w
    exact ⟨rfl, rfl, rfl⟩
  obtain ⟨h1, h2, h3⟩ := hd
  obtain ⟨v, st₁, h⟩ := sample_pre_ok (default_ false)
  refine ⟨v, st₁, h, ?_⟩
  have : st₁ = (runStmts 2 (default_ false) samplePre none).2 := by rw [h]
  rw [this]
  simp [samplePre, runStmts, evalAst, h1, evalExprOrDef, Eval.evalExpr, Eval.evalPrim, Store.lookup,
    Store.lookupAux, Store.define, Store.defsInsert, List.lookup, h2, h3]

/-- … so `Interpreter::default()` on the text `(define x 1)⏎y⏎x⏎` reports the unbound variable at 2:2 -/
example : ∃ st', evalText 2 (default_ false) "(define x 1)\ny\nx\n".toList = (.error (.unbound, some (2, 2)), st') := by
  have hd : (default_ false).importEnd = false ∧ (default_ false).env = 0 ∧
      (default_ false).store.frames = #[{ parent := none, defs := [] }] := by
    unfold default_
    generalize Gen.baseLibText = b
    generalize Gen.writeLibText = w
    exact ⟨rfl, rfl, rfl⟩
  obtain ⟨h1, h2, h3⟩ := hd
  obtain ⟨v, st₁, h⟩ := sample_pre_ok (default_ false)
  have hy : st₁.store.lookup st₁.env "y" = none := by
    have : st₁ = (runStmts 2 (default_ false) samplePre none).2 := by rw [h]
    rw [this]
    simp [samplePre, runStmts, evalAst, h1, evalExprOrDef, Eval.evalExpr, Eval.evalPrim, Store.lookup,
      Store.lookupAux, Store.define, Store.defsInsert, List.lookup, h2, h3]
  have hok : ∀ s' ∈ samplePre ++ .expr (.sym "y" none) :: samplePost, okStmt (C01More.macroOf (default_ false).syn) s' := by
    rw [default_macros]
    intro s hs
    simp only [samplePre, samplePost, List.cons_append, List.nil_append, List.mem_cons,
      List.not_mem_nil, or_false] at hs
    rcases hs with rfl | rfl | rfl
    · show coreStmt C01More.isStdMacro (.definition _) = true
      decide
    · show coreStmt C01More.isStdMacro (.expr _) = true
      decide
    · show coreStmt C01More.isStdMacro (.expr _) = true
      decide
  have hsup : ∀ s' ∈ samplePre ++ .expr (.sym "y" none) :: samplePost, SupportedD (printStmt s') := by
    intro s hs
    simp only [samplePre, samplePost, List.cons_append, List.nil_append, List.mem_cons,
      List.not_mem_nil, or_false] at hs
    rcases hs with rfl | rfl | rfl
    · exact ⟨.inl (by decide), .inl (by decide), (by decide : fitsI32 1 = true), trivial⟩
    · exact .inl (by decide)
    · exact .inl (by decide)
  obtain ⟨⟨st', k⟩, -⟩ := error_position_is_the_identifier 1 (default_ false) st₁ samplePre samplePost "y" none v
    layoutSym (C15.default_state_unlocated false 0).1 hok hsup (by decide) h hy
  have e1 : programText (samplePre ++ .expr (.sym "y" none) :: samplePost) layoutSym = "(define x 1)\ny\nx\n".toList := by
    decide
  have e2 : extent (samplePre ++ .expr (.sym "y" none) :: samplePost) layoutSym samplePre.length = ((2, 1), (2, 2)) := by
    decide
  rw [e1, e2] at k
  exact ⟨st', k⟩

/-! ## 4. the layout moves the positions, and nothing else -/

/-- THE LAYOUT MOVES POSITIONS ONLY.  Two valid layouts of the same program statements — other line
breaks, indentation, comments — run from a state without positions: when the statements `pre` succeed and
`s`, form number `i = |pre|`, fails with kind `e`, BOTH texts end in an error of the SAME KIND `e`, for the
SAME FORM `i`, in states equal up to the positions stored in closures; each reports a position, and each
position is `PositionOK` for form `i` w.r.t. the extents of ITS OWN text: the two positions differ
exactly as the two layouts place the forms. -/
theorem layout_moves_positions_only (fuel : Nat) (st st₁ st₂ : State) (pre post : List Statement)
    (s : Statement) (v : Option Value) (e : Err) (loc : Loc) (l₁ l₂ : List (List Char))
    (hst : locs st = [])
    (hok : ∀ s' ∈ pre ++ s :: post, okStmt (C01More.macroOf st.syn) s')
    (hsup : ∀ s' ∈ pre ++ s :: post, SupportedD (printStmt s'))
    (h₁ : ValidLayout (programToks (pre ++ s :: post)) l₁) (h₂ : ValidLayout (programToks (pre ++ s :: post)) l₂)
    (hpre : runStmts fuel st pre none = (.ok v, st₁)) (hfail : evalAst fuel st₁ s = (.error (e, loc), st₂)) :
    ∃ p₁ p₂ st₁' st₂',
      evalText fuel st (programText (pre ++ s :: post) l₁) = (.error (e, some p₁), st₁') ∧
      evalText fuel st (programText (pre ++ s :: post) l₂) = (.error (e, some p₂), st₂') ∧
      st₁'.unloc = st₂'.unloc ∧
      PositionOK [.unbound, .nonProcedure, .cyclic, .libNotFound] (pre ++ s :: post) l₁ pre.length e p₁ ∧
      PositionOK [.unbound, .nonProcedure, .cyclic, .libNotFound] (pre ++ s :: post) l₂ pre.length e p₂ ∧
      (CoreShape s →
        PositionOK [.unbound, .nonProcedure] (pre ++ s :: post) l₁ pre.length e p₁ ∧
        PositionOK [.unbound, .nonProcedure] (pre ++ s :: post) l₂ pre.length e p₂) := by
  obtain ⟨p₁, st₁', a1, a2, a3⟩ :=
    error_position_within_failing_form_partial fuel st st₁ st₂ pre post s v e loc l₁ hst hok hsup h₁ hpre hfail
  obtain ⟨p₂, st₂', b1, b2, b3⟩ :=
    error_position_within_failing_form_partial fuel st st₁ st₂ pre post s v e loc l₂ hst hok hsup h₂ hpre hfail
  refine ⟨p₁, p₂, st₁', st₂', a1, b1, a2.trans b2.symm, a3, b3, fun hs => ?_⟩
  obtain ⟨p₁', st₁'', c1, -, c3⟩ :=
    error_position_within_failing_form_expr fuel st st₁ st₂ pre post s v e loc l₁ hst hs hok hsup h₁ hpre hfail
  obtain ⟨p₂', st₂'', d1, -, d3⟩ :=
    error_position_within_failing_form_expr fuel st st₁ st₂ pre post s v e loc l₂ hst hs hok hsup h₂ hpre hfail
  rw [a1] at c1
  rw [b1] at d1
  simp only [Prod.mk.injEq, Except.error.injEq, Option.some.injEq, true_and] at c1 d1
  obtain ⟨rfl, -⟩ := c1
  obtain ⟨rfl, -⟩ := d1
  exact ⟨c3, d3⟩

/-- the sample program under its two layouts: hypotheses as for (2) -/
example : ValidLayout (programToks (samplePre ++ sampleBad :: samplePost)) layoutA ∧
    ValidLayout (programToks (samplePre ++ sampleBad :: samplePost)) layoutB ∧
    programText (samplePre ++ sampleBad :: samplePost) layoutA ≠ programText (samplePre ++ sampleBad :: samplePost) layoutB :=
  ⟨sample_layoutA, sample_layoutB, by decide⟩

/-- … so both `(define x 1)⏎(1)⏎x⏎` and `;c⏎( define x⏎1 )  (1) x` report a non-procedure error, the first
within 2:1–2:4 and the second within 3:6–3:9 (or, as far as the theorem goes, at a token of the definition) -/
example : ∃ p₁ p₂ st₁' st₂',
    evalText 2 (default_ false) "(define x 1)\n(1)\nx\n".toList = (.error (.nonProcedure, some p₁), st₁') ∧
    evalText 2 (default_ false) ";c\n( define x\n1 )  (1) x".toList = (.error (.nonProcedure, some p₂), st₂') ∧
    PositionOK [.unbound, .nonProcedure] samplePgm layoutA 1 .nonProcedure p₁ ∧
    PositionOK [.unbound, .nonProcedure] samplePgm layoutB 1 .nonProcedure p₂ := by
  obtain ⟨v, st₁, h1⟩ := sample_pre_ok (default_ false)
  obtain ⟨loc, st₂, h2⟩ := sample_fail st₁
  obtain ⟨p₁, p₂, st₁', st₂', k1, k2, -, -, -, k6⟩ := layout_moves_positions_only 2 (default_ false) st₁ st₂ samplePre samplePost
    sampleBad v .nonProcedure loc layoutA layoutB (C15.default_state_unlocated false 0).1 sample_ok sample_sup
    sample_layoutA sample_layoutB h1 h2
  rw [show samplePre ++ sampleBad :: samplePost = samplePgm from rfl] at k1 k2
  rw [sample_textA] at k1
  rw [sample_textB] at k2
  exact ⟨p₁, p₂, st₁', st₂', k1, k2, (k6 trivial).1, (k6 trivial).2⟩

/-- THE LAYOUT MOVES POSITIONS ONLY, with the full classification (`error_position_within_failing_form`) for
EVERY failing statement, import declarations included: under two valid layouts of the same statements both
texts fail with the same kind `e` for the same form `i = |pre|`, in states equal up to stored positions, and
each reported position lies within form `i` of ITS OWN text — or, for an unbound variable / a non-procedure
only, within an earlier form of its own text; or the error arose while reading a library source. -/
theorem layout_moves_positions_only_full (fuel : Nat) (st st₁ st₂ : State) (pre post : List Statement)
    (s : Statement) (v : Option Value) (e : Err) (loc : Loc) (l₁ l₂ : List (List Char))
    (hst : locs st = [])
    (hok : ∀ s' ∈ pre ++ s :: post, okStmt (C01More.macroOf st.syn) s')
    (hsup : ∀ s' ∈ pre ++ s :: post, SupportedD (printStmt s'))
    (h₁ : ValidLayout (programToks (pre ++ s :: post)) l₁) (h₂ : ValidLayout (programToks (pre ++ s :: post)) l₂)
    (hpre : runStmts fuel st pre none = (.ok v, st₁)) (hfail : evalAst fuel st₁ s = (.error (e, loc), st₂)) :
    ∃ p₁ p₂ st₁' st₂',
      evalText fuel st (programText (pre ++ s :: post) l₁) = (.error (e, some p₁), st₁') ∧
      evalText fuel st (programText (pre ++ s :: post) l₂) = (.error (e, some p₂), st₂') ∧
      st₁'.unloc = st₂'.unloc ∧
      PositionOK [.unbound, .nonProcedure] (pre ++ s :: post) l₁ pre.length e p₁ ∧
      PositionOK [.unbound, .nonProcedure] (pre ++ s :: post) l₂ pre.length e p₂ := by
  obtain ⟨p₁, st₁', a1, a2, a3⟩ :=
    error_position_within_failing_form fuel st st₁ st₂ pre post s v e loc l₁ hst hok hsup h₁ hpre hfail
  obtain ⟨p₂, st₂', b1, b2, b3⟩ :=
    error_position_within_failing_form fuel st st₁ st₂ pre post s v e loc l₂ hst hok hsup h₂ hpre hfail
  exact ⟨p₁, p₂, st₁', st₂', a1, b1, a2.trans b2.symm, a3, b3⟩

/-- the hypotheses are those of `layout_moves_positions_only` (the sample program under its two layouts) -/
example : ∃ p₁ p₂ st₁' st₂',
    evalText 2 (default_ false) "(define x 1)\n(1)\nx\n".toList = (.error (.nonProcedure, some p₁), st₁') ∧
    evalText 2 (default_ false) ";c\n( define x\n1 )  (1) x".toList = (.error (.nonProcedure, some p₂), st₂') ∧
    PositionOK [.unbound, .nonProcedure] samplePgm layoutA 1 .nonProcedure p₁ ∧
    PositionOK [.unbound, .nonProcedure] samplePgm layoutB 1 .nonProcedure p₂ := by
  obtain ⟨v, st₁, h1⟩ := sample_pre_ok (default_ false)
  obtain ⟨loc, st₂, h2⟩ := sample_fail st₁
  obtain ⟨p₁, p₂, st₁', st₂', k1, k2, -, k4, k5⟩ := layout_moves_positions_only_full 2 (default_ false) st₁ st₂
    samplePre samplePost sampleBad v .nonProcedure loc layoutA layoutB (C15.default_state_unlocated false 0).1
    sample_ok sample_sup sample_layoutA sample_layoutB h1 h2
  rw [show samplePre ++ sampleBad :: samplePost = samplePgm from rfl] at k1 k2
  rw [sample_textA] at k1
  rw [sample_textB] at k2
  exact ⟨p₁, p₂, st₁', st₂', k1, k2, k4, k5⟩

end Ruschm.C15More

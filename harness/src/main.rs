//! hx — runs verification cases on the real Ruschm code (path dependency on /repo, rebuilt from
//! the working tree on every check). Reads TSV cases on stdin (`id \t kind \t field...`, fields
//! escaped), writes `id \t result...` on stdout. Generation, diffing and oracles live in ./check.
use ruschm::error::{ErrorData, SchemeError};
use ruschm::interpreter::error::LogicError;
use ruschm::interpreter::Interpreter;
use ruschm::parser::pair::GenericPair;
use ruschm::parser::{Datum, DatumBody, Lexer, Parser, Primitive, TokenData};
use ruschm::values::{Number, Procedure, Type, Value, ValueReference};
use std::io::{BufRead, Write};
use std::panic::{catch_unwind, AssertUnwindSafe};

mod kinds;

#[global_allocator]
static ALLOC: kinds::progx::Counting = kinds::progx::Counting;

pub fn unescape(s: &str) -> String {
    let mut out = String::new();
    let mut it = s.chars();
    while let Some(c) = it.next() {
        if c == '\\' {
            match it.next() {
                Some('n') => out.push('\n'),
                Some('t') => out.push('\t'),
                Some('r') => out.push('\r'),
                Some('\\') => out.push('\\'),
                Some('u') => {
                    // \u{hex}
                    let mut hex = String::new();
                    it.next(); // {
                    for h in &mut it {
                        if h == '}' {
                            break;
                        }
                        hex.push(h);
                    }
                    if let Some(ch) = u32::from_str_radix(&hex, 16).ok().and_then(std::char::from_u32) {
                        out.push(ch)
                    }
                }
                Some(o) => out.push(o),
                None => (),
            }
        } else {
            out.push(c)
        }
    }
    out
}

/// printable ASCII except backslash, double quote, parentheses and blank stay; the rest is \u{hex}
pub fn esc(s: &str) -> String {
    let mut out = String::new();
    for c in s.chars() {
        match c {
            '\\' | '"' | '(' | ')' | ' ' => out.push_str(&format!("\\u{{{:x}}}", c as u32)),
            '!'..='~' => out.push(c),
            _ => out.push_str(&format!("\\u{{{:x}}}", c as u32)),
        }
    }
    out
}

pub fn canon_number(n: &Number<f32>) -> String {
    match n {
        Number::Integer(i) => format!("i:{}", i),
        Number::Rational(a, b) => format!("q:{}/{}", a, b),
        Number::Real(r) if r.is_nan() => "r:nan".to_string(),
        Number::Real(r) => format!("r:{}", r.to_bits()),
    }
}

pub fn canon_value(v: &Value<f32>) -> String {
    match v {
        Value::Number(n) => canon_number(n),
        Value::Boolean(true) => "#t".to_string(),
        Value::Boolean(false) => "#f".to_string(),
        Value::Character(c) => format!("c:{}", *c as u32),
        Value::String(s) => format!("s:\"{}\"", esc(s)),
        Value::Symbol(s) => format!("y:{}", esc(s)),
        Value::Procedure(Procedure::User(..)) => "<proc>".to_string(),
        Value::Procedure(Procedure::Builtin(b)) => format!("<builtin:{}>", esc(&b.name)),
        Value::Vector(r) => {
            let tag = match r {
                ValueReference::Immutable(_) => "#i(",
                ValueReference::Mutable(_) => "#m(",
            };
            let items: Vec<String> = r.as_ref().iter().map(canon_value).collect();
            format!("{}{})", tag, items.join(" "))
        }
        Value::Pair(p) => {
            let mut out = String::from("(");
            let mut cur: &GenericPair<Value<f32>> = p.as_ref();
            let mut first = true;
            loop {
                match cur {
                    GenericPair::Empty => break,
                    GenericPair::Some(car, cdr) => {
                        if !first {
                            out.push(' ');
                        }
                        first = false;
                        out.push_str(&canon_value(car));
                        match cdr {
                            Value::Pair(next) => cur = next.as_ref(),
                            other => {
                                out.push_str(" . ");
                                out.push_str(&canon_value(other));
                                break;
                            }
                        }
                    }
                }
            }
            out.push(')');
            out
        }
        Value::Transformer(_) => "<transformer>".to_string(),
        Value::Void => "<void>".to_string(),
    }
}

pub fn err_kind(e: &SchemeError) -> &'static str {
    match &e.data {
        ErrorData::Syntax(_) => "syntax",
        ErrorData::IO(_) => "io",
        ErrorData::Logic(l) => match l {
            LogicError::UnboundedSymbol(_) => "unbound",
            LogicError::TypeMisMatch(_, Type::Procedure) => "nonProcedure",
            LogicError::TypeMisMatch(_, _) => "type",
            LogicError::UnexpectedExpression(_) => "unexpectedExpr",
            LogicError::DivisionByZero => "divZero",
            LogicError::InExactConversion(_) => "inexactConversion",
            LogicError::InproperList(_) => "improperList",
            LogicError::NegativeLength => "negativeLength",
            LogicError::VectorIndexOutOfBounds => "vectorIndex",
            LogicError::ArgumentMissMatch(_, _) => "arity",
            LogicError::RequiresMutable(_) => "immutable",
            LogicError::MetaCircularSyntax(_) => "other",
            LogicError::Extension(_) => "other",
            LogicError::LibraryNotFound(_) => "libNotFound",
            LogicError::LibraryImportCyclic(_) => "cyclic",
        },
    }
}

pub fn canon_err(e: &SchemeError) -> String {
    match e.location {
        Some([l, c]) => format!("E {} {}:{}", err_kind(e), l, c),
        None => format!("E {} -", err_kind(e)),
    }
}

pub fn canon_prim(p: &Primitive) -> String {
    match p {
        Primitive::String(s) => format!("s:\"{}\"", esc(s)),
        Primitive::Character(c) => format!("c:{}", *c as u32),
        Primitive::Boolean(true) => "#t".to_string(),
        Primitive::Boolean(false) => "#f".to_string(),
        Primitive::Integer(i) => format!("i:{}", i),
        Primitive::Rational(a, b) => format!("q:{}/{}", a, b),
        Primitive::Real(t) => format!("R:{}", esc(t)),
    }
}

pub fn canon_token(t: &TokenData) -> String {
    match t {
        TokenData::Identifier(s) => format!("y:{}", esc(s)),
        TokenData::Primitive(p) => canon_prim(p),
        TokenData::LeftParen => "(".to_string(),
        TokenData::RightParen => ")".to_string(),
        TokenData::VecConsIntro => "#(".to_string(),
        TokenData::ByteVecConsIntro => "#u8(".to_string(),
        TokenData::Quote => "'".to_string(),
        TokenData::Quasiquote => "`".to_string(),
        TokenData::Unquote => ",".to_string(),
        TokenData::UnquoteSplicing => ",@".to_string(),
        TokenData::Period => ".".to_string(),
    }
}

pub fn canon_datum(d: &Datum) -> String {
    match &d.data {
        DatumBody::Primitive(p) => canon_prim(p),
        DatumBody::Symbol(s) => format!("y:{}", esc(s)),
        DatumBody::Vector(v) => {
            let items: Vec<String> = v.iter().map(canon_datum).collect();
            format!("#({})", items.join(" "))
        }
        DatumBody::Pair(p) => {
            let mut out = String::from("(");
            let mut cur: &GenericPair<Datum> = p.as_ref();
            let mut first = true;
            loop {
                match cur {
                    GenericPair::Empty => break,
                    GenericPair::Some(car, cdr) => {
                        if !first {
                            out.push(' ');
                        }
                        first = false;
                        out.push_str(&canon_datum(car));
                        match &cdr.data {
                            DatumBody::Pair(next) => cur = next.as_ref(),
                            _ => {
                                out.push_str(" . ");
                                out.push_str(&canon_datum(cdr));
                                break;
                            }
                        }
                    }
                }
            }
            out.push(')');
            out
        }
    }
}

pub fn loc_str(l: Option<[u32; 2]>) -> String {
    match l {
        Some([a, b]) => format!("{}:{}", a, b),
        None => "-".to_string(),
    }
}

pub fn panic_message(p: Box<dyn std::any::Any + Send>) -> String {
    let m = if let Some(s) = p.downcast_ref::<&str>() {
        s.to_string()
    } else if let Some(s) = p.downcast_ref::<String>() {
        s.clone()
    } else {
        "?".to_string()
    };
    format!("P {}", esc(&m.chars().take(80).collect::<String>()))
}

/// run `f` on a fresh thread (the macro table of Ruschm is thread-local) with a large stack
pub fn on_fresh_thread<F: FnOnce() -> Vec<String> + Send + 'static>(f: F) -> Vec<String> {
    on_fresh_thread_sized(256 * 1024 * 1024, f)
}

/// run `f` on the calling thread (case kinds that never touch interpreter or macro state)
pub fn in_place<F: FnOnce() -> Vec<String>>(f: F) -> Vec<String> {
    match catch_unwind(AssertUnwindSafe(f)) {
        Ok(v) => v,
        Err(p) => vec![panic_message(p)],
    }
}

type Job = Box<dyn FnOnce() -> Vec<String> + Send + 'static>;
static WORKER: std::sync::OnceLock<std::sync::Mutex<(std::sync::mpsc::Sender<Job>, std::sync::mpsc::Receiver<Vec<String>>)>> =
    std::sync::OnceLock::new();

/// HX_SAME_THREAD: every case of this process runs on ONE long-lived thread, one after another, instead of a fresh thread each -
/// whatever an interpreter leaves behind in thread-local storage is then seen by the interpreters of all later cases
fn on_the_one_thread(f: Job) -> Vec<String> {
    let w = WORKER.get_or_init(|| {
        let (tx, rx) = std::sync::mpsc::channel::<Job>();
        let (rtx, rrx) = std::sync::mpsc::channel::<Vec<String>>();
        std::thread::Builder::new()
            .stack_size(1 << 30)
            .spawn(move || {
                for job in rx {
                    let r = match catch_unwind(AssertUnwindSafe(job)) {
                        Ok(v) => v,
                        Err(p) => vec![panic_message(p)],
                    };
                    rtx.send(r).ok();
                }
            })
            .unwrap();
        std::sync::Mutex::new((tx, rrx))
    });
    let g = w.lock().unwrap();
    g.0.send(f).unwrap();
    g.1.recv().unwrap_or_else(|_| vec!["P thread".to_string()])
}

pub fn on_fresh_thread_sized<F: FnOnce() -> Vec<String> + Send + 'static>(stack: usize, f: F) -> Vec<String> {
    if std::env::var("HX_SAME_THREAD").is_ok() {
        return on_the_one_thread(Box::new(f));
    }
    let h = std::thread::Builder::new()
        .stack_size(stack)
        .spawn(move || match catch_unwind(AssertUnwindSafe(f)) {
            Ok(v) => v,
            Err(p) => vec![panic_message(p)],
        })
        .unwrap();
    match h.join() {
        Ok(v) => v,
        Err(_) => vec!["P thread".to_string()],
    }
}

thread_local! {
    /// Display of the first error `eval_form` met on this thread since it was last cleared: the MESSAGE the front ends print
    pub static FIRST_ERR_MSG: std::cell::RefCell<Option<String>> = std::cell::RefCell::new(None);
}

pub fn eval_form(it: &mut Interpreter<f32>, text: &str) -> String {
    match catch_unwind(AssertUnwindSafe(|| it.eval(text.chars()))) {
        Ok(Ok(Some(v))) => format!("V {}", canon_value(&v)),
        Ok(Ok(None)) => "N".to_string(),
        Ok(Err(e)) => {
            FIRST_ERR_MSG.with(|m| {
                let mut m = m.borrow_mut();
                if m.is_none() {
                    *m = Some(format!("{}", e));
                }
            });
            canon_err(&e)
        }
        Err(p) => panic_message(p),
    }
}

fn run_case(kind: &str, fields: Vec<String>) -> Vec<String> {
    match kind {
        // fields: "std"|"nostd", then one field per submission; all on one interpreter
        "prog" => on_fresh_thread(move || {
            let mut it = if fields[0] == "std" {
                Interpreter::<f32>::new_with_stdlib()
            } else {
                Interpreter::<f32>::default()
            };
            fields[1..].iter().map(|f| eval_form(&mut it, f)).collect()
        }),
        "lex" => in_place(move || {
            let mut out = vec![];
            for t in Lexer::from_char_stream(fields[0].chars()) {
                match t {
                    Ok(tok) => out.push(format!("{}@{}", canon_token(&tok.data), loc_str(tok.location))),
                    Err(e) => {
                        out.push(canon_err(&e));
                        break;
                    }
                }
            }
            out
        }),
        // the data of a text, one per top-level datum, read by Parser::current_datum
        "read" => in_place(move || {
            let mut out = vec![];
            let mut p = Parser::from_lexer(Lexer::from_char_stream(fields[0].chars()));
            loop {
                match p.lexer.next() {
                    None => break,
                    Some(Err(e)) => {
                        out.push(format!("E {}", err_kind(&e)));
                        break;
                    }
                    Some(Ok(tok)) => {
                        // Parser.location is private and stays unset on this path, so error
                        // locations are not meaningful here: only the kind is reported
                        p.current = Some(tok);
                        match p.current_datum() {
                            Ok(Some(d)) => out.push(format!("D {}", canon_datum(&d))),
                            Ok(None) => break,
                            Err(e) => {
                                out.push(format!("E {}", err_kind(&e)));
                                break;
                            }
                        }
                    }
                }
            }
            out
        }),
        other => kinds::run_case(other, fields),
    }
}

fn main() {
    // silence the default panic hook: panics are results here
    std::panic::set_hook(Box::new(|_| {}));
    let stdin = std::io::stdin();
    // results go to the file named by HX_OUT (default: stdout); what the interpreted programs
    // print goes to the real stdout and cannot mix with them
    let sink: Box<dyn Write> = match std::env::var("HX_OUT") {
        Ok(path) => Box::new(std::fs::File::create(path).unwrap()),
        Err(_) => Box::new(std::io::stdout()),
    };
    let mut out = std::io::BufWriter::new(sink);
    for line in stdin.lock().lines() {
        let line = line.unwrap();
        if line.is_empty() {
            continue;
        }
        let mut parts = line.split('\t');
        let id = parts.next().unwrap().to_string();
        let kind = parts.next().unwrap_or("").to_string();
        let fields: Vec<String> = parts.map(unescape).collect();
        let res = run_case(&kind, fields);
        let res: Vec<String> = res.iter().map(|r| r.replace('\t', "\\t").replace('\n', "\\n")).collect();
        writeln!(out, "{}\t{}", id, res.join("\t")).unwrap();
    }
}

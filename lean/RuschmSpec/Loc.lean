/-
Specification vocabulary for property C15 (error locations).

Spec side only: *which source positions occur inside* a datum, an expression, a statement, a value
(the code of the closures in it) and a store. The model (`RuschmModel/*.lean`) attaches a
`Loc = Option (Nat × Nat)` to every datum and expression node; the functions below collect the
positions that are present (`some`), so that "the reported position is one of the positions of the
failing form" can be said as a membership.

For code (expressions, values, stores) the positions are collected together with the *role* the
position plays for the evaluator:

* `Role.node`     — the position of some node (every position has this role);
* `Role.ident`    — the position of a variable reference `x`, or of the target of `(set! x …)`
                    (`Xform.toStatement` locates an assignment at its target identifier);
* `Role.operator` — the position of the operator expression of a procedure call;
* `Role.libname`  — the position of a library name in an import declaration;
* `Role.export`   — the position of an export spec of a library definition.

`locs` forgets the roles.
-/
import RuschmModel.Interp

namespace Ruschm

/-- a line and a column -/
abbrev Pos := Nat × Nat

/-- the role a position plays in a piece of code -/
inductive Role where
  | node | ident | operator | libname | export
  deriving DecidableEq, Repr

/-- a position with a role -/
abbrev RPos := Role × Pos

/-- the position of a node, if present, in role `r` -/
def Loc.as (r : Role) (l : Loc) : List RPos := l.toList.map (fun p => (r, p))

/-! ## data -/

mutual
/-- all positions inside a datum -/
def Datum.locs : Datum → List Pos
  | .prim _ l => l.toList
  | .sym _ l => l.toList
  | .nil l => l.toList
  | .pair a d l => l.toList ++ (a.locs ++ d.locs)
  | .vec xs l => l.toList ++ Datum.locsList xs
/-- all positions inside the data of a list -/
def Datum.locsList : List Datum → List Pos
  | [] => []
  | x :: xs => x.locs ++ Datum.locsList xs
end

/-! ## data whose elements all carry a position

The reader gives a position to every datum it reads from a token (atoms, `(`-lists, vectors,
quotations) but not to the inner cells of a list's spine. `Datum.HL d` ("head-located") says: `d`
carries a position, and so does every element inside it — every car, every improper tail, every
vector element, recursively; `Datum.TL d` says the same of `d` as the *rest* of a list (whose own
cell needs no position). -/

mutual
def Datum.HL : Datum → Prop
  | .prim _ l => l ≠ none
  | .sym _ l => l ≠ none
  | .nil l => l ≠ none
  | .pair a d l => l ≠ none ∧ a.HL ∧ d.TL
  | .vec xs l => l ≠ none ∧ Datum.HLs xs
def Datum.TL : Datum → Prop
  | .pair a d _ => a.HL ∧ d.TL
  | .nil _ => True
  | .prim _ l => l ≠ none
  | .sym _ l => l ≠ none
  | .vec xs l => l ≠ none ∧ Datum.HLs xs
def Datum.HLs : List Datum → Prop
  | [] => True
  | x :: xs => x.HL ∧ Datum.HLs xs
end

/-- the positions of the tokens of a list -/
def tokLocs (ts : List LToken) : List Pos := ts.flatMap (fun t => t.loc.toList)

/-! ## code -/

mutual
/-- all positions inside an expression, with their roles -/
def Expr.rlocs : Expr → List RPos
  | .sym _ l => l.as .node ++ l.as .ident
  | .prim _ l => l.as .node
  | .assign _ e l => l.as .node ++ (l.as .ident ++ e.rlocs)
  | .lambda lam l => l.as .node ++ lam.rlocs
  | .call f args l => l.as .node ++ (f.loc.as .operator ++ (f.rlocs ++ Expr.rlocsList args))
  | .cond t c a l => l.as .node ++ (t.rlocs ++ (c.rlocs ++ Expr.rlocsOpt a))
  | .quote d l => l.as .node ++ d.locs.map (fun p => (Role.node, p))
  | .datum d l => l.as .node ++ d.locs.map (fun p => (Role.node, p))
def Expr.rlocsOpt : Option Expr → List RPos
  | none => []
  | some e => e.rlocs
def Expr.rlocsList : List Expr → List RPos
  | [] => []
  | e :: es => e.rlocs ++ Expr.rlocsList es
/-- the positions inside the code of a procedure -/
def Lambda.rlocs : Lambda → List RPos
  | .mk _ defs body => Def.rlocsList defs ++ Expr.rlocsList body
def Def.rlocs : Def → List RPos
  | .mk _ e l => l.as .node ++ e.rlocs
def Def.rlocsList : List Def → List RPos
  | [] => []
  | d :: ds => d.rlocs ++ Def.rlocsList ds
end

/-- the position of the library name in an import set -/
def ImportSet.locs : ImportSet → List Pos
  | .direct _ l => l.toList
  | .only s _ => s.locs
  | .except s _ => s.locs
  | .prefix s _ => s.locs
  | .rename s _ => s.locs

/-- the positions of the library names in the import sets of an import declaration -/
def ImportSet.rlocsList (sets : List ImportSet) : List RPos :=
  (sets.flatMap ImportSet.locs).map (fun p => (Role.libname, p))

def ExportSpec.loc : ExportSpec → Loc
  | .direct _ l => l
  | .rename _ _ l => l

mutual
/-- all positions inside a statement, with their roles -/
def Statement.rlocs : Statement → List RPos
  | .importDecl sets l => l.as .node ++ ImportSet.rlocsList sets
  | .definition d => d.rlocs
  | .syntaxDef _ _ l => l.as .node
  | .expr e => e.rlocs
  | .libraryDef _ decls l => l.as .node ++ LibDecl.rlocsList decls
def Statement.rlocsList : List Statement → List RPos
  | [] => []
  | s :: ss => s.rlocs ++ Statement.rlocsList ss
def LibDecl.rlocs : LibDecl → List RPos
  | .importDecl sets => ImportSet.rlocsList sets
  | .export specs => specs.flatMap (fun s => s.loc.as .export)
  | .begin_ body => Statement.rlocsList body
def LibDecl.rlocsList : List LibDecl → List RPos
  | [] => []
  | d :: ds => d.rlocs ++ LibDecl.rlocsList ds
end

/-- the positions inside the code a value carries: the bodies of the closures in it (through
pairs; vectors are cells of the store, see `Store.rlocs`) -/
def Value.rlocs : Value → List RPos
  | .closure lam _ => lam.rlocs
  | .pair a d => a.rlocs ++ d.rlocs
  | _ => []

def Frame.rlocs (f : Frame) : List RPos := f.defs.flatMap (fun kv => kv.2.rlocs)
def VecCell.rlocs (c : VecCell) : List RPos := c.items.flatMap Value.rlocs

/-- the positions inside the code stored anywhere in the store: every value bound in a frame and
every item of a vector cell -/
def Store.rlocs (σ : Store) : List RPos :=
  σ.frames.toList.flatMap Frame.rlocs ++ σ.vecs.toList.flatMap VecCell.rlocs

/-- what a library factory can put into the store -/
def Interp.Factory.rlocs : Interp.Factory → List RPos
  | .native defs => defs.flatMap (fun kv => kv.2.rlocs)
  | .ast decls => LibDecl.rlocsList decls

/-- the positions inside the code an interpreter state holds: the store, the instantiated
libraries and the registered factories -/
def Interp.State.rlocs (st : Interp.State) : List RPos :=
  st.store.rlocs ++ (st.instances.flatMap (fun p => p.2.flatMap (fun kv => kv.2.rlocs)) ++
    st.factories.flatMap (fun p => p.2.rlocs))

/-! ## `locs` and `LocsIn` -/

/-- things that contain source positions -/
class HasLocs (α : Type) where
  locs : α → List Pos

export HasLocs (locs)

def unrole (l : List RPos) : List Pos := l.map Prod.snd

instance : HasLocs Datum := ⟨Datum.locs⟩
instance : HasLocs (List Datum) := ⟨Datum.locsList⟩
instance : HasLocs Expr := ⟨fun e => unrole e.rlocs⟩
instance : HasLocs (List Expr) := ⟨fun e => unrole (Expr.rlocsList e)⟩
instance : HasLocs Lambda := ⟨fun e => unrole e.rlocs⟩
instance : HasLocs Def := ⟨fun e => unrole e.rlocs⟩
instance : HasLocs Statement := ⟨fun e => unrole e.rlocs⟩
instance : HasLocs (List Statement) := ⟨fun e => unrole (Statement.rlocsList e)⟩
instance : HasLocs LibDecl := ⟨fun e => unrole e.rlocs⟩
instance : HasLocs (List LibDecl) := ⟨fun e => unrole (LibDecl.rlocsList e)⟩
instance : HasLocs Value := ⟨fun e => unrole e.rlocs⟩
instance : HasLocs Store := ⟨fun e => unrole e.rlocs⟩
instance : HasLocs Interp.State := ⟨fun e => unrole e.rlocs⟩
instance : HasLocs (List LToken) := ⟨tokLocs⟩

/-- every position inside `x` is one of `T` -/
def LocsIn {α : Type} [HasLocs α] (T : List Pos) (x : α) : Prop := ∀ l ∈ locs x, l ∈ T

/-- every position inside `x`, with its role, is one of `T` -/
def RLocsIn (T : List RPos) (ls : List RPos) : Prop := ∀ l ∈ ls, l ∈ T

end Ruschm

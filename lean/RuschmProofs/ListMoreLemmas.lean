/-
Helper lemmas for `RuschmProofs/C11More.lean`: the procedures of `base.sld` that `C11.lean` /
`C11Errors.lean` do not cover — `head`, `atom?`, `vector-equal-from?` (for vectors of any two
lengths), `filter` — and facts about `equalS` on vectors. Same machinery as `ListLibLemmas.lean`
(`libProc`, `LibFrame`, the store-polymorphic rules `PEval`/`PTail`/`PApp`, the big-step rules);
nothing here restates the library code: `libProc_head`, `libProc_atom_pred`, `libProc_filter`,
`libProc_vector_equal_from` are the lambdas of the generated datum.
-/
import RuschmProofs.ListErrLemmas
import RuschmSpec.ListMore

namespace Ruschm.ListLib
open Ruschm Ruschm.Eval Ruschm.ListSpec Ruschm.Store

/-! ## `head`, `atom?` -/

section procs
variable {V : Array VecCell} (b : Nat)

/-- `(define (head stream) (car stream))` -/
theorem papp_head (x : Value) : PApp V b (libProc "head" b) [x] (carS x) := by
  rw [libProc_head]
  refine PApp.closure (by rfl) fun ρ => ?_
  exact PTail.call1 (lkB .car) (by rfl) (PEval.var (by rfl)) fun _ _ => PApp.car

/-- `(define atom? (lambda (x) (and (not (pair? x)) (not (null? x)))))` -/
theorem papp_atom (x : Value) : PApp V b (libProc "atom?" b) [x] (.ok (.bool (atomS x))) := by
  rw [libProc_atom_pred]
  refine PApp.closure (by rfl) fun ρ => ?_
  have test : PEval V b ρ (paramDefs ⟨["x"], none⟩ [x]) (ca "not" [ca "pair?" [sy "x"]])
      (.ok (.bool (!isPair x))) :=
    PEval.congr (PEval.call1 (k := fun v => .ok (.bool (!v.truthy))) (lkB .not) (by rfl)
      (PEval.call1 (k := fun v => .ok (.bool (isPair v))) (lkB .isPair) (by rfl) (PEval.var (by rfl))
        fun _ _ => PApp.isPair)
      fun _ _ => PApp.not) (by simp [Except.bind])
  refine PTail.cond test (fun tv h ht => ?_) (fun tv h ht => ?_) (fun er h => by cases h)
  · cases h
    rw [truthy_bool] at ht
    refine PTail.congr (PTail.call1 (k := fun v => .ok (.bool (!v.truthy))) (lkB .not) (by rfl)
      (PEval.call1 (k := fun v => .ok (.bool (isNil v))) (lkP 14) (procArity_libProc (i := 14) rfl)
        (PEval.var (by rfl)) fun v _ => papp_null b v)
      fun _ _ => PApp.not) ?_
    simp [Except.bind, atomS, ht]
  · cases h
    rw [truthy_bool] at ht
    refine PTail.congr (PTail.value (by intros; simp) (by intros; simp) (PEval.prim (by rfl))) ?_
    simp [atomS, ht]

end procs

/-! ## `vector-equal-from?` on vectors of any two lengths -/

theorem vecFromS_of_allEqS (cmp : Value → Value → Option Bool) :
    ∀ (xs ys : List Value), xs.length = ys.length →
      vecFromS cmp xs ys = (allEqS cmp xs ys).map Except.ok
  | [], [], _ => rfl
  | [], _ :: _, h => by simp at h
  | _ :: _, [], h => by simp at h
  | x :: xs, y :: ys, h => by
    simp only [vecFromS, allEqS]
    cases hc : cmp x y with
    | none => rfl
    | some q =>
      cases q with
      | true => exact vecFromS_of_allEqS cmp xs ys (by simpa using h)
      | false => rfl

section vecfrom
variable (b : Nat) (σ₀ : Store)

/-- `(vector-equal-from? x y i)` given `equal?` on the items (at depth `n`): the items from index
`i` on; `y` may be shorter than `x` (then the index error of `vector-ref`) or longer -/
theorem papp_vector_equal_from_gen (n : Nat)
    (ih : ∀ x y r, equalS σ₀ n x y = some r → PApp σ₀.vecs b (libProc "equal?" b) [x, y] (.ok (.bool r)))
    {id id' : Nat} {c c' : VecCell} (hc : σ₀.vecs[id]? = some c) (hc' : σ₀.vecs[id']? = some c')
    (hfit : (c.items.length : Int) ≤ 2147483647) :
    ∀ (k i : Nat), i + k = c.items.length → ∀ r, vecFromS (equalS σ₀ n) (c.items.drop i) (c'.items.drop i) = some r →
    PApp σ₀.vecs b (libProc "vector-equal-from?" b) [.vec id, .vec id', .num (.int i)] (r.map Value.bool) := by
  have test : ∀ (i : Nat) ρ, PEval σ₀.vecs b ρ (paramDefs ⟨["x", "y", "i"], none⟩ [.vec id, .vec id', .num (.int i)])
      (ca "=" [sy "i", ca "vector-length" [sy "x"]]) (.ok (.bool ((i : Int) == (c.items.length : Int)))) := fun i ρ =>
    PEval.congr (PEval.call2 (k := fun _ _ => .ok (.bool ((i : Int) == (c.items.length : Int)))) (lkB .numEq) (by rfl)
      (PEval.var (by rfl))
      (PEval.call1 (k := fun _ => .ok (.num (.int c.items.length))) (lkB .vectorLength) (by rfl) (PEval.var (by rfl))
        fun v hv => by cases hv; exact PApp.vectorLength hc)
      fun v₁ v₂ h₁ h₂ => by cases h₁; cases h₂; exact PApp.numEq_int) rfl
  have lit : ∀ (i : Nat) ρ (q : Bool), PTail σ₀.vecs b ρ (paramDefs ⟨["x", "y", "i"], none⟩ [.vec id, .vec id', .num (.int i)])
      (pr (.bool q)) (.ok (.bool q)) :=
    fun i ρ q => PTail.value (by intros; simp) (by intros; simp) (PEval.prim (by rfl))
  intro k
  induction k with
  | zero =>
    intro i hi r hr
    have hi' : i = c.items.length := by omega
    subst hi'
    rw [List.drop_length] at hr
    simp only [vecFromS] at hr
    cases hr
    rw [libProc_vector_equal_from]
    refine PApp.closure (by rfl) fun ρ => ?_
    refine PTail.cond (test _ ρ) (fun tv h _ => ?_) (fun tv h ht => by cases h; simp at ht) (fun er h => by cases h)
    exact lit _ ρ true
  | succ k ihk =>
    intro i hi r hr
    have hlt : i < c.items.length := by omega
    have hd : c.items.drop i = c.items[i] :: c.items.drop (i + 1) := by simp
    rw [hd] at hr
    rw [libProc_vector_equal_from]
    refine PApp.closure (by rfl) fun ρ => ?_
    refine PTail.cond (test i ρ) (fun tv h ht => ?_) (fun tv h _ => ?_) (fun er h => by cases h)
    · cases h
      rw [truthy_bool] at ht
      have : (i : Int) = c.items.length := by simpa using ht
      omega
    · have refx : PEval σ₀.vecs b ρ (paramDefs ⟨["x", "y", "i"], none⟩ [.vec id, .vec id', .num (.int i)])
          (ca "vector-ref" [sy "x", sy "i"]) (.ok c.items[i]) :=
        PEval.congr (PEval.call2 (k := fun _ _ => .ok c.items[i]) (lkB .vectorRef) (by rfl) (PEval.var (by rfl))
          (PEval.var (by rfl)) fun v₁ v₂ h₁ h₂ => by cases h₁; cases h₂; exact PApp.vectorRef hc (by simp [hlt])) rfl
      rcases Nat.lt_or_ge i c'.items.length with hlt' | hge'
      · have hd' : c'.items.drop i = c'.items[i] :: c'.items.drop (i + 1) := by simp
        rw [hd'] at hr
        simp only [vecFromS] at hr
        cases hr₁ : equalS σ₀ n c.items[i] c'.items[i] with
        | none => rw [hr₁] at hr; cases hr
        | some r₁ =>
          rw [hr₁] at hr
          have test2 : PEval σ₀.vecs b ρ (paramDefs ⟨["x", "y", "i"], none⟩ [.vec id, .vec id', .num (.int i)])
              (ca "equal?" [ca "vector-ref" [sy "x", sy "i"], ca "vector-ref" [sy "y", sy "i"]]) (.ok (.bool r₁)) :=
            PEval.congr (PEval.call2 (k := fun _ _ => .ok (.bool r₁)) (lkP 28) (procArity_libProc (i := 28) rfl)
              refx
              (PEval.call2 (k := fun _ _ => .ok c'.items[i]) (lkB .vectorRef) (by rfl) (PEval.var (by rfl)) (PEval.var (by rfl))
                fun v₁ v₂ h₁ h₂ => by cases h₁; cases h₂; exact PApp.vectorRef hc' (by simp [hlt']))
              fun v₁ v₂ h₁ h₂ => by cases h₁; cases h₂; exact ih _ _ _ hr₁) rfl
          refine PTail.cond test2 (fun tv h ht => ?_) (fun tv h ht => ?_) (fun er h => by cases h)
          · cases h
            rw [truthy_bool] at ht
            subst ht
            simp only at hr
            refine PTail.congr (PTail.call (k := fun _ => r.map Value.bool) (lkP 29) (procArity_libProc (i := 29) rfl)
              (PArgs.cons (PEval.var (by rfl)) (PArgs.cons (PEval.var (by rfl))
                (PArgs.cons (PEval.call2 (k := fun _ _ => .ok (.num (.int ((i + 1 : Nat) : Int)))) (lkB .add) (by rfl)
                  (PEval.var (by rfl)) (PEval.prim (by rfl)) fun v₁ v₂ h₁ h₂ => by
                    cases h₁; cases h₂
                    refine (PApp.add_int (a := (i : Int)) (c := 1) ?_ ?_).congr (by simp)
                    · simp [fitsI32]; omega
                    · simp [fitsI32]; omega) PArgs.nil)))
              fun vs hvs => by
                cases hvs
                exact ihk (i + 1) (by omega) r hr) rfl
          · cases h
            rw [truthy_bool] at ht
            subst ht
            simp only at hr
            cases hr
            exact lit i ρ false
      · -- `y` has no item `i`: the second `vector-ref` raises the index error
        have hd' : c'.items.drop i = [] := List.drop_eq_nil_of_le hge'
        rw [hd'] at hr
        simp only [vecFromS] at hr
        cases hr
        have refy : PEval σ₀.vecs b ρ (paramDefs ⟨["x", "y", "i"], none⟩ [.vec id, .vec id', .num (.int i)])
            (ca "vector-ref" [sy "y", sy "i"]) (.error indexErr) :=
          PEval.congr (PEval.call2 (k := fun _ _ => .error indexErr) (lkB .vectorRef) (by rfl) (PEval.var (by rfl))
            (PEval.var (by rfl)) fun v₁ v₂ h₁ h₂ => by
              cases h₁; cases h₂
              refine PApp.builtin (by decide) (by rfl) (fun σ hv => ?_) (NotFuel.error_of (by simp))
              have hcσ : σ.vecs[id']? = some c' := hv ▸ hc'
              have hnone : c'.items[i]? = none := by simp; omega
              have hneg : ¬ ((i : Int) < 0) := by omega
              simp only [Prim.applyPure, hcσ, hneg, if_false, Int.toNat_natCast, hnone]
              rfl) rfl
        have test2 : PEval σ₀.vecs b ρ (paramDefs ⟨["x", "y", "i"], none⟩ [.vec id, .vec id', .num (.int i)])
            (ca "equal?" [ca "vector-ref" [sy "x", sy "i"], ca "vector-ref" [sy "y", sy "i"]]) (.error indexErr) :=
          PEval.congr (PEval.call2 (k := fun _ _ => .error indexErr) (lkP 28) (procArity_libProc (i := 28) rfl)
            refx refy fun v₁ v₂ h₁ h₂ => by cases h₂) rfl
        exact PTail.cond test2 (fun tv h => by cases h) (fun tv h => by cases h) (fun er h => by cases h; rfl)

end vecfrom

/-! ## `filter` -/

/-- the library frame `b` does not bind the name `filterb` (the name the `else` clause of `filter`
calls). The library defines no such name (`noFilterb_of_defs`); `LibFrame` alone does not exclude
that somebody has defined it in the library frame afterwards. -/
def NoFilterb (σ : Store) (b : Nat) : Prop := σ.lookup b "filterb" = none

theorem NoFilterb.ext {σ σ' b} (h : NoFilterb σ b) (hl : LibFrame σ b) (he : σ.FramesExt σ') : NoFilterb σ' b := by
  unfold NoFilterb; rw [lookup_of_framesExt he hl.lt]; exact h

theorem NoFilterb.keep {σ σ' b N} (h : NoFilterb σ b) (hl : LibFrame σ b) (hk : σ.Keeps b N σ') : NoFilterb σ' b := by
  obtain ⟨f, hf, hp, _⟩ := hl.frame
  have hf' : σ'.frames[b]? = some f := by rw [hk.frames b hl.lt (.inl rfl)]; exact hf
  unfold NoFilterb at h ⊢
  rw [lookup_of_frame hf] at h
  rw [lookup_of_frame hf']
  simp only [hp] at h ⊢
  exact h

/-- a root frame with exactly the library's bindings does not bind `filterb` -/
theorem noFilterb_of_defs {σ : Store} {b : Nat} (h : σ.frames[b]? = some { parent := none, defs := libDefs b }) :
    NoFilterb σ b := by
  unfold NoFilterb
  rw [lookup_of_frame h]
  have hk : "filterb" ∉ (libDefs b).map (·.1) := by
    simp only [libDefs, List.map_append, List.map_map, Function.comp_def, List.mem_append, not_or]
    refine ⟨by decide, ?_⟩
    rw [baseDefs_eq]; decide
  rw [lookup_none_of_not_mem _ _ hk]

theorem noFilterb_libStore : NoFilterb libStore 0 := noFilterb_of_defs rfl

/-- the library frame the interpreter builds from the generated declarations of `(scheme base)`
(`libFrame_of_evalLibraryDef`) does not bind `filterb` -/
theorem noFilterb_of_evalLibraryDef (st : Interp.State) (fuel : Nat) (hfuel : 40 ≤ fuel)
    (h₁ : Interp.libLookup st.instances Interp.libRuschmBase = none)
    (h₂ : Interp.libLookup st.factories Interp.libRuschmBase = some (.native Interp.nativeBase))
    (h₃ : st.inProgress.contains Interp.libRuschmBase = false) :
    ∃ exports st', Interp.evalLibraryDef fuel st libDecls = (.ok exports, st') ∧
      LibFrame st'.store st.store.frames.size ∧ NoFilterb st'.store st.store.frames.size := by
  obtain ⟨exports, st', h, hl, hfr, _⟩ := libFrame_of_evalLibraryDef st fuel hfuel h₁ h₂ h₃
  exact ⟨exports, st', h, hl, noFilterb_of_defs hfr⟩

section ftraces
variable {app : Store → List Value → Except SErr Value → Store → Prop} {ext : Store → Store → Prop}
  (tr : ∀ {a b c}, ext a b → ext b c → ext a c)
include tr

theorem FilterM.ext_left {σ₀ σ xs r σ'} (he : ext σ₀ σ) (h : FilterM app ext σ xs r σ') : FilterM app ext σ₀ xs r σ' := by
  cases h with
  | nil e => exact .nil (tr he e)
  | cons_err e h e' => exact .cons_err (tr he e) h e'
  | cons_keep e h hv hr e' => exact .cons_keep (tr he e) h hv hr e'
  | cons_drop e h hv e' => exact .cons_drop (tr he e) h hv e'

theorem FilterM.ext_right {σ xs r σ' σ''} (h : FilterM app ext σ xs r σ') (he : ext σ' σ'') : FilterM app ext σ xs r σ'' := by
  cases h with
  | nil e => exact .nil (tr e he)
  | cons_err e h e' => exact .cons_err e h (tr e' he)
  | cons_keep e h hv hr e' => exact .cons_keep e h hv hr (tr e' he)
  | cons_drop e h hv e' => exact .cons_drop e h hv (tr e' he)

end ftraces

/-- `filter` on a non-pair `t`: `()` on `()`; on anything else `(car lst)` raises the type error
before the predicate is applied -/
theorem papp_filter_end {V : Array VecCell} (b : Nat) (f t : Value) (hp : (procArity f).isSome)
    (ht : isPair t = false) : PApp V b (libProc "filter" b) [f, t] (filterEnd t []) := by
  rw [libProc_filter]
  refine PApp.closure (by rfl) fun ρ => ?_
  have test : PEval V b ρ (paramDefs ⟨["pred", "lst"], none⟩ [f, t]) (ca "null?" [sy "lst"])
      (.ok (.bool (isNil t))) :=
    PEval.call1 (k := fun v => .ok (.bool (isNil v))) (lkP 14) (procArity_libProc (i := 14) rfl)
      (PEval.var (by rfl)) fun v _ => papp_null b v
  refine PTail.cond test (fun tv h htv => ?_) (fun tv h htv => ?_) (fun er h => by cases h)
  · cases h
    rw [truthy_bool] at htv
    refine PTail.congr (PTail.thunk fun ρ' => PTail.value (by intros; simp) (by intros; simp) PEval.nil) ?_
    simp [filterEnd, htv, Value.ofList]
  · cases h
    rw [truthy_bool] at htv
    have hcarE : PEval V b ρ (paramDefs ⟨["pred", "lst"], none⟩ [f, t]) (ca "car" [sy "lst"]) (.error typeErr) :=
      PEval.congr (PEval.call1 (lkB .car) (by rfl) (PEval.var (by rfl)) fun _ _ => PApp.car) (carS_nonpair ht)
    have test2 : PEval V b ρ (paramDefs ⟨["pred", "lst"], none⟩ [f, t]) (ca "pred" [ca "car" [sy "lst"]])
        (.error typeErr) :=
      PEval.congr (PEval.call1 (k := fun _ => .error typeErr) (fv := f) (fun σ h => h.var (by rfl)) hp hcarE
        (fun v hv => by cases hv)) rfl
    refine PTail.congr (PTail.cond (r := .error typeErr) test2 (fun tv h => by cases h) (fun tv h => by cases h)
      (fun er h => by cases h; rfl)) ?_
    simp [filterEnd, htv]

section hfilter
variable {b N : Nat} {K : Store → Prop} {f : Value}

/-- `(filter f l)` on the list value with elements `xs` and final tail `t`, in the style of
`map_run`: the outcome, the chain of applications of `f`, the invariant of the caller -/
theorem filter_run (t : Value) (ht : isPair t = false) : ∀ (xs : List Value) (σ : Store), LibFrame σ b →
    NoFilterb σ b → K σ → N ≤ σ.frames.size → ProcArg b N K f (fun args => ∃ x ∈ xs, args = [x]) → ∀ env,
    ∃ r σ', Applies σ (libProc "filter" b) [f, withTail xs t] env (r.bind (filterEnd t)) σ' ∧
      FilterM (AppOf f) Store.DExt σ xs r σ' ∧ (∀ vs, r = .ok vs → K σ') := by
  have test : ∀ V (l : Value) ρ, PEval V b ρ (paramDefs ⟨["pred", "lst"], none⟩ [f, l]) (ca "null?" [sy "lst"])
      (.ok (.bool (isNil l))) := fun V l ρ =>
    PEval.call1 (k := fun v => .ok (.bool (isNil v))) (lkP 14) (procArity_libProc (i := 14) rfl)
      (PEval.var (by rfl)) fun v _ => papp_null b v
  intro xs
  induction xs with
  | nil =>
    intro σ hl hnf hK hN hf env
    obtain ⟨σ', h', e'⟩ := papp_filter_end b f t hf.proc ht σ env hl rfl
    exact ⟨.ok [], σ', h', .nil e'.dExt, fun _ _ => hf.stable _ _ hK e'.dExt⟩
  | cons x xs ih =>
    intro σ hl hnf hK hN hf env
    have hc := InCall.of_call hl ⟨["pred", "lst"], none⟩ [f, .pair x (withTail xs t)]
    have e₁ := callFrame_ext σ b ⟨["pred", "lst"], none⟩ [f, .pair x (withTail xs t)]
    obtain ⟨σ₂, h₂, e₂⟩ := test _ (.pair x (withTail xs t)) _ _ hc.scope rfl
    have hc₂ := hc.ext e₂.framesExt
    have hcarE : ∀ V ρ, PEval V b ρ (paramDefs ⟨["pred", "lst"], none⟩ [f, .pair x (withTail xs t)])
        (ca "car" [sy "lst"]) (.ok x) := fun V ρ =>
      PEval.congr (PEval.call1 (lkB .car) (by rfl) (PEval.var (by rfl)) fun _ _ => PApp.car) rfl
    have hcar : ∀ V ρ, PArgs V b ρ (paramDefs ⟨["pred", "lst"], none⟩ [f, .pair x (withTail xs t)])
        [ca "car" [sy "lst"]] (.ok [x]) := fun V ρ =>
      PArgs.congr (PArgs.cons (hcarE V ρ) PArgs.nil) rfl
    obtain ⟨σ₃, h₃, e₃⟩ := hcar _ _ _ hc₂.scope rfl
    have d₃ : σ.DExt (enter σ₃) :=
      (((e₁.dExt).trans (e₂.dExt)).trans (e₃.dExt)).trans (dExt_enter σ₃)
    obtain ⟨r₁, σ₄, happ, hkeep, hK₄⟩ := hf.app (enter σ₃) [x] (hf.stable _ _ hK d₃)
      (Nat.le_trans hN d₃.size) ⟨x, by simp, rfl⟩
    have harg1 : Evals σ₂ σ.frames.size (ca "pred" [ca "car" [sy "lst"]]) r₁ (leave σ₄) :=
      Evals.call_loop (Evals.sym (hc₂.scope.var (by rfl))) h₃ hf.proc (happ _)
    have hnull : (Value.bool (isNil (Value.pair x (withTail xs t)))).truthy = false := rfl
    cases r₁ with
    | error er =>
      refine ⟨.error er, leave σ₄, ?_, .cons_err d₃ happ (dExt_leave σ₄), fun _ h => by cases h⟩
      rw [libProc_filter]
      exact Applies.closure_simple (by rfl) (TailRuns.cond_false h₂ hnull (TailRuns.cond_err harg1))
    | ok v =>
      have hc₄ : InCall b σ.frames.size _ (leave σ₄) :=
        (((hc₂.ext e₃.framesExt).ext (Store.framesExt_enter σ₃)).keep hkeep
          (Nat.le_trans hN (Nat.le_refl _))).ext (Store.framesExt_leave σ₄)
      have hK₄' : K (leave σ₄) := hf.stable _ _ (hK₄ v rfl) (dExt_leave σ₄)
      have hl₃ : LibFrame (enter σ₃) b := hl.ext d₃.framesExt
      have hnf₄ : NoFilterb (leave σ₄) b :=
        ((hnf.ext hl d₃.framesExt).keep hl₃ hkeep).ext (hl₃.keep hkeep) (Store.framesExt_leave σ₄)
      have e₅ := callFrame_ext (leave σ₄) σ.frames.size ⟨[], none⟩ []
      have hs₅ := (InThunk.of_call hc₄).scope
      cases hv : v.truthy with
      | false =>
        refine ⟨.error unboundErr, callFrame (leave σ₄) σ.frames.size ⟨[], none⟩ [], ?_,
          .cons_drop d₃ happ hv ((dExt_leave σ₄).trans e₅.dExt), fun _ h => by cases h⟩
        have hlk : (callFrame (leave σ₄) σ.frames.size ⟨[], none⟩ []).lookup (leave σ₄).frames.size "filterb" = none := by
          rw [hs₅.sees]
          exact hnf₄.ext hc₄.lib e₅.framesExt
        rw [libProc_filter]
        exact Applies.closure_simple (by rfl) (TailRuns.cond_false h₂ hnull (TailRuns.cond_false harg1 hv
          (TailRuns.thunk (TailRuns.call (.inl ⟨_, Evals.sym_unbound hlk, rfl⟩)))))
      | true =>
        obtain ⟨σ₆, h₆, e₆⟩ := hcarE _ _ _ hs₅ rfl
        have hs₆ := hs₅.ext e₆.framesExt
        have hrec : ∀ V ρ, PArgs V b ρ (paramDefs ⟨["pred", "lst"], none⟩ [f, .pair x (withTail xs t)])
            [sy "pred", ca "cdr" [sy "lst"]] (.ok [f, withTail xs t]) := fun V ρ =>
          PArgs.congr (PArgs.cons (PEval.var (by rfl))
            (PArgs.cons (PEval.call1 (lkB .cdr) (by rfl) (PEval.var (by rfl)) fun _ _ => PApp.cdr) PArgs.nil)) rfl
        obtain ⟨σ₇, h₇, e₇⟩ := hrec _ _ _ hs₆ rfl
        have d₇ : (leave σ₄).DExt (enter σ₇) :=
          ((e₅.dExt.trans e₆.dExt).trans e₇.dExt).trans (dExt_enter σ₇)
        have hN₇ : N ≤ (enter σ₇).frames.size := by
          have h1 := d₃.size
          have h2 := hkeep.size
          have h3 := (dExt_leave σ₄).size
          have h4 := d₇.size
          omega
        obtain ⟨r₂, σ₈, happ₂, htr₂, hK₈⟩ := ih (enter σ₇) (hc₄.lib.ext d₇.framesExt)
          (hnf₄.ext hc₄.lib d₇.framesExt) (hf.stable _ _ hK₄' d₇) hN₇
          (hf.mono (Nat.le_refl _) fun args ⟨y, hy, e⟩ => ⟨y, List.mem_cons_of_mem _ hy, e⟩)
          (leave σ₄).frames.size
        have harg2 : Evals σ₆ (leave σ₄).frames.size (ca "filter" [sy "pred", ca "cdr" [sy "lst"]])
            (r₂.bind (filterEnd t)) (leave σ₈) :=
          Evals.call_loop (Evals.sym (hs₆.proc 17 (by rfl) (by rfl))) h₇ (procArity_libProc (i := 17) rfl) happ₂
        have hcons : Evals (callFrame (leave σ₄) σ.frames.size ⟨[], none⟩ []) (leave σ₄).frames.size (sy "cons")
            (.ok (.builtin .cons)) (callFrame (leave σ₄) σ.frames.size ⟨[], none⟩ []) :=
          Evals.sym (hs₅.builtin .cons (by decide) (by rfl))
        have htr : FilterM (AppOf f) Store.DExt σ₄ xs r₂ (leave σ₈) :=
          FilterM.ext_left @Store.DExt.trans ((dExt_leave σ₄).trans d₇)
            (FilterM.ext_right @Store.DExt.trans htr₂ (dExt_leave σ₈))
        refine ⟨r₂.map (x :: ·), leave σ₈, ?_, .cons_keep d₃ happ hv htr (Store.DExt.refl _), fun vs h => ?_⟩
        · rw [libProc_filter]
          refine Applies.closure_simple (by rfl) (TailRuns.cond_false h₂ hnull (TailRuns.cond_true harg1 hv
            (TailRuns.thunk (TailRuns.call ?_))))
          cases r₂ with
          | error er =>
            exact .inr ⟨_, _, hcons, .inl ⟨er, EvalsArgs.cons_tail_err h₆ (EvalsArgs.cons_err harg2), rfl⟩⟩
          | ok vs =>
            cases hn : isNil t with
            | true =>
              have harg2' : Evals σ₆ (leave σ₄).frames.size (ca "filter" [sy "pred", ca "cdr" [sy "lst"]])
                  (.ok (Value.ofList vs)) (leave σ₈) := by
                simpa [Except.bind, filterEnd, hn] using harg2
              have hres : (Except.map (x :: ·) (.ok vs : Except SErr (List Value))).bind (filterEnd t) =
                  .ok (.pair x (Value.ofList vs)) := by
                simp [Except.map, Except.bind, filterEnd, hn, Value.ofList]
              rw [hres]
              refine .inr ⟨_, _, hcons, .inr ⟨_, _, EvalsArgs.cons h₆ (EvalsArgs.cons harg2' EvalsArgs.nil),
                .inr ⟨rfl, ?_⟩⟩⟩
              exact Applies.builtin (by decide) (by rfl) (applyPure_cons _ _ _) (NotFuel.ok _)
            | false =>
              have harg2' : Evals σ₆ (leave σ₄).frames.size (ca "filter" [sy "pred", ca "cdr" [sy "lst"]])
                  (.error typeErr) (leave σ₈) := by
                simpa [Except.bind, filterEnd, hn] using harg2
              have hres : (Except.map (x :: ·) (.ok vs : Except SErr (List Value))).bind (filterEnd t) =
                  .error typeErr := by
                simp [Except.map, Except.bind, filterEnd, hn]
              rw [hres]
              exact .inr ⟨_, _, hcons, .inl ⟨_, EvalsArgs.cons_tail_err h₆ (EvalsArgs.cons_err harg2'), rfl⟩⟩
        · cases r₂ with
          | error er => cases h
          | ok vs' => exact hf.stable _ _ (hK₈ vs' rfl) (dExt_leave σ₈)

end hfilter

/-! ### `filter` with a pure predicate -/

section pureFilter
variable {b : Nat}

/-- with a pure procedure argument (it returns `g x` and only appends frames) the traversal of
`filter` has the outcome `filterLibS` and only appends frames -/
theorem filterM_of_papp {f : Value} {g : Value → Value}
    {σ : Store} {xs : List Value} {r σ'} (htr : FilterM (AppOf f) Store.DExt σ xs r σ')
    (h : ∀ V x, x ∈ xs → PApp V b f [x] (.ok (g x))) (hl : LibFrame σ b) :
    r = filterLibS (fun x => (g x).truthy) xs ∧ σ.DExt σ' := by
  induction htr with
  | nil e => exact ⟨rfl, e⟩
  | @cons_err σ σ₁ σ₂ σ' x xs er e₁ happ e₂ =>
    obtain ⟨σ₂', h', e'⟩ := h σ₁.vecs x (by simp) σ₁ 0 (hl.ext e₁.framesExt) rfl
    cases (Applies.unique (happ 0) h').1
  | @cons_keep σ σ₁ σ₂ σ₃ σ' x xs v r e₁ happ hv _ e₂ ih =>
    obtain ⟨σ₂', h', e'⟩ := h σ₁.vecs x (by simp) σ₁ 0 (hl.ext e₁.framesExt) rfl
    obtain ⟨hr, hσ⟩ := Applies.unique (happ 0) h'
    cases hr; subst hσ
    obtain ⟨rfl, e₃⟩ := ih (fun V y hy => h V y (List.mem_cons_of_mem _ hy))
      ((hl.ext e₁.framesExt).ext e'.framesExt)
    refine ⟨?_, ((e₁.trans e'.dExt).trans e₃).trans e₂⟩
    simp only [filterLibS, List.all_cons, hv, Bool.true_and]
    cases xs.all (fun x => (g x).truthy) <;> rfl
  | @cons_drop σ σ₁ σ₂ σ' x xs v e₁ happ hv e₂ =>
    obtain ⟨σ₂', h', e'⟩ := h σ₁.vecs x (by simp) σ₁ 0 (hl.ext e₁.framesExt) rfl
    obtain ⟨hr, hσ⟩ := Applies.unique (happ 0) h'
    cases hr; subst hσ
    refine ⟨?_, (e₁.trans e'.dExt).trans e₂⟩
    simp [filterLibS, hv]

end pureFilter

/-! ## `equalS` on vectors, `allEqS`, `vecFromS` -/

theorem equalS_vec_nonvec (σ : Store) (n i : Nat) (y : Value) (hy : isVec y = false) :
    equalS σ (n + 1) (.vec i) y = some false := by
  cases y <;> first | rfl | simp [isVec] at hy

theorem equalS_nonvec_vec (σ : Store) (n j : Nat) (x : Value) (hx : isVec x = false) :
    equalS σ (n + 1) x (.vec j) = some false := by
  cases x <;> first | rfl | simp [isVec] at hx

theorem equalS_vec_vec (σ : Store) (n : Nat) {i j : Nat} {c c' : VecCell} (hc : σ.vecs[i]? = some c)
    (hc' : σ.vecs[j]? = some c') :
    equalS σ (n + 1) (.vec i) (.vec j) =
      if c.items.length = c'.items.length then allEqS (equalS σ n) c.items c'.items else some false := by
  simp only [equalS, hc, hc']

/-- every pair of corresponding items compares equal: so do the item lists -/
theorem allEqS_all_true (cmp : Value → Value → Option Bool) :
    ∀ (xs ys : List Value), (∀ p ∈ xs.zip ys, cmp p.1 p.2 = some true) → allEqS cmp xs ys = some true
  | [], _, _ => by simp [allEqS]
  | _ :: _, [], _ => by simp [allEqS]
  | x :: xs, y :: ys, h => by
    have hxy : cmp x y = some true := h (x, y) (by simp)
    simp only [allEqS, hxy]
    exact allEqS_all_true cmp xs ys fun p hp => h p (by simp [hp])

/-- the first pair of corresponding items that does not compare equal decides -/
theorem allEqS_first_false (cmp : Value → Value → Option Bool) :
    ∀ (pre pre' : List Value) (x y : Value) (post post' : List Value), pre.length = pre'.length →
      (∀ p ∈ pre.zip pre', cmp p.1 p.2 = some true) → cmp x y = some false →
      allEqS cmp (pre ++ x :: post) (pre' ++ y :: post') = some false
  | [], [], x, y, post, post', _, _, hxy => by simp [allEqS, hxy]
  | [], _ :: _, _, _, _, _, h, _, _ => by simp at h
  | _ :: _, [], _, _, _, _, h, _, _ => by simp at h
  | a :: pre, a' :: pre', x, y, post, post', hl, h, hxy => by
    have haa : cmp a a' = some true := h (a, a') (by simp)
    simp only [List.cons_append, allEqS, haa]
    exact allEqS_first_false cmp pre pre' x y post post' (by simpa using hl)
      (fun p hp => h p (by simp [hp])) hxy

/-- `y` has fewer items left than `x` and all the pairs there are compare equal: the index error -/
theorem vecFromS_short (cmp : Value → Value → Option Bool) :
    ∀ (xs ys : List Value), ys.length < xs.length → (∀ p ∈ xs.zip ys, cmp p.1 p.2 = some true) →
      vecFromS cmp xs ys = some (.error indexErr)
  | [], _, h, _ => by simp at h
  | _ :: _, [], _, _ => rfl
  | x :: xs, y :: ys, hl, h => by
    have hxy : cmp x y = some true := h (x, y) (by simp)
    simp only [vecFromS, hxy]
    exact vecFromS_short cmp xs ys (by simpa using hl) fun p hp => h p (by simp [hp])

end Ruschm.ListLib

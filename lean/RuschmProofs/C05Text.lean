/-
Property C05 at the level of program TEXT — "derived forms behave as R7RS specifies, however nested":
a program text that nests `cond` in `let*` in `when` … evaluates exactly as its R7RS desugaring does,
whatever its layout.

Composition of two developments:
* `C05Nesting` (`nesting_interpreter_fuel`, `nesting_define`): for every surface program `s : Desugar.Surf`
  over the core forms and the nine derived forms, nested anywhere, the parser's transformer, in the
  interpreter's syntax environment and with the fuel the interpreter gives it, turns the printed form
  `Desugar.print s` into exactly the structural desugaring `Desugar.desugar s`;
* `C17More` (`written_program_evaluates_as_its_statements`): a text — any valid layout of the tokens of data
  that are a way of writing (`PrintsAs`) a list of statements — is read, transformed and evaluated by
  `Interpreter::eval` (`evalText`) as these statements one after another (`runStmts`).

Vocabulary (`RuschmProofs/SurfaceTextLemmas.lean`): `Item` (a top-level item: import declaration, surface
expression, `(define x s)`), `Item.print` (what one writes), `Item.stmt` (the DESUGARED statement),
`Item.WF` (side condition: `Desugar.ok`, the printed form carries no locations — implied by `plain s`: no
locations inside quoted data; `ImportSyntax.WF` for import sets), `surfaceToks` / `surfaceText` (tokens / text under a layout), `subst hole a c` (the context `c` with
`a` plugged into the places marked by the variable `hole`), `Defn d d'` (`d'` is the one-step R7RS
definition of the derived form `d`), `sepLayout`.

THE SYNTAX ENVIRONMENT.  `PrintsAs` is w.r.t. `stdEnv = [[], Interp.grammarScope]`.  This is, by `rfl`,
the syntax environment of `Interpreter::default()` (`Interp.default_`), and (`FrontLemmas.withStdlib_syn`)
that of `Interpreter::new_with_stdlib()` (`Interp.withStdlib`): importing libraries binds VALUES only, the
nine bundled derived forms are in the syntax environment from the start and no `(import (scheme base))` is
needed for them (`interpreter_syntax_environment` below).  The theorems are stated for every interpreter
state `st` with `st.syn = stdEnv`; no evaluation step changes `syn` (`evalAst_out`).

WHAT IS EQUAL (as in C17More): the outcome up to source locations (same value but for positions recorded
in closures' code, or same error KIND), the final state up to such positions, the output exactly; the run
stops at the first failing item.  What may differ is the location an error reports.
-/
import RuschmProofs.SurfaceTextLemmas

set_option linter.unusedSimpArgs false
set_option linter.unusedVariables false

namespace Ruschm.C05Text
open Ruschm Ruschm.Interp Ruschm.Front Ruschm.FrontSpec Ruschm.Xform Ruschm.Text Ruschm.Desugar
open Ruschm.ProgramText Ruschm.SurfaceText
open Ruschm.CoreSyntax (ident lst)

/-! ## sample: the nested program of `C05Nesting`, after an import and a definition -/

/-- `(import (scheme base))
    (define f (lambda (z) (when z (or z 0))))
    (let* ((a 1) (b (or #f a))) (cond ((and a b) => (lambda (t) (when t (case (f b) ((1 2) 'small) (else 'big)))))
                                      ((begin a)) (else (unless a 0) b)))` -/
private def samplePgm : List Item :=
  [.import_ [.direct [.ident "scheme", .ident "base"] none],
   .define "f" (.lambda ["z"] none [.when_ (.var "z") [.or_ [.var "z", .lit (.int 0)]]]),
   .expr C05Nesting.sample]

private theorem sample_wf : ∀ i ∈ samplePgm, i.WF := by
  intro i hi
  simp only [samplePgm, List.mem_cons, List.not_mem_nil, or_false] at hi
  rcases hi with rfl | rfl | rfl
  · intro t ht
    simp only [List.mem_cons, List.not_mem_nil, or_false] at ht
    subst ht
    exact ⟨"scheme", _, rfl, by decide⟩
  · exact ⟨by decide, rfl⟩
  · exact ⟨by decide, rfl⟩

/-- every identifier is plain, every number fits -/
private theorem sample_sup : ∀ i ∈ samplePgm, SupportedD i.print := by
  intro i hi
  simp only [samplePgm, List.mem_cons, List.not_mem_nil, or_false] at hi
  rcases hi with rfl | rfl | rfl <;>
    simp (config := {decide := true}) [Item.print, Desugar.print, printList, printBinds, printBind, printCondClauses,
      printCondClause, printCaseClauses, printCaseClause, C05Nesting.sample, ImportSyntax.renderImport,
      ImportSyntax.renderSet, ImportSyntax.renderName, ImportSyntax.renderElem, ImportSyntax.lst, ImportSyntax.sym, lst, ident, Datum.ofList, SupportedD,
      SupportedTok, CoreSyntax.formalsD]

private theorem sample_sup' : ∀ p ∈ samplePgm.map Item.print, SupportedD p := sup_items sample_sup

/-- one blank everywhere / one line end everywhere -/
private theorem sample_layouts :
    ValidLayout (surfaceToks samplePgm) (sepLayout [' '] (surfaceToks samplePgm)) ∧
    ValidLayout (surfaceToks samplePgm) (sepLayout ";c\n\t".toList (surfaceToks samplePgm)) :=
  ⟨validLayout_sep _ (by decide) (by decide) (by decide) _ sample_sup',
   validLayout_sep _ (by decide) (by decide) (by decide) _ sample_sup'⟩

/-! ## 0. which syntax environment -/

/-- THE SYNTAX ENVIRONMENT OF THE INTERPRETER is `stdEnv = [[], grammarScope]` — an own, empty scope over the
scope of the nine bundled derived forms — both for `Interpreter::default()` (nothing imported) and for
`Interpreter::new_with_stdlib()` (after `(import (scheme base) (scheme write))`, with any fuel): imports bind
values, the derived forms are available without any import. -/
theorem interpreter_syntax_environment (fuel : Nat) (withHost : Bool) :
    (default_ withHost).syn = stdEnv ∧ (withStdlib fuel withHost).syn = stdEnv :=
  ⟨rfl, withStdlib_syn fuel withHost⟩

/-! ## 1. the printed surface program is a way of writing its desugaring -/

/-- A SURFACE PROGRAM PRINTS AS ITS DESUGARING.  For a list of top-level items — import declarations,
surface expressions `s`, definitions `(define x s)`, where every `s` is a program of the grammar
(`Desugar.ok s`: core forms and the nine derived forms with all their clause kinds, nested anywhere) whose
quoted data carry no locations — the printed data (`Item.print`: `Desugar.print s`, `(define x <print s>)`,
`(import set …)`) are a way of writing (`PrintsAs`, in the interpreter's syntax environment `stdEnv`) the
DESUGARED statements `Item.stmt`: the expression `desugar s`, the definition of `x` as `desugar s`, the
import declaration.  That is: each printed datum carries no location, and the transformer, with the fuel the
interpreter gives it (`xformFuel`), turns it into exactly that statement and leaves the syntax environment
as it was. -/
theorem surface_program_prints_as_its_desugaring (items : List Item) (hwf : ∀ i ∈ items, i.WF) :
    PrintsAs stdEnv (items.map Item.print) (items.map Item.stmt) :=
  items_print items hwf

example : ∀ i ∈ samplePgm, i.WF := sample_wf

/-- THE SIDE CONDITION, STRUCTURALLY.  `Item.WF` asks that the printed form carries no source location.  This
holds as soon as the data EMBEDDED in the surface program (vector literals, quotations, the data of `case`
clauses — the only places where a `Surf` contains `Datum`s) carry none (`plain s`, decidable; always true of
what a programmer writes down): then `Desugar.print s` is location-free, and with `Desugar.ok s` the items
`s` and `(define x s)` are well formed. -/
theorem plain_program_is_well_formed (x : String) (s : Surf) (hok : ok s = true) (hp : plain s = true) :
    (Desugar.print s).strip = Desugar.print s ∧ (Item.expr s).WF ∧ (Item.define x s).WF :=
  ⟨strip_print s hp, ⟨hok, strip_print s hp⟩, ⟨hok, strip_print s hp⟩⟩

example : ok C05Nesting.sample = true ∧ plain C05Nesting.sample = true := by decide

/-! ## 2. the text of a surface program evaluates as its desugaring -/

/-- A SURFACE PROGRAM TEXT EVALUATES AS ITS DESUGARING.  Let `items` be a surface program as above whose
literals and identifiers the lexer can spell (`SupportedD`), written as a text under ANY valid layout of the
tokens of its printed forms (blanks, line ends, comments wherever they may stand).  `Interpreter::eval` on that
text (`evalText`), from any interpreter state `st` with the standard syntax environment, and the evaluation
of the DESUGARED statements one after another by `eval_ast` from `st`, stopping at the first error
(`runStmts`), with the same fuel, give: the same outcome up to locations — the value of the last item, or the
KIND of the first error; the same final state up to the positions stored in code; exactly the same output.
Moreover `evalText` on the text IS `runStmts` on statements `sts'` that equal the desugared statements up to
source locations.  So a program that nests `cond` in `let*` in `when` … evaluates exactly as its R7RS
desugaring does, whatever its layout; for every evaluation fuel (the reader's and the transformer's budgets
are internal and always sufficient). -/
theorem surface_program_text_evaluates_as_its_desugaring (fuel : Nat) (st : State) (hst : st.syn = stdEnv)
    (items : List Item) (layout : List (List Char))
    (hwf : ∀ i ∈ items, i.WF) (hsup : ∀ i ∈ items, SupportedD i.print)
    (hl : ValidLayout (surfaceToks items) layout) :
    (∃ sts', Statement.unlocList sts' = Statement.unlocList (items.map Item.stmt) ∧
      evalText fuel st (surfaceText items layout) = runStmts fuel st sts' none) ∧
    outcomeUnloc (evalText fuel st (surfaceText items layout)).1 =
      outcomeUnloc (runStmts fuel st (items.map Item.stmt) none).1 ∧
    (evalText fuel st (surfaceText items layout)).2.unloc = (runStmts fuel st (items.map Item.stmt) none).2.unloc ∧
    (evalText fuel st (surfaceText items layout)).2.store.out =
      (runStmts fuel st (items.map Item.stmt) none).2.store.out :=
  C17More.written_program_evaluates_as_its_statements fuel st _ _ layout
    (hst ▸ surface_program_prints_as_its_desugaring items hwf) (sup_items hsup) hl

example : (default_ false).syn = stdEnv ∧ (∀ i ∈ samplePgm, i.WF) ∧ (∀ i ∈ samplePgm, SupportedD i.print) ∧
    ValidLayout (surfaceToks samplePgm) (sepLayout [' '] (surfaceToks samplePgm)) :=
  ⟨rfl, sample_wf, sample_sup, sample_layouts.1⟩

/-- STOPPING AT THE FIRST FAILURE.  If the desugared statements of the items `pre` succeed from `st` (leaving
`st₁`) and the desugared statement of the next item `i` fails in `st₁` with an error of kind `e` (leaving
`st₂`), then `Interpreter::eval` on the text of `pre ++ i :: post`, under any valid layout, returns an error
of that kind; the state is `st₂` up to locations; the output is what `pre` and the completed effects of `i`
wrote (`part`) and nothing of `post`. -/
theorem surface_program_text_stops_at_first_failure (fuel : Nat) (st st₁ st₂ : State) (hst : st.syn = stdEnv)
    (pre post : List Item) (i : Item) (v : Option Value) (e : Err) (loc : Loc) (layout : List (List Char))
    (hwf : ∀ j ∈ pre ++ i :: post, j.WF) (hsup : ∀ j ∈ pre ++ i :: post, SupportedD j.print)
    (hl : ValidLayout (surfaceToks (pre ++ i :: post)) layout)
    (hpre : runStmts fuel st (pre.map Item.stmt) none = (.ok v, st₁))
    (hfail : evalAst fuel st₁ i.stmt = (.error (e, loc), st₂)) :
    (∃ loc', (evalText fuel st (surfaceText (pre ++ i :: post) layout)).1 = .error (e, loc')) ∧
    (evalText fuel st (surfaceText (pre ++ i :: post) layout)).2.unloc = st₂.unloc ∧
    ∃ part : List String, st₂.store.out = part ++ st₁.store.out ∧
      (evalText fuel st (surfaceText (pre ++ i :: post) layout)).2.store.out = part ++ st₁.store.out := by
  obtain ⟨_, h1, h2, h3⟩ := surface_program_text_evaluates_as_its_desugaring fuel st hst _ layout hwf hsup hl
  have hrun := C17More.statements_stop_at_first_error fuel st st₁ st₂ (pre.map Item.stmt) (post.map Item.stmt)
    i.stmt none v (e, loc) hpre hfail
  rw [List.map_append, List.map_cons, hrun] at h1 h2 h3
  obtain ⟨part, hp⟩ := (evalAst_out hfail).1
  exact ⟨outcomeUnloc_error h1 rfl, h2, part, hp, by rw [h3]; exact hp⟩

/-- the item `(1)` — desugared, the call of the literal `1` — fails in every state: not a procedure -/
private theorem sample_fail (st : State) : ∃ loc st₂,
    evalAst 2 st (Item.stmt (.expr (.call (.lit (.int 1)) []))) = (.error (.nonProcedure, loc), st₂) := by
  show ∃ loc st₂, evalAst 2 st (.expr (.call (.prim (.int 1) none) [] none)) = _
  unfold evalAst
  by_cases h : st.importEnd = true <;>
    simp [h, evalExprOrDef, Eval.evalExpr, Eval.evalArgs, Eval.evalPrim, Eval.procArity]

/-- the program `(1)` followed by the sample program, `pre = []` -/
example : (default_ false).syn = stdEnv ∧
    runStmts 2 (default_ false) (([] : List Item).map Item.stmt) none = (.ok none, default_ false) ∧
    (∃ loc st₂, evalAst 2 (default_ false) (Item.stmt (.expr (.call (.lit (.int 1)) []))) =
      (.error (.nonProcedure, loc), st₂)) ∧
    (∀ j ∈ [] ++ Item.expr (.call (.lit (.int 1)) []) :: samplePgm, j.WF) ∧
    (∀ j ∈ [] ++ Item.expr (.call (.lit (.int 1)) []) :: samplePgm, SupportedD j.print) := by
  refine ⟨rfl, rfl, sample_fail _, ?_, ?_⟩
  · intro j hj
    rcases List.mem_cons.1 hj with rfl | hj
    · exact ⟨by decide, rfl⟩
    · exact sample_wf j hj
  · intro j hj
    rcases List.mem_cons.1 hj with rfl | hj
    · exact ⟨(by decide : fitsI32 1 = true), trivial⟩
    · exact sample_sup j hj

/-! ## 3. the same through `ruschm FILE` -/

/-- `ruschm FILE` ON A SURFACE PROGRAM TEXT.  For a surface program `items` (import declarations first, if it
wants library procedures: `ruschm FILE` starts from `Interpreter::default()`, where nothing is imported)
written to a file under any valid layout: standard output is exactly what the DESUGARED statements, evaluated
one after another from the fresh interpreter and stopping at the first error, wrote; the exit status is 0
exactly when every desugared statement succeeded (`AllOk`), and then there is no diagnostic; otherwise it is
255, with one diagnostic whose error kind is that of the first failing desugared statement. -/
theorem cli_runs_the_desugared_statements (fuel : Nat) (items : List Item) (layout : List (List Char))
    (hwf : ∀ i ∈ items, i.WF) (hsup : ∀ i ∈ items, SupportedD i.print)
    (hl : ValidLayout (surfaceToks items) layout) :
    (cli fuel (some (String.ofList (surfaceText items layout)))).stdout =
      String.join (runStmts fuel (default_ false) (items.map Item.stmt) none).2.store.out.reverse ∧
    ((cli fuel (some (String.ofList (surfaceText items layout)))).exitCode = 0 ↔
      AllOk fuel (default_ false) (items.map Item.stmt)) ∧
    (∀ v, (runStmts fuel (default_ false) (items.map Item.stmt) none).1 = .ok v →
      (cli fuel (some (String.ofList (surfaceText items layout)))).exitCode = 0 ∧
      (cli fuel (some (String.ofList (surfaceText items layout)))).diag = none ∧
      (cli fuel (some (String.ofList (surfaceText items layout)))).errKind = none) ∧
    (∀ e loc, (runStmts fuel (default_ false) (items.map Item.stmt) none).1 = .error (e, loc) →
      (cli fuel (some (String.ofList (surfaceText items layout)))).exitCode = 255 ∧
      (cli fuel (some (String.ofList (surfaceText items layout)))).diag.isSome = true ∧
      (cli fuel (some (String.ofList (surfaceText items layout)))).errKind = some e) := by
  obtain ⟨_, h1, _, h3⟩ :=
    surface_program_text_evaluates_as_its_desugaring fuel (default_ false) rfl items layout hwf hsup hl
  obtain ⟨c1, c2, c3⟩ := C17.cli_equals_library_interface fuel (String.ofList (surfaceText items layout))
  have hz := C17.exit_zero_iff_ok fuel (String.ofList (surfaceText items layout))
  simp only [String.toList_ofList] at c1 c2 c3 hz
  refine ⟨by rw [c1, h3], ?_, ?_, ?_⟩
  · rw [hz, outcomeUnloc_ok_iff h1]
    exact runStmts_ok_iff_allOk fuel _ (default_ false) none
  · intro v hv
    obtain ⟨v', hv'⟩ := (outcomeUnloc_ok_iff h1).2 ⟨v, hv⟩
    exact c2 v' hv'
  · intro e loc he
    obtain ⟨loc', he'⟩ := outcomeUnloc_error h1 he
    obtain ⟨a, b, c⟩ := c3 e loc' he'
    exact ⟨a, by rw [b]; rfl, c⟩

example : (∀ i ∈ samplePgm, i.WF) ∧ (∀ i ∈ samplePgm, SupportedD i.print) ∧
    ValidLayout (surfaceToks samplePgm) (sepLayout ";c\n\t".toList (surfaceToks samplePgm)) :=
  ⟨sample_wf, sample_sup, sample_layouts.2⟩

/-! ## 4. layout independence; a derived form equals its definition, in every context -/

/-- LAYOUT INDEPENDENCE OF SURFACE PROGRAMS.  Two valid layouts of the same surface program — different line
breaks, indentation, comments — give the same run through `Interpreter::eval`: the same outcome up to
locations, the same state up to locations, the same output (both are the run of the desugared statements). -/
theorem surface_layout_independent (fuel : Nat) (st : State) (hst : st.syn = stdEnv) (items : List Item)
    (l₁ l₂ : List (List Char)) (hwf : ∀ i ∈ items, i.WF) (hsup : ∀ i ∈ items, SupportedD i.print)
    (h₁ : ValidLayout (surfaceToks items) l₁) (h₂ : ValidLayout (surfaceToks items) l₂) :
    outcomeUnloc (evalText fuel st (surfaceText items l₁)).1 = outcomeUnloc (evalText fuel st (surfaceText items l₂)).1 ∧
    (evalText fuel st (surfaceText items l₁)).2.unloc = (evalText fuel st (surfaceText items l₂)).2.unloc ∧
    (evalText fuel st (surfaceText items l₁)).2.store.out = (evalText fuel st (surfaceText items l₂)).2.store.out := by
  obtain ⟨_, a1, a2, a3⟩ := surface_program_text_evaluates_as_its_desugaring fuel st hst items l₁ hwf hsup h₁
  obtain ⟨_, b1, b2, b3⟩ := surface_program_text_evaluates_as_its_desugaring fuel st hst items l₂ hwf hsup h₂
  exact ⟨a1.trans b1.symm, a2.trans b2.symm, a3.trans b3.symm⟩

example : ValidLayout (surfaceToks samplePgm) (sepLayout [' '] (surfaceToks samplePgm)) ∧
    ValidLayout (surfaceToks samplePgm) (sepLayout ";c\n\t".toList (surfaceToks samplePgm)) := sample_layouts

/-- THE DESUGARING, NOT THE TOKENS, DETERMINES THE RUN.  Two surface programs — different texts, different
tokens — whose items have the same desugared statements, each written under any valid layout of its own
tokens, give the same run: same outcome up to locations, same state up to locations, same output. -/
theorem same_desugaring_same_run (fuel : Nat) (st : State) (hst : st.syn = stdEnv) (items₁ items₂ : List Item)
    (l₁ l₂ : List (List Char)) (hsame : items₁.map Item.stmt = items₂.map Item.stmt)
    (hwf₁ : ∀ i ∈ items₁, i.WF) (hwf₂ : ∀ i ∈ items₂, i.WF)
    (hsup₁ : ∀ i ∈ items₁, SupportedD i.print) (hsup₂ : ∀ i ∈ items₂, SupportedD i.print)
    (h₁ : ValidLayout (surfaceToks items₁) l₁) (h₂ : ValidLayout (surfaceToks items₂) l₂) :
    outcomeUnloc (evalText fuel st (surfaceText items₁ l₁)).1 = outcomeUnloc (evalText fuel st (surfaceText items₂ l₂)).1 ∧
    (evalText fuel st (surfaceText items₁ l₁)).2.unloc = (evalText fuel st (surfaceText items₂ l₂)).2.unloc ∧
    (evalText fuel st (surfaceText items₁ l₁)).2.store.out = (evalText fuel st (surfaceText items₂ l₂)).2.store.out := by
  obtain ⟨_, a1, a2, a3⟩ := surface_program_text_evaluates_as_its_desugaring fuel st hst items₁ l₁ hwf₁ hsup₁ h₁
  obtain ⟨_, b1, b2, b3⟩ := surface_program_text_evaluates_as_its_desugaring fuel st hst items₂ l₂ hwf₂ hsup₂ h₂
  rw [hsame] at a1 a2 a3
  exact ⟨a1.trans b1.symm, a2.trans b2.symm, a3.trans b3.symm⟩

/-- `(when t 1)` and `(if t (begin 1))`: different tokens, the same desugared statement; both well formed -/
example : [Item.expr (.when_ (.var "t") [.lit (.int 1)])].map Item.stmt =
      [Item.expr (.if2 (.var "t") (.begin_ [.lit (.int 1)]))].map Item.stmt ∧
    (Item.expr (.when_ (.var "t") [.lit (.int 1)])).WF ∧ (Item.expr (.if2 (.var "t") (.begin_ [.lit (.int 1)]))).WF ∧
    surfaceToks [Item.expr (.when_ (.var "t") [.lit (.int 1)])] ≠
      surfaceToks [Item.expr (.if2 (.var "t") (.begin_ [.lit (.int 1)]))] :=
  ⟨rfl, ⟨by decide, rfl⟩, ⟨by decide, rfl⟩, by decide⟩

/-- A DERIVED FORM DESUGARS AS ITS ONE-STEP DEFINITION.  For every rule `Defn d d'` — `begin`, `when`,
`unless`, `let`, the three rules of `let*`, of `and`, of `or`, the seven of `cond`, the eight of `case` (R7RS
7.3 as `grammar.sld` writes them; `d'` is surface syntax again and may use derived forms) — the derived form
`d` and its definition `d'` have the same desugaring.  All rules but two hold by `rfl` on `desugar` (see the
`example`s below): the general `let` needs an induction over its bindings (`rfl` for every explicit binding
list), the rules of `let*` need the bindings written out as `(x v)`. -/
theorem derived_form_desugars_as_its_definition (d d' : Surf) (h : Defn d d') : desugar d = desugar d' :=
  h.desugar_eq

example : Defn (.when_ (.var "t") [.var "a", .var "b"]) (.if2 (.var "t") (.begin_ [.var "a", .var "b"])) := .when_ _ _

section ByRfl
variable (t a b r : Surf) (x y : String) (body rs : List Surf) (bs : List Bind) (c : CondClause) (cs : List CondClause)
  (atoms : List Datum) (ccs : List CaseClause)
/-- `(begin e …)` = `((lambda () e …))` -/
example : desugar (.begin_ body) = desugar (.call (.lambda [] none body) []) := rfl
/-- `(when t e …)` = `(if t (begin e …))` -/
example : desugar (.when_ t body) = desugar (.if2 t (.begin_ body)) := rfl
/-- `(unless t e …)` = `(if (not t) (begin e …))` -/
example : desugar (.unless_ t body) = desugar (.if2 (.call (.var "not") [t]) (.begin_ body)) := rfl
/-- `(let ((x a) (y b)) e …)` = `((lambda (x y) e …) a b)` -/
example : desugar (.let_ [.mk x a, .mk y b] body) = desugar (.call (.lambda [x, y] none body) [a, b]) := rfl
/-- `(let* () e …)` = `(let () e …)`, `(let* ((x a)) e …)` = `(let ((x a)) e …)`,
`(let* ((x a) (y b) …) e …)` = `(let ((x a)) (let* ((y b) …) e …))` -/
example : desugar (.letstar [] body) = desugar (.let_ [] body) := rfl
example : desugar (.letstar [.mk x a] body) = desugar (.let_ [.mk x a] body) := rfl
example : desugar (.letstar (.mk x a :: .mk y b :: bs) body) =
    desugar (.let_ [.mk x a] [.letstar (.mk y b :: bs) body]) := rfl
/-- `(and)` = `#t`, `(and a)` = `a`, `(and a b …)` = `(if a (and b …) #f)` -/
example : desugar (.and_ []) = desugar (.lit (.bool true)) := rfl
example : desugar (.and_ [a]) = desugar a := rfl
example : desugar (.and_ (a :: b :: rs)) = desugar (.if3 a (.and_ (b :: rs)) (.lit (.bool false))) := rfl
/-- `(or)` = `#f`, `(or a)` = `a`, `(or a b …)` = `(let ((x a)) (if x x (or b …)))` -/
example : desugar (.or_ []) = desugar (.lit (.bool false)) := rfl
example : desugar (.or_ [a]) = desugar a := rfl
example : desugar (.or_ (a :: b :: rs)) =
    desugar (.let_ [.mk "x" a] [.if3 (.var "x") (.var "x") (.or_ (b :: rs))]) := rfl
/-- `cond`: `(else e …)`, `(t e …) c …`, `(t) c …`, `(t => r) c …` -/
example : desugar (.cond_ [.else_ body]) = desugar (.begin_ body) := rfl
example : desugar (.cond_ (.normal t body :: c :: cs)) = desugar (.if3 t (.begin_ body) (.cond_ (c :: cs))) := rfl
example : desugar (.cond_ (.test t :: c :: cs)) =
    desugar (.let_ [.mk "temp" t] [.if3 (.var "temp") (.var "temp") (.cond_ (c :: cs))]) := rfl
example : desugar (.cond_ (.arrow t r :: c :: cs)) =
    desugar (.let_ [.mk "temp" t] [.if3 (.var "temp") (.call r [.var "temp"]) (.cond_ (c :: cs))]) := rfl
/-- `case` with a variable key, and with a key that is a call -/
example : desugar (.case_ (.var x) [.normal atoms body]) =
    desugar (.if2 (.call (.var "memv") [.var x, .quote (lst atoms)]) (.begin_ body)) := rfl
example : desugar (.case_ (.call a rs) ccs) =
    desugar (.let_ [.mk "atom-key" (.call a rs)] [.case_ (.var "atom-key") ccs]) := rfl
end ByRfl

/-- THE DESUGARING IS COMPOSITIONAL: IN ANY CONTEXT.  Let `c` be a surface context — a surface program in
which the variable `hole` marks the places (any number, at any expression position of core and derived
forms, at any depth, under any binders) — and let `a`, `b` be surface expressions with the same desugaring
that are both, or both not, variables/literals (`atomic`: `case` treats such a key differently).  Then `c`
with `a` plugged in and `c` with `b` plugged in have the same desugaring. -/
theorem same_desugaring_in_context (hole : String) (a b : Surf) (hd : desugar a = desugar b)
    (hat : atomic a = atomic b) (c : Surf) : desugar (subst hole a c) = desugar (subst hole b c) :=
  desugar_subst hole a b hd hat c

/-- `(when t 1)` and `(if t (begin 1))` -/
example : desugar (.when_ (.var "t") [.lit (.int 1)]) = desugar (.if2 (.var "t") (.begin_ [.lit (.int 1)])) ∧
    atomic (.when_ (.var "t") [.lit (.int 1)]) = atomic (.if2 (.var "t") (.begin_ [.lit (.int 1)])) := ⟨rfl, rfl⟩

/-- the hypothesis on `atomic` is needed: `(and k)` and `k` have the same desugaring, but as the key of a
`case` the list `(and k)` is bound to `atom-key` first, the variable `k` is used as it is —
`(case (and k) (else 1))` and `(case k (else 1))` desugar differently (they evaluate alike). -/
example : desugar (.and_ [.var "k"]) = desugar (.var "k") ∧
    desugar (subst "_" (.and_ [.var "k"]) (.case_ (.var "_") [.else_ [.lit (.int 1)]])) ≠
      desugar (subst "_" (.var "k") (.case_ (.var "_") [.else_ [.lit (.int 1)]])) :=
  ⟨rfl, fun h => by
    simp [subst, substCase, substList, desugar, desugarCase, desugarList, atomic, letE, beginE, callE, lamE] at h⟩

/-- A DERIVED FORM EQUALS ITS DEFINITION, IN EVERY CONTEXT, AT THE LEVEL OF PROGRAM TEXT.  Let `ctx` be a
surface program (import declarations, expressions, definitions) with holes marked by the variable `hole`, `d` a
derived form and `d'` its one-step R7RS definition (`Defn d d'`, e.g. `(when t b …)` and `(if t (begin b …))`,
`(let ((x e)) b)` and `((lambda (x) b) e)`; `d'` not a bare variable or literal — only `(and a)`, `(or a)`,
`(cond (a))` with such an `a` are excluded).  Write the program with `d` in the holes as a text under any valid
layout, and the program with `d'` in the holes as a text under any valid layout of ITS tokens (both programs
being programs of the grammar, with spellable literals).  `Interpreter::eval` gives both texts the same run:
the same outcome up to locations (value, or kind of the first error), the same final state up to locations,
the same output — both desugar to the same core statements. -/
theorem derived_form_equals_its_definition_in_context (fuel : Nat) (st : State) (hst : st.syn = stdEnv)
    (hole : String) (d d' : Surf) (hdef : Defn d d') (hat : atomic d' = false) (ctx : List Item)
    (l₁ l₂ : List (List Char))
    (hwf₁ : ∀ i ∈ ctx.map (Item.subst hole d), i.WF) (hwf₂ : ∀ i ∈ ctx.map (Item.subst hole d'), i.WF)
    (hsup₁ : ∀ i ∈ ctx.map (Item.subst hole d), SupportedD i.print)
    (hsup₂ : ∀ i ∈ ctx.map (Item.subst hole d'), SupportedD i.print)
    (h₁ : ValidLayout (surfaceToks (ctx.map (Item.subst hole d))) l₁)
    (h₂ : ValidLayout (surfaceToks (ctx.map (Item.subst hole d'))) l₂) :
    outcomeUnloc (evalText fuel st (surfaceText (ctx.map (Item.subst hole d)) l₁)).1 =
      outcomeUnloc (evalText fuel st (surfaceText (ctx.map (Item.subst hole d')) l₂)).1 ∧
    (evalText fuel st (surfaceText (ctx.map (Item.subst hole d)) l₁)).2.unloc =
      (evalText fuel st (surfaceText (ctx.map (Item.subst hole d')) l₂)).2.unloc ∧
    (evalText fuel st (surfaceText (ctx.map (Item.subst hole d)) l₁)).2.store.out =
      (evalText fuel st (surfaceText (ctx.map (Item.subst hole d')) l₂)).2.store.out :=
  same_desugaring_same_run fuel st hst _ _ l₁ l₂
    (stmt_subst hole d d' hdef.desugar_eq (by rw [hdef.atomic_left, hat]) ctx) hwf₁ hwf₂ hsup₁ hsup₂ h₁ h₂

/-- … and through `ruschm FILE`: the two files give the same standard output, the same exit status and the
same error kind. -/
theorem cli_derived_form_equals_its_definition_in_context (fuel : Nat)
    (hole : String) (d d' : Surf) (hdef : Defn d d') (hat : atomic d' = false) (ctx : List Item)
    (l₁ l₂ : List (List Char))
    (hwf₁ : ∀ i ∈ ctx.map (Item.subst hole d), i.WF) (hwf₂ : ∀ i ∈ ctx.map (Item.subst hole d'), i.WF)
    (hsup₁ : ∀ i ∈ ctx.map (Item.subst hole d), SupportedD i.print)
    (hsup₂ : ∀ i ∈ ctx.map (Item.subst hole d'), SupportedD i.print)
    (h₁ : ValidLayout (surfaceToks (ctx.map (Item.subst hole d))) l₁)
    (h₂ : ValidLayout (surfaceToks (ctx.map (Item.subst hole d'))) l₂) :
    (cli fuel (some (String.ofList (surfaceText (ctx.map (Item.subst hole d)) l₁)))).stdout =
      (cli fuel (some (String.ofList (surfaceText (ctx.map (Item.subst hole d')) l₂)))).stdout ∧
    (cli fuel (some (String.ofList (surfaceText (ctx.map (Item.subst hole d)) l₁)))).exitCode =
      (cli fuel (some (String.ofList (surfaceText (ctx.map (Item.subst hole d')) l₂)))).exitCode ∧
    (cli fuel (some (String.ofList (surfaceText (ctx.map (Item.subst hole d)) l₁)))).errKind =
      (cli fuel (some (String.ofList (surfaceText (ctx.map (Item.subst hole d')) l₂)))).errKind := by
  obtain ⟨a1, _, a3, a4⟩ := cli_runs_the_desugared_statements fuel _ l₁ hwf₁ hsup₁ h₁
  obtain ⟨b1, _, b3, b4⟩ := cli_runs_the_desugared_statements fuel _ l₂ hwf₂ hsup₂ h₂
  have hs := stmt_subst hole d d' hdef.desugar_eq (by rw [hdef.atomic_left, hat]) ctx
  rw [hs] at a1 a3 a4
  refine ⟨a1.trans b1.symm, ?_, ?_⟩
  · cases hr : (runStmts fuel (default_ false) ((ctx.map (Item.subst hole d')).map Item.stmt) none).1 with
    | ok v => rw [(a3 v hr).1, (b3 v hr).1]
    | error e => obtain ⟨k, l⟩ := e; rw [(a4 k l hr).1, (b4 k l hr).1]
  · cases hr : (runStmts fuel (default_ false) ((ctx.map (Item.subst hole d')).map Item.stmt) none).1 with
    | ok v => rw [(a3 v hr).2.2, (b3 v hr).2.2]
    | error e => obtain ⟨k, l⟩ := e; rw [(a4 k l hr).2.2, (b4 k l hr).2.2]

/-! ### the sample program as a context -/

/-- the sample program with a hole for the body of `f`: `(define f (lambda (z) _))` -/
private def sampleCtx : List Item :=
  [.import_ [.direct [.ident "scheme", .ident "base"] none],
   .define "f" (.lambda ["z"] none [.var "_"]),
   .expr C05Nesting.sample]

/-- `(when z (or z 0))` and its definition `(if z (begin (or z 0)))` -/
private def sampleD : Surf := .when_ (.var "z") [.or_ [.var "z", .lit (.int 0)]]
private def sampleD' : Surf := .if2 (.var "z") (.begin_ [.or_ [.var "z", .lit (.int 0)]])

private theorem sampleCtx_plug : sampleCtx.map (Item.subst "_" sampleD) = samplePgm := by
  simp (config := {decide := true}) [sampleCtx, samplePgm, Item.subst, sampleD, C05Nesting.sample, subst, substList,
    substBinds, substCond, substCase]

private theorem sample_wf' : ∀ i ∈ sampleCtx.map (Item.subst "_" sampleD'), i.WF := by
  intro i hi
  simp only [sampleCtx, List.map_cons, List.map_nil, List.mem_cons, List.not_mem_nil, or_false] at hi
  rcases hi with rfl | rfl | rfl
  · intro t ht
    simp only [List.mem_cons, List.not_mem_nil, or_false] at ht
    subst ht
    exact ⟨"scheme", _, rfl, by decide⟩
  · exact ⟨by decide, rfl⟩
  · exact ⟨by decide, rfl⟩

private theorem sample_sup'' : ∀ i ∈ sampleCtx.map (Item.subst "_" sampleD'), SupportedD i.print := by
  intro i hi
  simp only [sampleCtx, List.map_cons, List.map_nil, List.mem_cons, List.not_mem_nil, or_false] at hi
  rcases hi with rfl | rfl | rfl <;>
    simp (config := {decide := true}) [Item.subst, sampleD', subst, substList, substBinds, substCond, substCase,
      Item.print, Desugar.print, printList, printBinds, printBind, printCondClauses,
      printCondClause, printCaseClauses, printCaseClause, C05Nesting.sample, ImportSyntax.renderImport,
      ImportSyntax.renderSet, ImportSyntax.renderName, ImportSyntax.renderElem, ImportSyntax.lst, ImportSyntax.sym,
      lst, ident, Datum.ofList, SupportedD, SupportedTok, CoreSyntax.formalsD]

/-- the hypotheses of `derived_form_equals_its_definition_in_context` hold for the sample program (the
nested program of `C05Nesting` after an import and the definition of `f`), the `when` form in the body of
`f`, the state of a fresh interpreter, one blank between the tokens of the first text and a comment and a
line end between those of the second -/
example : (default_ false).syn = stdEnv ∧ Defn sampleD sampleD' ∧ atomic sampleD' = false ∧
    sampleCtx.map (Item.subst "_" sampleD) = samplePgm ∧
    (∀ i ∈ sampleCtx.map (Item.subst "_" sampleD), i.WF) ∧ (∀ i ∈ sampleCtx.map (Item.subst "_" sampleD'), i.WF) ∧
    (∀ i ∈ sampleCtx.map (Item.subst "_" sampleD), SupportedD i.print) ∧
    (∀ i ∈ sampleCtx.map (Item.subst "_" sampleD'), SupportedD i.print) ∧
    ValidLayout (surfaceToks (sampleCtx.map (Item.subst "_" sampleD)))
      (sepLayout [' '] (surfaceToks (sampleCtx.map (Item.subst "_" sampleD)))) ∧
    ValidLayout (surfaceToks (sampleCtx.map (Item.subst "_" sampleD')))
      (sepLayout ";c\n".toList (surfaceToks (sampleCtx.map (Item.subst "_" sampleD')))) := by
  refine ⟨rfl, .when_ _ _, rfl, sampleCtx_plug, ?_, sample_wf', ?_, sample_sup'', ?_, ?_⟩
  · rw [sampleCtx_plug]; exact sample_wf
  · rw [sampleCtx_plug]; exact sample_sup
  · rw [sampleCtx_plug]; exact sample_layouts.1
  · exact validLayout_sep _ (by decide) (by decide) (by decide) _ (sup_items sample_sup'')

/-! ### end to end on a concrete text -/

/-- `(define y (or #f (and 1 2)))
    (let* ((a y) (b (or #f a))) (cond ((and a b) => (lambda (t) (when t 7))) (else 0)))`:
needs no library procedure -/
private def small : List Item :=
  [.define "y" (.or_ [.lit (.bool false), .and_ [.lit (.int 1), .lit (.int 2)]]),
   .expr (.letstar [.mk "a" (.var "y"), .mk "b" (.or_ [.lit (.bool false), .var "a"])]
     [.cond_ [.arrow (.and_ [.var "a", .var "b"]) (.lambda ["t"] none [.when_ (.var "t") [.lit (.int 7)]]),
              .else_ [.lit (.int 0)]]])]

private def smallText : String :=
  " ( define y ( or #f ( and 1 2 ) ) ) ( let* ( ( a y ) ( b ( or #f a ) ) ) ( cond ( ( and a b ) => ( lambda ( t ) ( when t 7 ) ) ) ( else 0 ) ) ) "

set_option maxRecDepth 100000 in
private theorem small_text : surfaceText small (sepLayout [' '] (surfaceToks small)) = smallText.toList := by decide

set_option maxRecDepth 100000 in
/-- the DESUGARED statements, evaluated by the model from the fresh interpreter, give 7 -/
private theorem small_runs : (runStmts 60 (default_ false) (small.map Item.stmt) none).1 = .ok (some (.num (.int 7))) := by
  with_unfolding_all rfl

private theorem small_wf : ∀ i ∈ small, i.WF := by
  intro i hi
  simp only [small, List.mem_cons, List.not_mem_nil, or_false] at hi
  rcases hi with rfl | rfl <;> exact ⟨by decide, rfl⟩

private theorem small_sup : ∀ i ∈ small, SupportedD i.print := by
  intro i hi
  simp only [small, List.mem_cons, List.not_mem_nil, or_false] at hi
  rcases hi with rfl | rfl <;>
    simp (config := {decide := true}) [Item.print, Desugar.print, printList, printBinds, printBind, printCondClauses,
      printCondClause, lst, ident, Datum.ofList, SupportedD, SupportedTok, CoreSyntax.formalsD]

/-- the theorems applied to a concrete text: `Interpreter::eval` on it returns the value 7 (what its
desugaring evaluates to), and `ruschm FILE` exits with status 0 and no diagnostic -/
example : (∃ v, (evalText 60 (default_ false) smallText.toList).1 = .ok v ∧
      outcomeUnloc (.ok v) = outcomeUnloc (.ok (some (.num (.int 7))))) ∧
    (cli 60 (some smallText)).exitCode = 0 ∧ (cli 60 (some smallText)).diag = none := by
  have hl : ValidLayout (surfaceToks small) (sepLayout [' '] (surfaceToks small)) :=
    validLayout_sep [' '] (by decide) (by decide) (by decide) _ (sup_items small_sup)
  obtain ⟨_, h1, _, _⟩ := surface_program_text_evaluates_as_its_desugaring 60 (default_ false) rfl small
    (sepLayout [' '] (surfaceToks small)) small_wf small_sup hl
  obtain ⟨_, _, c3, _⟩ := cli_runs_the_desugared_statements 60 small (sepLayout [' '] (surfaceToks small))
    small_wf small_sup hl
  rw [small_text] at h1 c3
  rw [small_runs] at h1
  have hc := c3 _ small_runs
  simp only [String.ofList_toList] at hc
  refine ⟨?_, hc.1, hc.2.1⟩
  obtain ⟨v, hv⟩ := (outcomeUnloc_ok_iff h1).2 ⟨_, rfl⟩
  exact ⟨v, hv, by rw [← hv]; exact h1⟩

end Ruschm.C05Text

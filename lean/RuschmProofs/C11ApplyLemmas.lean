/-
Helper lemmas for `RuschmProofs/C11Apply.lean`: no native procedure (`Prim.applyPure`) ever reports
the `arity` error (that error belongs to the gate of `apply_procedure` alone) nor the model's fuel
error — by inspection of every error site of the natives and of the number tower.
-/
import RuschmModel.Prim
namespace Ruschm.C11ApplyLemmas
open Ruschm Ruschm.Prim

/-- an error kind no native procedure reports: neither the arity error of the gate nor the model's fuel error -/
def Good (e : Err) : Prop := e ≠ .arity ∧ e ≠ .fuel

theorem exactRatio_na {n d e} (h : Num.exactRatio n d = .error e) : Good e := by
  unfold Num.exactRatio at h
  simp only at h
  repeat' split at h
  all_goals simp at h
  subst h; simp [Good]

theorem add_na {x y e} (h : Num.add x y = .error e) : Good e := by
  unfold Num.add at h; split at h
  all_goals first | exact exactRatio_na h | simp at h
theorem sub_na {x y e} (h : Num.sub x y = .error e) : Good e := by
  unfold Num.sub at h; split at h
  all_goals first | exact exactRatio_na h | simp at h
theorem mul_na {x y e} (h : Num.mul x y = .error e) : Good e := by
  unfold Num.mul at h; split at h
  all_goals first | exact exactRatio_na h | simp at h
theorem div_na {x y e} (h : Num.div x y = .error e) : Good e := by
  unfold Num.div at h; repeat' split at h
  all_goals first | exact exactRatio_na h | (simp at h; try (subst h; simp [Good]))
theorem abs_na {x e} (h : Num.abs x = .error e) : Good e := by
  unfold Num.abs at h; split at h
  all_goals first | exact exactRatio_na h | simp at h
theorem floor_na {x e} (h : Num.floor x = .error e) : Good e := by
  unfold Num.floor at h; repeat' split at h
  all_goals first | exact exactRatio_na h | (simp at h; try (subst h; simp [Good]))
theorem ceiling_na {x e} (h : Num.ceiling x = .error e) : Good e := by
  unfold Num.ceiling at h; repeat' split at h
  all_goals first | exact exactRatio_na h | (simp at h; try (subst h; simp [Good]))
theorem exact_na {x e} (h : Num.exact x = .error e) : Good e := by
  unfold Num.exact at h; repeat' split at h
  all_goals (simp at h; try (subst h; simp [Good]))
theorem floorQuotient_na {x y e} (h : Num.floorQuotient x y = .error e) : Good e := by
  unfold Num.floorQuotient at h
  cases hq : Num.div x y with
  | error e' => rw [hq] at h; cases h; exact div_na hq
  | ok q => rw [hq] at h; exact floor_na h
theorem floorRemainder_na {x y e} (h : Num.floorRemainder x y = .error e) : Good e := by
  unfold Num.floorRemainder at h
  cases hq : Num.floorQuotient x y with
  | error e' => rw [hq] at h; cases h; exact floorQuotient_na hq
  | ok q =>
    rw [hq] at h
    cases hp : Num.mul q y with
    | error e' => simp only [bind, Except.bind, hp] at h; cases h; exact mul_na hp
    | ok p => simp only [bind, Except.bind, hp] at h; exact sub_na h

theorem expectNumber_na {v e} (h : expectNumber v = .error e) : Good e := by
  unfold expectNumber at h; split at h <;> simp at h; subst h; simp [Good]

theorem foldlM_na {f : Num → Value → Except Err Num} (hf : ∀ a v e, f a v = .error e → Good e) :
    ∀ (l : List Value) (init : Num) {e}, l.foldlM f init = .error e → Good e := by
  intro l
  induction l with
  | nil => intro init e h; simp [List.foldlM, pure, Except.pure] at h
  | cons v vs ih =>
    intro init e h
    rw [List.foldlM_cons] at h
    cases hv : f init v with
    | error e' => simp only [bind, Except.bind, hv] at h; cases h; exact hf _ _ _ hv
    | ok a => simp only [bind, Except.bind, hv] at h; exact ih a h

theorem step_na {f : Num → Num → Except Err Num} (hf : ∀ a b e, f a b = .error e → Good e) :
    ∀ (a : Num) (v : Value) e, (do let b ← expectNumber v; f a b) = .error e → Good e := by
  intro a v e h
  cases hv : expectNumber v with
  | error e' => simp only [bind, Except.bind, hv] at h; cases h; exact expectNumber_na hv
  | ok b => simp only [bind, Except.bind, hv] at h; exact hf _ _ _ h

theorem foldNum_na {f : Num → Num → Except Err Num} (hf : ∀ a b e, f a b = .error e → Good e)
    {init args e} (h : foldNum f init args = .error e) : Good e :=
  foldlM_na (step_na hf) args init h

theorem subDiv_na {f : Num → Num → Except Err Num} (hf : ∀ a b e, f a b = .error e → Good e)
    {unit args e} (h : subDiv f unit args = .error e) : Good e := by
  unfold subDiv at h
  split at h
  · cases h; simp [Good]
  · rename_i x rest
    cases hx : expectNumber x with
    | error e' => simp only [bind, Except.bind, hx] at h; cases h; exact expectNumber_na hx
    | ok first =>
      simp only [bind, Except.bind, hx] at h
      split at h
      · exact hf _ _ _ h
      · rename_i y more
        cases hy : expectNumber y with
        | error e' => simp only [hy] at h; cases h; exact expectNumber_na hy
        | ok second =>
          simp only [hy] at h
          cases hi : f first second with
          | error e' => simp only [hi] at h; cases h; exact hf _ _ _ hi
          | ok init => simp only [hi] at h; exact foldNum_na hf h

theorem divArgs_na {args e} (h : divArgs args = .error e) : Good e := by
  have key : ∀ c : Bool, (if c then (.error .divZero : Except Err Num) else subDiv Num.div (.int 1) args) = .error e →
      Good e := by
    intro c h; cases c
    · exact subDiv_na (fun _ _ _ => div_na) (by simpa using h)
    · simp at h; subst h; simp [Good]
  unfold divArgs at h
  exact key _ h

theorem cmpNum_go_na (op : Num → Num → Bool) : ∀ (vs : List Value) (last : Num) (acc : Bool) {e},
    cmpNum.go op last acc vs = .error e → Good e := by
  intro vs
  induction vs with
  | nil => intro last acc e h; simp [cmpNum.go] at h
  | cons v vs ih =>
    intro last acc e h
    rw [cmpNum.go] at h
    cases hv : expectNumber v with
    | error e' => simp only [bind, Except.bind, hv] at h; cases h; exact expectNumber_na hv
    | ok cur => simp only [bind, Except.bind, hv] at h; exact ih _ _ h

theorem cmpNum_na {op args e} (h : cmpNum op args = .error e) : Good e := by
  unfold cmpNum at h
  split at h
  · simp at h
  · rename_i x rest
    cases hx : expectNumber x with
    | error e' => simp only [bind, Except.bind, hx] at h; cases h; exact expectNumber_na hx
    | ok first => simp only [bind, Except.bind, hx] at h; exact cmpNum_go_na op _ _ _ h

theorem cmpBool_go_na : ∀ (vs : List Value) (last : Bool) (acc : Bool) {e},
    cmpBool.go last acc vs = .error e → Good e := by
  intro vs
  induction vs with
  | nil => intro last acc e h; simp [cmpBool.go] at h
  | cons v vs ih =>
    intro last acc e h
    unfold cmpBool.go at h
    split at h
    · simp at h
    · rename_i heq; cases heq; exact ih _ _ h
    · cases h; simp [Good]

theorem cmpBool_na {args e} (h : cmpBool args = .error e) : Good e := by
  unfold cmpBool at h
  repeat' split at h
  · simp at h
  · exact cmpBool_go_na _ _ _ h
  · cases h; simp [Good]

theorem extremum_na {step args e} (h : extremum step args = .error e) : Good e := by
  unfold extremum at h
  split at h
  · cases h; simp [Good]
  · rename_i x rest
    cases hx : expectNumber x with
    | error e' => simp only [bind, Except.bind, hx] at h; cases h; exact expectNumber_na hx
    | ok init =>
      simp only [bind, Except.bind, hx] at h
      refine foldlM_na (fun a v e h => ?_) rest init h
      cases hv : expectNumber v with
      | error e' => simp only [hv] at h; cases h; exact expectNumber_na hv
      | ok b => simp [hv, pure, Except.pure] at h

theorem lift_na {α} {σ σ' : Store} {r : Except Err α} {k e l} (hr : ∀ e, r = .error e → Good e)
    (h : lift σ r k = (.error (e, l), σ')) : Good e := by
  unfold lift at h; split at h <;> simp [ok, err] at h
  obtain ⟨⟨rfl, -⟩, -⟩ := h; exact hr _ rfl
theorem num1_na {σ σ' : Store} {args b f e l} (hf : ∀ n e, f n = .error e → Good e)
    (h : num1 σ args b f = (.error (e, l), σ')) : Good e := by
  unfold num1 at h; repeat' split at h
  all_goals simp [ok, err, missing] at h
  · obtain ⟨⟨rfl, -⟩, -⟩ := h; rename_i hx; exact expectNumber_na hx
  · obtain ⟨⟨rfl, -⟩, -⟩ := h; rename_i hx; exact hf _ _ hx
  · obtain ⟨⟨rfl, -⟩, -⟩ := h; simp [Good]
theorem num2_na {σ σ' : Store} {args b f e l} (hf : ∀ n m e, f n m = .error e → Good e)
    (h : num2 σ args b f = (.error (e, l), σ')) : Good e := by
  unfold num2 at h; repeat' split at h
  all_goals simp [ok, err, missing] at h
  · obtain ⟨⟨rfl, -⟩, -⟩ := h; rename_i hx; exact expectNumber_na hx
  · obtain ⟨⟨rfl, -⟩, -⟩ := h; rename_i hx; exact expectNumber_na hx
  · obtain ⟨⟨rfl, -⟩, -⟩ := h; rename_i hx; exact hf _ _ _ hx
  · obtain ⟨⟨rfl, -⟩, -⟩ := h; simp [Good]

theorem applyPure_ne_arity {σ σ' : Store} {b : Builtin} {args : List Value} {e l}
    (h : applyPure σ b args = (.error (e, l), σ')) : Good e := by
  cases b <;> simp only [applyPure, realFn, realFn2] at h
  all_goals first
    | exact lift_na (fun _ h => cmpBool_na h) h
    | exact lift_na (fun _ h => cmpNum_na h) h
    | exact lift_na (fun _ h => extremum_na h) h
    | exact lift_na (fun _ h => divArgs_na h) h
    | exact lift_na (fun _ h => foldNum_na (fun _ _ _ => add_na) h) h
    | exact lift_na (fun _ h => foldNum_na (fun _ _ _ => mul_na) h) h
    | exact lift_na (fun _ h => subDiv_na (fun _ _ _ => sub_na) h) h
    | exact num1_na (fun _ _ => abs_na) h
    | exact num1_na (fun _ _ => floor_na) h
    | exact num1_na (fun _ _ => ceiling_na) h
    | exact num1_na (fun _ _ => exact_na) h
    | exact num1_na (fun _ _ h => by simp at h) h
    | exact num2_na (fun _ _ _ => floorQuotient_na) h
    | exact num2_na (fun _ _ _ => floorRemainder_na) h
    | exact num2_na (fun _ _ _ h => by simp at h) h
    | (repeat' split at h
       all_goals simp [ok, err, missing, Store.allocVec] at h
       all_goals (try (obtain ⟨⟨rfl, -⟩, -⟩ := h; simp [Good])))

end Ruschm.C11ApplyLemmas

/-
Property C18 (bracket part) — "Text entered at the REPL is evaluated as soon as the lines entered
so far close every list they opened, and not before".

The REPL decides whether the text entered so far is complete with a private character-level
counter (`check_bracket_closed`, modelled by `Bracket.closed`). The theorem below says that this
counter sees exactly the brackets the lexer sees: whenever the text tokenises without error, the
count it arrives at is the number of opening tokens `(`, `#(`, `#u8(` minus the number of closing
tokens `)` — parentheses inside strings, `|quoted|` identifiers, character literals and comments
are not counted, by either. Only property theorems live here; helper lemmas are in
`RuschmProofs/BracketLemmas.lean` (one lemma per scanner in `LexLemmas.lean`).
-/
import RuschmProofs.BracketLemmas

namespace Ruschm.C18
open Ruschm Ruschm.Lex Ruschm.Text

/-- The counter's final count is the nesting depth of the token stream. No side condition beyond
"the text tokenises": a `,` as very last character (dropped by the lexer) and a comment that
reaches the end of the text (which leaves the counter in comment mode) do not change the count. -/
theorem bracket_count_is_depth (cs : List Char) (ts : List LToken)
    (h : Lex.all cs = (ts, none)) : (Bracket.run cs).2 = depth (ts.map (·.tok)) :=
  bracket_run_eq cs ts h

/-- `check_bracket_closed` answers "closed" exactly when the tokens read so far contain at least
as many `)` as `(`, `#(` and `#u8(`. -/
theorem bracket_agrees_with_reader (cs : List Char) (ts : List LToken)
    (h : Lex.all cs = (ts, none)) :
    Bracket.closed cs = decide (depth (ts.map (·.tok)) ≤ 0) :=
  bracket_closed_eq cs ts h

/-- the same, without naming the token list -/
theorem bracket_agrees_with_reader' (cs : List Char) (h : (Lex.all cs).2 = none) :
    Bracket.closed cs = decide (depth ((Lex.all cs).1.map (·.tok)) ≤ 0) :=
  bracket_closed_eq cs _ (Prod.ext rfl h)

section Example
/-- `(f #\( "a)" ;)` + newline: one list is open; the parentheses in the character literal, the
string and the comment do not count. (A larger example, built with `lex_render`, is at the end of
`C06.lean`.) -/
example : (Lex.all "(f #\\( \"a)\" ;)\n".toList).2 = none := by
  simp [Lex.all, Lex.allAux, Lex.next, Lex.skipAtmosphere, Lex.token, Lex.isWs, Lex.adv,
    Lex.character, Lex.takeRun, Lex.normalIdentifier, Lex.isDigit, Lex.isSubsequent,
    Lex.isInitial, Lex.isLetter, Lex.isAsciiAlnum, Lex.endOfSharpToken, Lex.endOfToken,
    Lex.testDelimiter, Lex.isDelimiter, Lex.string, Except.map, bind, Except.bind, pure,
    Except.pure]

example : Bracket.closed "(f #\\( \"a)\" ;)\n".toList = false := by decide
end Example

end Ruschm.C18

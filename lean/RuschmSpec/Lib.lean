/-
Specification vocabulary for the library properties C12 (import-set algebra), C13 (library
encapsulation, one instance per interpreter) and C14 (the loader terminates; outcome depends
only on the dependency graph).

Everything here is *spec side* and mentions no interpreter state:

* `S.denote`: the meaning of an import-set term over an abstract "exports of" function, by
  structural recursion on the term; `S.asMap` (the finite-map view of a binding list: the last
  binding of a name wins, as in `HashMap::extend`), `S.Admissible` (no name bound twice);
* `S.exportSpecs`, `ExportSpec.internal/external`: what a library definition declares to export;
* `Loader`: an ABSTRACT loader over a finite dependency graph that has exactly the control
  structure of `Interp.evalImportSet (.direct ..)` / `getLibrary` / `evalLibraryDef`:
  in-progress mark, cache of instances, dependencies in order, first fault wins, mark removed on
  every path; together with the graph vocabulary (`Reachable`, `HasCycleFrom`, `Loadable`) and a
  fuel-free relational description of the depth-first traversal (`Dfs`).

The model of the Rust code is `RuschmModel/Interp.lean`; the theorems are in
`RuschmProofs/C12.lean`, `C13.lean`, `C14.lean`.
-/
import RuschmModel.Interp

namespace Ruschm

/-! ## C12: the import-set algebra -/

namespace S

/-- a list of bindings, as an import set produces them -/
abbrev Bindings := List (String × Value)

/-- the name a `rename` table sends `n` to: SIMULTANEOUS renaming — every name is looked up in
the table once, with its ORIGINAL spelling; a later pair for the same name wins (the table is a
map built from the pairs); a name the table does not mention is kept -/
def renameTarget (pairs : List (String × String)) (n : String) : String :=
  match pairs.reverse.lookup n with
  | some m => m
  | none => n

/-- exchange `a` and `b` -/
def swapName (a b n : String) : String := if n = a then b else if n = b then a else n

/-- The meaning of an import-set term, given the export list of every library. -/
def denote : ImportSet → (LibName → Option Bindings) → Option Bindings
  | .direct name _, ex => ex name
  | .only s ids, ex => (denote s ex).map (fun bs => bs.filter (fun b => ids.contains b.1))
  | .except s ids, ex => (denote s ex).map (fun bs => bs.filter (fun b => !ids.contains b.1))
  | .prefix s p, ex => (denote s ex).map (fun bs => bs.map (fun b => (p ++ b.1, b.2)))
  | .rename s pairs, ex => (denote s ex).map (fun bs => bs.map (fun b => (renameTarget pairs b.1, b.2)))

/-- the libraries an import-set term names -/
def leaves : ImportSet → List LibName
  | .direct name _ => [name]
  | .only s _ | .except s _ | .prefix s _ | .rename s _ => leaves s

/-- the library an import-set term names (a term has exactly one `direct` leaf) -/
def leaf : ImportSet → LibName
  | .direct name _ => name
  | .only s _ | .except s _ | .prefix s _ | .rename s _ => leaf s

/-- the source location of the leaf -/
def leafLoc : ImportSet → Loc
  | .direct _ loc => loc
  | .only s _ | .except s _ | .prefix s _ | .rename s _ => leafLoc s

/-- the number of operators around the leaf -/
def depth : ImportSet → Nat
  | .direct _ _ => 0
  | .only s _ | .except s _ | .prefix s _ | .rename s _ => depth s + 1

/-- what the operators of an import-set term do to the export list of its library -/
def transform : ImportSet → Bindings → Bindings
  | .direct _ _, bs => bs
  | .only s ids, bs => (transform s bs).filter (fun b => ids.contains b.1)
  | .except s ids, bs => (transform s bs).filter (fun b => !ids.contains b.1)
  | .prefix s p, bs => (transform s bs).map (fun b => (p ++ b.1, b.2))
  | .rename s pairs, bs => (transform s bs).map (fun b => (renameTarget pairs b.1, b.2))

/-- fuel that certainly suffices to evaluate the term over instantiated libraries -/
def fuelNeeded : ImportSet → Nat
  | .direct _ _ => 2
  | .only s _ | .except s _ | .prefix s _ | .rename s _ => fuelNeeded s + 1

/-- A binding list as a finite map: the LAST binding of a name wins (the list is poured into a
`HashMap` front to back). -/
def asMap (bs : Bindings) (x : String) : Option Value := bs.reverse.lookup x

/-- no two bindings share a name -/
def Admissible (bs : Bindings) : Prop := (bs.map Prod.fst).Nodup

/-- Some binding differs (by `eq`) from the binding of the same name that precedes it: what makes
an import declaration an error ("one name imported with two different bindings"). -/
def Clash (eq : Value → Value → Bool) (bs : Bindings) : Prop :=
  ∃ pre x w post v, bs = pre ++ (x, w) :: post ∧ asMap pre x = some v ∧ eq v w = false

/-- any two bindings of one name are `eq` (earlier against later) -/
def Compatible (eq : Value → Value → Bool) (bs : Bindings) : Prop :=
  bs.Pairwise (fun p q => p.1 = q.1 → eq p.2 q.2 = true)

/-- several import sets in one declaration: their bindings one after the other (so, as a map,
the union in which a later set overrides an earlier one) -/
def denoteAll : List ImportSet → (LibName → Option Bindings) → Option Bindings
  | [], _ => some []
  | s :: rest, ex =>
    match denote s ex, denoteAll rest ex with
    | some a, some b => some (a ++ b)
    | _, _ => none

/-- the same bindings in another order (or both undefined) -/
def PermOpt : Option Bindings → Option Bindings → Prop
  | some a, some b => a.Perm b
  | none, none => True
  | _, _ => False

/-- `ex'` gives every library the export list `ex` gives it, in some other order: what a different
iteration order of the `HashMap`s holding the exports amounts to -/
def PermExports (ex ex' : LibName → Option Bindings) : Prop := ∀ n, PermOpt (ex n) (ex' n)

/-- every set of the declaration is admissible -/
def AdmissibleAll (sets : List ImportSet) (ex : LibName → Option Bindings) : Prop :=
  ∀ s ∈ sets, ∀ bs, denote s ex = some bs → Admissible bs

/-- override: `m` where it is defined, `old` elsewhere -/
def override (m old : String → Option Value) (x : String) : Option Value :=
  match m x with
  | some v => some v
  | none => old x

end S

namespace Interp

/-- The export list of a library that can be had without evaluating anything: the cached
instance, or else what a registered NATIVE factory returns. -/
def exportsOf (st : State) (n : LibName) : Option S.Bindings :=
  match libLookup st.instances n with
  | some d => some d
  | none =>
    match libLookup st.factories n with
    | some (.native d) => some d
    | _ => none

/-- the comparison `eval_import` uses for two bindings of one name: the derived `PartialEq` of
`Value` (numbers by `=`, pairs and vectors by content, procedures by their text) -/
def importEq (st : State) (v w : Value) : Bool := Prim.derivedEq st.store 100000 v w

/-- `st'` is `st` except for the instance cache -/
def SameButInstances (st st' : State) : Prop := st' = { st with instances := st'.instances }

end Interp

/-! ## C13: what a library declares to export -/

/-- the name inside the library -/
def ExportSpec.internal : ExportSpec → String
  | .direct n _ => n
  | .rename a _ _ => a

/-- the name importers see -/
def ExportSpec.external : ExportSpec → String
  | .direct n _ => n
  | .rename _ b _ => b

namespace S

/-- all export specs of a library definition, in order -/
def exportSpecs : List LibDecl → List ExportSpec
  | [] => []
  | .export specs :: ds => specs ++ exportSpecs ds
  | _ :: ds => exportSpecs ds

/-- the export spec that decides what the external name `x` is bound to: the last one -/
def exportFor (specs : List ExportSpec) (x : String) : Option ExportSpec :=
  specs.reverse.find? (fun sp => sp.external == x)

end S

/-! ## C14: the abstract loader -/

namespace Loader

abbrev Name := Nat

/-- what stands behind a library name -/
inductive Node where
  | healthy (deps : List Name)   -- imports `deps` in order, then its body evaluates
  | faulty (deps : List Name)    -- imports `deps` in order, then its body (or an export) faults
  | missing                      -- no factory, no file
  | unreadable                   -- the file cannot be read as text
  | malformed                    -- the file does not parse / has no such `define-library`
  deriving DecidableEq, Repr, Inhabited

def Node.deps : Node → List Name
  | .healthy ds | .faulty ds => ds
  | _ => []

/-- a finite dependency graph: the listed names; every other name is `missing` -/
abbrev Graph := List (Name × Node)

def Graph.node (g : Graph) (x : Name) : Node :=
  match g.lookup x with
  | some n => n
  | none => .missing

inductive Outcome where
  | ok | cyclic | notFound | io | syntax | fault
  | fuel      -- the loader ran out of fuel: never happens with `|g| + 1` (`load_terminates`)
  deriving DecidableEq, Repr, Inhabited

/-- `cache` = `State.instances` (names only), `inProgress` = `State.inProgress` -/
structure LState where
  cache : List Name := []
  inProgress : List Name := []
  deriving DecidableEq, Repr, Inhabited

/-- dependencies in order through the loader `ld`, stopping at the first that is not `ok`
(`eval_import` / the `?` in the declaration loop of `eval_library_definition`) -/
def loadDeps (ld : LState → Name → Outcome × LState) (st : LState) : List Name → Outcome × LState
  | [] => (.ok, st)
  | d :: ds =>
    match ld st d with
    | (.ok, st') => loadDeps ld st' ds
    | (e, st') => (e, st')

/-- `eval_import_set (Direct name)`: in progress → cyclic; otherwise mark, `get_library`
(cached instance, or find the factory, import the dependencies, evaluate the body, cache the
instance), unmark whatever happened. -/
def load : Nat → Graph → LState → Name → Outcome × LState
  | 0, _, st, _ => (.fuel, st)
  | fuel + 1, g, st, x =>
    if st.inProgress.contains x then (.cyclic, st) else
    let st1 : LState := { st with inProgress := x :: st.inProgress }
    let (r, st2) : Outcome × LState :=
      if st1.cache.contains x then (.ok, st1) else
      match g.node x with
      | .missing => (.notFound, st1)
      | .unreadable => (.io, st1)
      | .malformed => (.syntax, st1)
      | .healthy deps =>
        match loadDeps (load fuel g) st1 deps with
        | (.ok, st) => (.ok, { st with cache := x :: st.cache })
        | (e, st) => (e, st)
      | .faulty deps =>
        match loadDeps (load fuel g) st1 deps with
        | (.ok, st) => (.fault, st)
        | (e, st) => (e, st)
    (r, { st2 with inProgress := st2.inProgress.erase x })

/-- the state after a history of import attempts (each with its own fuel), whatever their outcomes -/
def attempts (g : Graph) (st : LState) : List (Nat × Name) → LState
  | [] => st
  | (fuel, x) :: rest => attempts g (load fuel g st x).2 rest

/-- `y` is reachable from `x` along dependency edges (zero or more) -/
inductive Reachable (g : Graph) : Name → Name → Prop where
  | refl (x : Name) : Reachable g x x
  | step {x y z : Name} : y ∈ (g.node x).deps → Reachable g y z → Reachable g x z

/-- a dependency cycle can be reached from `x` -/
def HasCycleFrom (g : Graph) (x : Name) : Prop :=
  ∃ y z, Reachable g x y ∧ z ∈ (g.node y).deps ∧ Reachable g z y

/-- `x` can be loaded from scratch: it is healthy and so is, recursively, every dependency
(an inductive, hence well-founded, notion: no cycle below `x`) -/
inductive Loadable (g : Graph) : Name → Prop where
  | mk {x : Name} {deps : List Name} : g.node x = .healthy deps → (∀ d ∈ deps, Loadable g d) → Loadable g x

/-- what a sound cache looks like between two top-level loads: only libraries that load from
scratch, together with everything they depend on, and nothing that is being loaded -/
structure CacheOK (g : Graph) (st : LState) : Prop where
  loadable : ∀ y ∈ st.cache, Loadable g y
  closed : ∀ y ∈ st.cache, ∀ d ∈ (g.node y).deps, d ∈ st.cache
  disjoint : ∀ y ∈ st.cache, y ∉ st.inProgress

mutual
/-- The depth-first traversal, without fuel: `Dfs g cache path x r cache'` — visiting `x` with
the instances `cache` and the nodes `path` in progress has outcome `r` and leaves `cache'`. -/
inductive Dfs (g : Graph) : List Name → List Name → Name → Outcome → List Name → Prop where
  | cyclic {cache path x} : x ∈ path → Dfs g cache path x .cyclic cache
  | cached {cache path x} : x ∉ path → x ∈ cache → Dfs g cache path x .ok cache
  | missing {cache path x} : x ∉ path → x ∉ cache → g.node x = .missing → Dfs g cache path x .notFound cache
  | unreadable {cache path x} : x ∉ path → x ∉ cache → g.node x = .unreadable → Dfs g cache path x .io cache
  | malformed {cache path x} : x ∉ path → x ∉ cache → g.node x = .malformed → Dfs g cache path x .syntax cache
  | healthy {cache path x deps cache'} : x ∉ path → x ∉ cache → g.node x = .healthy deps →
      DfsList g cache (x :: path) deps .ok cache' → Dfs g cache path x .ok (x :: cache')
  | healthyErr {cache path x deps e cache'} : x ∉ path → x ∉ cache → g.node x = .healthy deps →
      DfsList g cache (x :: path) deps e cache' → e ≠ .ok → Dfs g cache path x e cache'
  | faulty {cache path x deps cache'} : x ∉ path → x ∉ cache → g.node x = .faulty deps →
      DfsList g cache (x :: path) deps .ok cache' → Dfs g cache path x .fault cache'
  | faultyErr {cache path x deps e cache'} : x ∉ path → x ∉ cache → g.node x = .faulty deps →
      DfsList g cache (x :: path) deps e cache' → e ≠ .ok → Dfs g cache path x e cache'
/-- the dependencies in order; the FIRST outcome that is not `ok` is the outcome -/
inductive DfsList (g : Graph) : List Name → List Name → List Name → Outcome → List Name → Prop where
  | nil {cache path} : DfsList g cache path [] .ok cache
  | cons {cache path d ds cache' r cache''} : Dfs g cache path d .ok cache' →
      DfsList g cache' path ds r cache'' → DfsList g cache path (d :: ds) r cache''
  | stop {cache path d ds e cache'} : Dfs g cache path d e cache' → e ≠ .ok →
      DfsList g cache path (d :: ds) e cache'
end

end Loader
end Ruschm

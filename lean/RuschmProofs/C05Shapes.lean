/-
Property C05 (shape part) — the bundled derived forms expand to the expected core forms.

Every theorem here is about the GENERATED constant `Gen.grammarData` (regenerated from
`/repo/src/parser/grammar.sld` on every run): an edit of `grammar.sld` re-opens these proofs.

`expand1 fuel kw use` is one expansion step of the derived form `kw` on `use`, the form WITHOUT
its keyword (what `Transformer::transform` receives), located at the macro use. Nodes built from
the template carry `use.loc`; the user's sub-forms are kept as they are.
-/
import RuschmProofs.MacroShapes

set_option linter.unusedSimpArgs false

namespace Ruschm.C05
open Ruschm Ruschm.Macro

/-- the keywords of the bundled derived forms -/
def keywords : List String := ["begin", "let", "let*", "cond", "case", "and", "or", "when", "unless"]

/-- every form of the bundled grammar is a `(define-syntax kw (syntax-rules …))` whose rules the
model of `transform_transformer` accepts, the keywords are exactly the nine derived forms, and
`grammarRules` finds each of them -/
theorem grammar_well_formed :
    (Gen.grammarData.map fun d => (defineSyntaxOf d).map (·.1)) = keywords.map some ∧
    (Gen.grammarData.all fun d =>
      match defineSyntaxOf d with
      | some (kw, spec) => (toRules kw spec).toOption.isSome
      | none => false) = true ∧
    (keywords.all fun kw => (grammarRules kw).isSome) = true := by
  refine ⟨by decide, by decide, by decide⟩

/-- every bundled rule is in the supported class of C04 -/
theorem grammar_supported :
    (keywords.all fun kw =>
      match grammarRules kw with
      | some r => SupportedRules r
      | none => false) = true := by
  decide

/-- number of rules per form -/
theorem grammar_rule_counts :
    keywords.map (fun kw => (grammarRules kw).map (·.rules.length)) =
      [some 1, some 2, some 3, some 7, some 7, some 3, some 3, some 1, some 1] := by
  decide

/-! ## Notation for the expected core data

Nodes built from a template are located at the macro use: a list `(x₁ … xₙ)` built by a template
is `Datum.ofList loc [x₁, …, xₙ]` (the head cell carries `loc`, the rest of the spine `none`), a
symbol is `Datum.sym s loc`. The user's sub-forms appear unchanged. -/

/-- the list `(x₁ … xₙ)` as a template builds it at a use located at `loc` -/
abbrev L (loc : Loc) (xs : List Datum) : Datum := Datum.ofList loc xs
/-- the symbol `s` as a template builds it -/
abbrev S (loc : Loc) (s : String) : Datum := Datum.sym s loc

/-- compute the declarative matcher on a symbolic use -/
syntax "spec_match" ("[" Lean.Parser.Tactic.simpLemma,* "]")? : tactic
macro_rules
  | `(tactic| spec_match) =>
    `(tactic| simp (disch := decide) [specMatchList_nil_eq, specMatchList_ell,
        specMatchList_cons_cons, specMatchList_cons_nil, specMatch_var, specMatch_lit, specRun_var,
        *])
  | `(tactic| spec_match [$ts,*]) =>
    `(tactic| simp (disch := decide) [specMatchList_nil_eq, specMatchList_ell,
        specMatchList_cons_cons, specMatchList_cons_nil, specMatch_var, specMatch_lit, specRun_var,
        $ts,*, *])

/-- compute the declarative instantiation -/
macro "spec_inst" : tactic =>
  `(tactic| simp [specInst, specInstAt, specElemsAt, copies, seqLens, Tmpl.vars, Tmpl.varsElems,
      minLen, List.lookup, range_map_getD_map, range_map_getD_pair])

/-! ## when, unless -/

/-- `(when test result₁ …)` ⟹ `(if test (begin result₁ …))`, for one or more results -/
theorem when_shape {fuel use test results} (hu : IsList use (test :: results))
    (hne : results ≠ []) (hf : matchFuel use ≤ fuel) :
    expand1 fuel "when" use =
      .ok (L use.loc [S use.loc "if", test, L use.loc (S use.loc "begin" :: results)]) := by
  rw [expand1_eq_spec when_rules (by rfl) (by rfl) hf]
  have hm : specMatch [] (pl [pv "test", pv "result", pe]) use =
      some [("test", [test]), ("result", results)] := by
    rw [specMatch_ofList_isList hu (by rfl)]; spec_match
  simp only [whenRules]
  rw [specTransform_cons_some hm]
  spec_inst

/-- `(unless test result₁ …)` ⟹ `(if (not test) (begin result₁ …))` -/
theorem unless_shape {fuel use test results} (hu : IsList use (test :: results))
    (hne : results ≠ []) (hf : matchFuel use ≤ fuel) :
    expand1 fuel "unless" use =
      .ok (L use.loc [S use.loc "if", L use.loc [S use.loc "not", test],
        L use.loc (S use.loc "begin" :: results)]) := by
  rw [expand1_eq_spec unless_rules (by rfl) (by rfl) hf]
  have hm : specMatch [] (pl [pv "test", pv "result", pe]) use =
      some [("test", [test]), ("result", results)] := by
    rw [specMatch_ofList_isList hu (by rfl)]; spec_match
  simp only [unlessRules]
  rw [specTransform_cons_some hm]
  spec_inst

/-! ## begin -/

/-- `(begin e₁ …)` ⟹ `((lambda () e₁ …))`, for one or more forms -/
theorem begin_shape {fuel use es} (hu : IsList use es) (hne : es ≠ [])
    (hf : matchFuel use ≤ fuel) :
    expand1 fuel "begin" use =
      .ok (L use.loc [L use.loc (S use.loc "lambda" :: L use.loc [] :: es)]) := by
  rw [expand1_eq_spec begin_rules (by rfl) (by rfl) hf]
  have hm : specMatch [] (pl [pv "exp1", pe]) use = some [("exp1", es)] := by
    rw [specMatch_ofList_isList hu (by rfl)]; spec_match
  simp only [beginRules]
  rw [specTransform_cons_some hm]
  spec_inst

/-! ## and, or -/

/-- `(and)` ⟹ `#t` -/
theorem and_empty_shape {fuel use} (hu : IsList use []) (hf : matchFuel use ≤ fuel) :
    expand1 fuel "and" use = .ok (.prim (.bool true) use.loc) := by
  rw [expand1_eq_spec and_rules (by rfl) (by rfl) hf]
  have hm : specMatch [] (pl []) use = some [] := by
    rw [specMatch_ofList_isList hu (by rfl)]; spec_match
  simp only [andRules]
  rw [specTransform_cons_some hm]
  spec_inst

/-- `(and test)` ⟹ `test` -/
theorem and_one_shape {fuel use test} (hu : IsList use [test]) (hf : matchFuel use ≤ fuel) :
    expand1 fuel "and" use = .ok test := by
  rw [expand1_eq_spec and_rules (by rfl) (by rfl) hf]
  have h1 : specMatch [] (pl []) use = none := by
    rw [specMatch_ofList_isList hu (by rfl)]; spec_match
  have hm : specMatch [] (pl [pv "test"]) use = some [("test", [test])] := by
    rw [specMatch_ofList_isList hu (by rfl)]; spec_match
  simp only [andRules]
  rw [specTransform_cons_none h1, specTransform_cons_some hm]
  spec_inst

/-- `(and test₁ test₂ …)` ⟹ `(if test₁ (and test₂ …) #f)`, for two or more tests -/
theorem and_more_shape {fuel use test tests} (hu : IsList use (test :: tests)) (hne : tests ≠ [])
    (hf : matchFuel use ≤ fuel) :
    expand1 fuel "and" use =
      .ok (L use.loc [S use.loc "if", test, L use.loc (S use.loc "and" :: tests),
        .prim (.bool false) use.loc]) := by
  rw [expand1_eq_spec and_rules (by rfl) (by rfl) hf]
  have h1 : specMatch [] (pl []) use = none := by
    rw [specMatch_ofList_isList hu (by rfl)]; spec_match
  have h2 : specMatch [] (pl [pv "test"]) use = none := by
    rw [specMatch_ofList_isList hu (by rfl)]; spec_match
  have hm : specMatch [] (pl [pv "test1", pv "test2", pe]) use =
      some [("test1", [test]), ("test2", tests)] := by
    rw [specMatch_ofList_isList hu (by rfl)]; spec_match
  simp only [andRules]
  rw [specTransform_cons_none h1, specTransform_cons_none h2, specTransform_cons_some hm]
  spec_inst

/-- `(or)` ⟹ `#f` -/
theorem or_empty_shape {fuel use} (hu : IsList use []) (hf : matchFuel use ≤ fuel) :
    expand1 fuel "or" use = .ok (.prim (.bool false) use.loc) := by
  rw [expand1_eq_spec or_rules (by rfl) (by rfl) hf]
  have hm : specMatch [] (pl []) use = some [] := by
    rw [specMatch_ofList_isList hu (by rfl)]; spec_match
  simp only [orRules]
  rw [specTransform_cons_some hm]
  spec_inst

/-- `(or test)` ⟹ `test` -/
theorem or_one_shape {fuel use test} (hu : IsList use [test]) (hf : matchFuel use ≤ fuel) :
    expand1 fuel "or" use = .ok test := by
  rw [expand1_eq_spec or_rules (by rfl) (by rfl) hf]
  have h1 : specMatch [] (pl []) use = none := by
    rw [specMatch_ofList_isList hu (by rfl)]; spec_match
  have hm : specMatch [] (pl [pv "test"]) use = some [("test", [test])] := by
    rw [specMatch_ofList_isList hu (by rfl)]; spec_match
  simp only [orRules]
  rw [specTransform_cons_none h1, specTransform_cons_some hm]
  spec_inst

/-- `(or test₁ test₂ …)` ⟹ `(let ((x test₁)) (if x x (or test₂ …)))`, for two or more tests.
(The template variable `x` is not renamed: the expander is not hygienic.) -/
theorem or_more_shape {fuel use test tests} (hu : IsList use (test :: tests)) (hne : tests ≠ [])
    (hf : matchFuel use ≤ fuel) :
    expand1 fuel "or" use =
      .ok (L use.loc [S use.loc "let", L use.loc [L use.loc [S use.loc "x", test]],
        L use.loc [S use.loc "if", S use.loc "x", S use.loc "x",
          L use.loc (S use.loc "or" :: tests)]]) := by
  rw [expand1_eq_spec or_rules (by rfl) (by rfl) hf]
  have h1 : specMatch [] (pl []) use = none := by
    rw [specMatch_ofList_isList hu (by rfl)]; spec_match
  have h2 : specMatch [] (pl [pv "test"]) use = none := by
    rw [specMatch_ofList_isList hu (by rfl)]; spec_match
  have hm : specMatch [] (pl [pv "test1", pv "test2", pe]) use =
      some [("test1", [test]), ("test2", tests)] := by
    rw [specMatch_ofList_isList hu (by rfl)]; spec_match
  simp only [orRules]
  rw [specTransform_cons_none h1, specTransform_cons_none h2, specTransform_cons_some hm]
  spec_inst

/-! ## let -/

/-- `(let () body₁ …)` ⟹ `((lambda () body₁ …))` -/
theorem let_empty_shape {fuel use b bodies} (hu : IsList use (b :: bodies)) (hb : IsList b [])
    (hne : bodies ≠ []) (hf : matchFuel use ≤ fuel) :
    expand1 fuel "let" use =
      .ok (L use.loc [L use.loc (S use.loc "lambda" :: L use.loc [] :: bodies)]) := by
  rw [expand1_eq_spec let_rules (by rfl) (by rfl) hf]
  have hm : specMatch [] (pl [pl [], pv "body", pe]) use = some [("body", bodies)] := by
    rw [specMatch_ofList_isList hu (by rfl)]
    spec_match [specMatch_ofList_isList hb]
  simp only [letRules]
  rw [specTransform_cons_some hm]
  spec_inst

/-- `(let ((name₁ val₁) …) body₁ …)` ⟹ `((lambda (name₁ …) body₁ …) val₁ …)`, for one or more
bindings `nvs = [(name₁, val₁), …]` and one or more body forms -/
theorem let_shape {fuel use bs bds nvs bodies} (hu : IsList use (bs :: bodies))
    (hbs : IsList bs bds) (hp : IsPairs bds nvs) (hnv : nvs ≠ []) (hne : bodies ≠ [])
    (hf : matchFuel use ≤ fuel) :
    expand1 fuel "let" use =
      .ok (L use.loc (L use.loc (S use.loc "lambda" :: L use.loc (nvs.map (·.1)) :: bodies) ::
        nvs.map (·.2))) := by
  rw [expand1_eq_spec let_rules (by rfl) (by rfl) hf]
  have hbne : bds ≠ [] := fun h => hnv (hp.nil_iff.1 h)
  have h1 : specMatch [] (pl [pl [], pv "body", pe]) use = none := by
    rw [specMatch_ofList_isList hu (by rfl)]
    spec_match [specMatch_ofList_isList hbs]
  have hm : specMatch [] (pl [pl [pl [pv "name", pv "val"], pe], pv "body", pe]) use =
      some [("name", nvs.map (·.1)), ("val", nvs.map (·.2)), ("body", bodies)] := by
    rw [specMatch_ofList_isList hu (by rfl)]
    spec_match [specMatch_ofList_isList hbs, specMatchList_ell, specRun_pair2 _ _ _ hp]
  simp only [letRules]
  rw [specTransform_cons_none h1, specTransform_cons_some hm]
  spec_inst

/-! ## let* -/

/-- `(let* () body₁ …)` ⟹ `(let () body₁ …)` -/
theorem letstar_empty_shape {fuel use b bodies} (hu : IsList use (b :: bodies)) (hb : IsList b [])
    (hne : bodies ≠ []) (hf : matchFuel use ≤ fuel) :
    expand1 fuel "let*" use = .ok (L use.loc (S use.loc "let" :: L use.loc [] :: bodies)) := by
  rw [expand1_eq_spec letstar_rules (by rfl) (by rfl) hf]
  have hm : specMatch [] (pl [pl [], pv "body", pe]) use = some [("body", bodies)] := by
    rw [specMatch_ofList_isList hu (by rfl)]
    spec_match [specMatch_ofList_isList hb]
  simp only [letstarRules]
  rw [specTransform_cons_some hm]
  spec_inst

/-- `(let* ((name val)) body₁ …)` ⟹ `(let ((name val)) body₁ …)` -/
theorem letstar_one_shape {fuel use bs b n v bodies} (hu : IsList use (bs :: bodies))
    (hbs : IsList bs [b]) (hb : IsList b [n, v]) (hne : bodies ≠ [])
    (hf : matchFuel use ≤ fuel) :
    expand1 fuel "let*" use =
      .ok (L use.loc (S use.loc "let" :: L use.loc [L use.loc [n, v]] :: bodies)) := by
  rw [expand1_eq_spec letstar_rules (by rfl) (by rfl) hf]
  have h1 : specMatch [] (pl [pl [], pv "body", pe]) use = none := by
    rw [specMatch_ofList_isList hu (by rfl)]
    spec_match [specMatch_ofList_isList hbs]
  have hm : specMatch [] (pl [pl [pl [pv "name", pv "val"]], pv "body", pe]) use =
      some [("name", [n]), ("val", [v]), ("body", bodies)] := by
    rw [specMatch_ofList_isList hu (by rfl)]
    spec_match [specMatch_ofList_isList hbs, specMatch_ofList_isList hb]
  simp only [letstarRules]
  rw [specTransform_cons_none h1, specTransform_cons_some hm]
  spec_inst

/-- `(let* ((name₁ val₁) (name₂ val₂) …) body₁ …)` ⟹
`(let ((name₁ val₁)) (let* ((name₂ val₂) …) body₁ …))`, for two or more bindings -/
theorem letstar_more_shape {fuel use bs b n v bds nvs bodies} (hu : IsList use (bs :: bodies))
    (hbs : IsList bs (b :: bds)) (hb : IsList b [n, v]) (hp : IsPairs bds nvs) (hnv : nvs ≠ [])
    (hne : bodies ≠ []) (hf : matchFuel use ≤ fuel) :
    expand1 fuel "let*" use =
      .ok (L use.loc [S use.loc "let", L use.loc [L use.loc [n, v]],
        L use.loc (S use.loc "let*" :: L use.loc (nvs.map fun nv => L use.loc [nv.1, nv.2]) ::
          bodies)]) := by
  rw [expand1_eq_spec letstar_rules (by rfl) (by rfl) hf]
  have hbne : bds ≠ [] := fun h => hnv (hp.nil_iff.1 h)
  have h1 : specMatch [] (pl [pl [], pv "body", pe]) use = none := by
    rw [specMatch_ofList_isList hu (by rfl)]
    spec_match [specMatch_ofList_isList hbs]
  have h2 : specMatch [] (pl [pl [pl [pv "name", pv "val"]], pv "body", pe]) use = none := by
    rw [specMatch_ofList_isList hu (by rfl)]
    spec_match [specMatch_ofList_isList hbs, specMatch_ofList_isList hb]
  have hm : specMatch []
      (pl [pl [pl [pv "name1", pv "val1"], pl [pv "name2", pv "val2"], pe], pv "body", pe]) use =
      some [("name1", [n]), ("val1", [v]), ("name2", nvs.map (·.1)), ("val2", nvs.map (·.2)),
        ("body", bodies)] := by
    rw [specMatch_ofList_isList hu (by rfl)]
    spec_match [specMatch_ofList_isList hbs, specMatch_ofList_isList hb,  specMatchList_cons_cons, specMatchList_ell, specRun_pair2 _ _ _ hp]
  simp only [letstarRules]
  rw [specTransform_cons_none h1, specTransform_cons_none h2, specTransform_cons_some hm]
  spec_inst

/-! ## cond

The literals are `else` and `=>`. `isSym s d` says that the datum `d` is the symbol `s`. The side
conditions are exactly what the textual order of the seven rules forces. -/

/-- `(cond (else result₁ …))` ⟹ `(begin result₁ …)` -/
theorem cond_else_shape {fuel use c e results} (hu : IsList use [c]) (hc : IsList c (e :: results))
    (he : isSym "else" e = true) (hne : results ≠ []) (hf : matchFuel use ≤ fuel) :
    expand1 fuel "cond" use = .ok (L use.loc (S use.loc "begin" :: results)) := by
  rw [expand1_eq_spec cond_rules (by rfl) (by rfl) hf]
  have hm : specMatch ["else", "=>"] (pl [pl [pv "else", pv "result", pe]]) use =
      some [("result", results)] := by
    rw [specMatch_ofList_isList hu (by rfl)]; spec_match [specMatch_ofList_isList hc]
  simp only [condRules]
  rw [specTransform_cons_some hm]
  spec_inst

/-- `(cond (test => receiver))` ⟹ `(let ((temp test)) (if temp (receiver temp)))`, provided the
test is not the symbol `else` (else the first rule takes the clause: `=> receiver` would be its
results) -/
theorem cond_arrow_shape {fuel use c test a r} (hu : IsList use [c]) (hc : IsList c [test, a, r])
    (ha : isSym "=>" a = true) (hte : isSym "else" test = false) (hf : matchFuel use ≤ fuel) :
    expand1 fuel "cond" use =
      .ok (L use.loc [S use.loc "let", L use.loc [L use.loc [S use.loc "temp", test]],
        L use.loc [S use.loc "if", S use.loc "temp", L use.loc [r, S use.loc "temp"]]]) := by
  rw [expand1_eq_spec cond_rules (by rfl) (by rfl) hf]
  have h1 : specMatch ["else", "=>"] (pl [pl [pv "else", pv "result", pe]]) use = none := by
    rw [specMatch_ofList_isList hu (by rfl)]; spec_match [specMatch_ofList_isList hc]
  have hm : specMatch ["else", "=>"] (pl [pl [pv "test", pv "=>", pv "result"]]) use =
      some [("test", [test]), ("result", [r])] := by
    rw [specMatch_ofList_isList hu (by rfl)]; spec_match [specMatch_ofList_isList hc]
  simp only [condRules]
  rw [specTransform_cons_none h1, specTransform_cons_some hm]
  spec_inst

/-- `(cond (test => receiver) clause₁ …)` ⟹
`(let ((temp test)) (if temp (receiver temp) (cond clause₁ …)))`, for one or more further clauses
(no condition on `test`: the `else` rule only takes a sole clause) -/
theorem cond_arrow_more_shape {fuel use c test a r clauses} (hu : IsList use (c :: clauses))
    (hc : IsList c [test, a, r]) (ha : isSym "=>" a = true) (hcl : clauses ≠ [])
    (hf : matchFuel use ≤ fuel) :
    expand1 fuel "cond" use =
      .ok (L use.loc [S use.loc "let", L use.loc [L use.loc [S use.loc "temp", test]],
        L use.loc [S use.loc "if", S use.loc "temp", L use.loc [r, S use.loc "temp"],
          L use.loc (S use.loc "cond" :: clauses)]]) := by
  rw [expand1_eq_spec cond_rules (by rfl) (by rfl) hf]
  have h1 : specMatch ["else", "=>"] (pl [pl [pv "else", pv "result", pe]]) use = none := by
    rw [specMatch_ofList_isList hu (by rfl)]; spec_match [specMatch_ofList_isList hc]
  have h2 : specMatch ["else", "=>"] (pl [pl [pv "test", pv "=>", pv "result"]]) use = none := by
    rw [specMatch_ofList_isList hu (by rfl)]; spec_match [specMatch_ofList_isList hc]
  have hm : specMatch ["else", "=>"] (pl [pl [pv "test", pv "=>", pv "result"], pv "clause", pe]) use =
      some [("test", [test]), ("result", [r]), ("clause", clauses)] := by
    rw [specMatch_ofList_isList hu (by rfl)]; spec_match [specMatch_ofList_isList hc]
  simp only [condRules]
  rw [specTransform_cons_none h1, specTransform_cons_none h2, specTransform_cons_some hm]
  spec_inst

/-- `(cond (test))` ⟹ `test` (whatever `test` is, even the symbol `else`: `(else result ...)`
needs at least one result) -/
theorem cond_test_shape {fuel use c test} (hu : IsList use [c]) (hc : IsList c [test])
    (hf : matchFuel use ≤ fuel) :
    expand1 fuel "cond" use = .ok test := by
  rw [expand1_eq_spec cond_rules (by rfl) (by rfl) hf]
  have h1 : specMatch ["else", "=>"] (pl [pl [pv "else", pv "result", pe]]) use = none := by
    rw [specMatch_ofList_isList hu (by rfl)]; spec_match [specMatch_ofList_isList hc]
  have h2 : specMatch ["else", "=>"] (pl [pl [pv "test", pv "=>", pv "result"]]) use = none := by
    rw [specMatch_ofList_isList hu (by rfl)]; spec_match [specMatch_ofList_isList hc]
  have h3 : specMatch ["else", "=>"] (pl [pl [pv "test", pv "=>", pv "result"], pv "clause", pe]) use = none := by
    rw [specMatch_ofList_isList hu (by rfl)]; spec_match [specMatch_ofList_isList hc]
  have hm : specMatch ["else", "=>"] (pl [pl [pv "test"]]) use =
      some [("test", [test])] := by
    rw [specMatch_ofList_isList hu (by rfl)]; spec_match [specMatch_ofList_isList hc]
  simp only [condRules]
  rw [specTransform_cons_none h1, specTransform_cons_none h2, specTransform_cons_none h3, specTransform_cons_some hm]
  spec_inst

/-- `(cond (test) clause₁ …)` ⟹ `(let ((temp test)) (if temp temp (cond clause₁ …)))` -/
theorem cond_test_more_shape {fuel use c test clauses} (hu : IsList use (c :: clauses))
    (hc : IsList c [test]) (hcl : clauses ≠ []) (hf : matchFuel use ≤ fuel) :
    expand1 fuel "cond" use =
      .ok (L use.loc [S use.loc "let", L use.loc [L use.loc [S use.loc "temp", test]],
        L use.loc [S use.loc "if", S use.loc "temp", S use.loc "temp",
          L use.loc (S use.loc "cond" :: clauses)]]) := by
  rw [expand1_eq_spec cond_rules (by rfl) (by rfl) hf]
  have h1 : specMatch ["else", "=>"] (pl [pl [pv "else", pv "result", pe]]) use = none := by
    rw [specMatch_ofList_isList hu (by rfl)]; spec_match [specMatch_ofList_isList hc]
  have h2 : specMatch ["else", "=>"] (pl [pl [pv "test", pv "=>", pv "result"]]) use = none := by
    rw [specMatch_ofList_isList hu (by rfl)]; spec_match [specMatch_ofList_isList hc]
  have h3 : specMatch ["else", "=>"] (pl [pl [pv "test", pv "=>", pv "result"], pv "clause", pe]) use = none := by
    rw [specMatch_ofList_isList hu (by rfl)]; spec_match [specMatch_ofList_isList hc]
  have h4 : specMatch ["else", "=>"] (pl [pl [pv "test"]]) use = none := by
    rw [specMatch_ofList_isList hu (by rfl)]; spec_match [specMatch_ofList_isList hc]
  have hm : specMatch ["else", "=>"] (pl [pl [pv "test"], pv "clause", pe]) use =
      some [("test", [test]), ("clause", clauses)] := by
    rw [specMatch_ofList_isList hu (by rfl)]; spec_match [specMatch_ofList_isList hc]
  simp only [condRules]
  rw [specTransform_cons_none h1, specTransform_cons_none h2, specTransform_cons_none h3, specTransform_cons_none h4, specTransform_cons_some hm]
  spec_inst

/-- `(cond (test result₁ …))` ⟹ `(if test (begin result₁ …))`, for one or more results, provided
the test is not the symbol `else` and the results are not `=> receiver` -/
theorem cond_normal_shape {fuel use c test results} (hu : IsList use [c])
    (hc : IsList c (test :: results)) (hne : results ≠ []) (hte : isSym "else" test = false)
    (hna : ∀ a r, results = [a, r] → isSym "=>" a = false) (hf : matchFuel use ≤ fuel) :
    expand1 fuel "cond" use =
      .ok (L use.loc [S use.loc "if", test, L use.loc (S use.loc "begin" :: results)]) := by
  rw [expand1_eq_spec cond_rules (by rfl) (by rfl) hf]
  have h1 : specMatch ["else", "=>"] (pl [pl [pv "else", pv "result", pe]]) use = none := by
    rw [specMatch_ofList_isList hu (by rfl)]; spec_match [specMatch_ofList_isList hc]
  have h2 : specMatch ["else", "=>"] (pl [pl [pv "test", pv "=>", pv "result"]]) use = none := by
    rw [specMatch_ofList_isList hu (by rfl)]
    rcases results with _ | ⟨a, _ | ⟨r, _ | ⟨x, xs⟩⟩⟩
    · exact absurd rfl hne
    · spec_match [specMatch_ofList_isList hc]
    · have := hna a r rfl
      spec_match [specMatch_ofList_isList hc]
    · spec_match [specMatch_ofList_isList hc]
  have h3 : specMatch ["else", "=>"] (pl [pl [pv "test", pv "=>", pv "result"], pv "clause", pe]) use = none := by
    rw [specMatch_ofList_isList hu (by rfl)]; spec_match [specMatch_ofList_isList hc]
  have h4 : specMatch ["else", "=>"] (pl [pl [pv "test"]]) use = none := by
    rw [specMatch_ofList_isList hu (by rfl)]; spec_match [specMatch_ofList_isList hc]
  have h5 : specMatch ["else", "=>"] (pl [pl [pv "test"], pv "clause", pe]) use = none := by
    rw [specMatch_ofList_isList hu (by rfl)]; spec_match [specMatch_ofList_isList hc]
  have hm : specMatch ["else", "=>"] (pl [pl [pv "test", pv "result", pe]]) use =
      some [("test", [test]), ("result", results)] := by
    rw [specMatch_ofList_isList hu (by rfl)]; spec_match [specMatch_ofList_isList hc]
  simp only [condRules]
  rw [specTransform_cons_none h1, specTransform_cons_none h2, specTransform_cons_none h3, specTransform_cons_none h4, specTransform_cons_none h5, specTransform_cons_some hm]
  spec_inst

/-- `(cond (test result₁ …) clause₁ …)` ⟹ `(if test (begin result₁ …) (cond clause₁ …))`, for one
or more results and one or more further clauses, provided the results are not `=> receiver` (no
condition on `test`) -/
theorem cond_normal_more_shape {fuel use c test results clauses} (hu : IsList use (c :: clauses))
    (hc : IsList c (test :: results)) (hne : results ≠ []) (hcl : clauses ≠ [])
    (hna : ∀ a r, results = [a, r] → isSym "=>" a = false) (hf : matchFuel use ≤ fuel) :
    expand1 fuel "cond" use =
      .ok (L use.loc [S use.loc "if", test, L use.loc (S use.loc "begin" :: results),
        L use.loc (S use.loc "cond" :: clauses)]) := by
  rw [expand1_eq_spec cond_rules (by rfl) (by rfl) hf]
  have h1 : specMatch ["else", "=>"] (pl [pl [pv "else", pv "result", pe]]) use = none := by
    rw [specMatch_ofList_isList hu (by rfl)]; spec_match [specMatch_ofList_isList hc]
  have h2 : specMatch ["else", "=>"] (pl [pl [pv "test", pv "=>", pv "result"]]) use = none := by
    rw [specMatch_ofList_isList hu (by rfl)]; spec_match [specMatch_ofList_isList hc]
  have h3 : specMatch ["else", "=>"] (pl [pl [pv "test", pv "=>", pv "result"], pv "clause", pe]) use = none := by
    rw [specMatch_ofList_isList hu (by rfl)]
    rcases results with _ | ⟨a, _ | ⟨r, _ | ⟨x, xs⟩⟩⟩
    · exact absurd rfl hne
    · spec_match [specMatch_ofList_isList hc]
    · have := hna a r rfl
      spec_match [specMatch_ofList_isList hc]
    · spec_match [specMatch_ofList_isList hc]
  have h4 : specMatch ["else", "=>"] (pl [pl [pv "test"]]) use = none := by
    rw [specMatch_ofList_isList hu (by rfl)]; spec_match [specMatch_ofList_isList hc]
  have h5 : specMatch ["else", "=>"] (pl [pl [pv "test"], pv "clause", pe]) use = none := by
    rw [specMatch_ofList_isList hu (by rfl)]; spec_match [specMatch_ofList_isList hc]
  have h6 : specMatch ["else", "=>"] (pl [pl [pv "test", pv "result", pe]]) use = none := by
    rw [specMatch_ofList_isList hu (by rfl)]; spec_match [specMatch_ofList_isList hc]
  have hm : specMatch ["else", "=>"] (pl [pl [pv "test", pv "result", pe], pv "clause", pe]) use =
      some [("test", [test]), ("result", results), ("clause", clauses)] := by
    rw [specMatch_ofList_isList hu (by rfl)]; spec_match [specMatch_ofList_isList hc]
  simp only [condRules]
  rw [specTransform_cons_none h1, specTransform_cons_none h2, specTransform_cons_none h3, specTransform_cons_none h4, specTransform_cons_none h5, specTransform_cons_none h6, specTransform_cons_some hm]
  spec_inst

/-! ## case

The literals are `else` and `=>`. The first rule takes every use whose key is a non-empty proper
list, so the other six need a key that is not one (`hk`); the textual order forces the remaining
side conditions. -/

/-- `(case (k₁ …) clause₁ …)` ⟹ `(let ((atom-key (k₁ …))) (case atom-key clause₁ …))`, for a key
that is a non-empty list and one or more clauses -/
theorem case_list_key_shape {fuel use k keys clauses} (hu : IsList use (k :: clauses))
    (hkl : IsList k keys) (hkn : keys ≠ []) (hcl : clauses ≠ []) (hf : matchFuel use ≤ fuel) :
    expand1 fuel "case" use =
      .ok (L use.loc [S use.loc "let", L use.loc [L use.loc [S use.loc "atom-key", L use.loc keys]],
        L use.loc (S use.loc "case" :: S use.loc "atom-key" :: clauses)]) := by
  rw [expand1_eq_spec case_rules (by rfl) (by rfl) hf]
  have hm : specMatch ["else", "=>"] (pl [pl [pv "key", pe], pv "clauses", pe]) use =
      some [("key", keys), ("clauses", clauses)] := by
    rw [specMatch_ofList_isList hu (by rfl)]; spec_match [specMatch_ofList_isList hkl]
  simp only [caseRules]
  rw [specTransform_cons_some hm]
  spec_inst

/-- `(case key (else => receiver))` ⟹ `(receiver key)` -/
theorem case_else_arrow_shape {fuel use key c e a r} (hu : IsList use [key, c])
    (hc : IsList c [e, a, r]) (he : isSym "else" e = true) (ha : isSym "=>" a = true)
    (hk : ∀ ks, IsList key ks → ks = []) (hf : matchFuel use ≤ fuel) :
    expand1 fuel "case" use = .ok (L use.loc [r, key]) := by
  rw [expand1_eq_spec case_rules (by rfl) (by rfl) hf]
  have h1 : specMatch ["else", "=>"] (pl [pl [pv "key", pe], pv "clauses", pe]) use = none := by
    rw [specMatch_ofList_isList hu (by rfl)]; spec_match [specMatch_ofList_isList hc, specMatch_var_ell_nonlist _ hk]
  have hm : specMatch ["else", "=>"] (pl [pv "key", pl [pv "else", pv "=>", pv "result"]]) use =
      some [("key", [key]), ("result", [r])] := by
    rw [specMatch_ofList_isList hu (by rfl)]; spec_match [specMatch_ofList_isList hc, specMatch_var_ell_nonlist _ hk]
  simp only [caseRules]
  rw [specTransform_cons_none h1, specTransform_cons_some hm]
  spec_inst

/-- `(case key (else result₁ …))` ⟹ `(begin result₁ …)`, provided the results are not
`=> receiver` -/
theorem case_else_shape {fuel use key c e results} (hu : IsList use [key, c])
    (hc : IsList c (e :: results)) (he : isSym "else" e = true) (hne : results ≠ [])
    (hna : ∀ a r, results = [a, r] → isSym "=>" a = false)
    (hk : ∀ ks, IsList key ks → ks = []) (hf : matchFuel use ≤ fuel) :
    expand1 fuel "case" use = .ok (L use.loc (S use.loc "begin" :: results)) := by
  rw [expand1_eq_spec case_rules (by rfl) (by rfl) hf]
  have h1 : specMatch ["else", "=>"] (pl [pl [pv "key", pe], pv "clauses", pe]) use = none := by
    rw [specMatch_ofList_isList hu (by rfl)]; spec_match [specMatch_ofList_isList hc, specMatch_var_ell_nonlist _ hk]
  have h2 : specMatch ["else", "=>"] (pl [pv "key", pl [pv "else", pv "=>", pv "result"]]) use = none := by
    rw [specMatch_ofList_isList hu (by rfl)]
    rcases results with _ | ⟨a, _ | ⟨r, _ | ⟨x, xs⟩⟩⟩
    · exact absurd rfl hne
    · spec_match [specMatch_ofList_isList hc, specMatch_var_ell_nonlist _ hk]
    · have := hna a r rfl
      spec_match [specMatch_ofList_isList hc, specMatch_var_ell_nonlist _ hk]
    · spec_match [specMatch_ofList_isList hc, specMatch_var_ell_nonlist _ hk]
  have hm : specMatch ["else", "=>"] (pl [pv "key", pl [pv "else", pv "result", pe]]) use =
      some [("key", [key]), ("result", results)] := by
    rw [specMatch_ofList_isList hu (by rfl)]; spec_match [specMatch_ofList_isList hc, specMatch_var_ell_nonlist _ hk]
  simp only [caseRules]
  rw [specTransform_cons_none h1, specTransform_cons_none h2, specTransform_cons_some hm]
  spec_inst

/-- `(case key ((atom₁ …) => receiver))` ⟹
`(if (not (null? (memv key '(atom₁ …)))) (receiver key))` -/
theorem case_arrow_shape {fuel use key c as atoms a r} (hu : IsList use [key, c])
    (hc : IsList c [as, a, r]) (has : IsList as atoms) (hat : atoms ≠ [])
    (ha : isSym "=>" a = true) (hk : ∀ ks, IsList key ks → ks = []) (hf : matchFuel use ≤ fuel) :
    expand1 fuel "case" use =
      .ok (L use.loc [S use.loc "if",
        L use.loc [S use.loc "not", L use.loc [S use.loc "null?", L use.loc [S use.loc "memv", key, L use.loc [S use.loc "quote", L use.loc atoms]]]],
        L use.loc [r, key]]) := by
  rw [expand1_eq_spec case_rules (by rfl) (by rfl) hf]
  have hase : isSym "else" as = false := by
    cases atoms with
    | nil => exact absurd rfl hat
    | cons x xs => exact isSym_of_isList has
  have h1 : specMatch ["else", "=>"] (pl [pl [pv "key", pe], pv "clauses", pe]) use = none := by
    rw [specMatch_ofList_isList hu (by rfl)]; spec_match [specMatch_ofList_isList hc, specMatch_ofList_isList has, specMatch_var_ell_nonlist _ hk]
  have h2 : specMatch ["else", "=>"] (pl [pv "key", pl [pv "else", pv "=>", pv "result"]]) use = none := by
    rw [specMatch_ofList_isList hu (by rfl)]; spec_match [specMatch_ofList_isList hc, specMatch_ofList_isList has, specMatch_var_ell_nonlist _ hk]
  have h3 : specMatch ["else", "=>"] (pl [pv "key", pl [pv "else", pv "result", pe]]) use = none := by
    rw [specMatch_ofList_isList hu (by rfl)]; spec_match [specMatch_ofList_isList hc, specMatch_ofList_isList has, specMatch_var_ell_nonlist _ hk]
  have hm : specMatch ["else", "=>"] (pl [pv "key", pl [pl [pv "atoms", pe], pv "=>", pv "result"]]) use =
      some [("key", [key]), ("atoms", atoms), ("result", [r])] := by
    rw [specMatch_ofList_isList hu (by rfl)]; spec_match [specMatch_ofList_isList hc, specMatch_ofList_isList has, specMatch_var_ell_nonlist _ hk]
  simp only [caseRules]
  rw [specTransform_cons_none h1, specTransform_cons_none h2, specTransform_cons_none h3, specTransform_cons_some hm]
  spec_inst

/-- `(case key ((atom₁ …) result₁ …))` ⟹ `(if (memv key '(atom₁ …)) (begin result₁ …))`, provided
the results are not `=> receiver` -/
theorem case_normal_shape {fuel use key c as atoms results} (hu : IsList use [key, c])
    (hc : IsList c (as :: results)) (has : IsList as atoms) (hat : atoms ≠ [])
    (hne : results ≠ []) (hna : ∀ a r, results = [a, r] → isSym "=>" a = false)
    (hk : ∀ ks, IsList key ks → ks = []) (hf : matchFuel use ≤ fuel) :
    expand1 fuel "case" use =
      .ok (L use.loc [S use.loc "if", L use.loc [S use.loc "memv", key, L use.loc [S use.loc "quote", L use.loc atoms]],
        L use.loc (S use.loc "begin" :: results)]) := by
  rw [expand1_eq_spec case_rules (by rfl) (by rfl) hf]
  have hase : isSym "else" as = false := by
    cases atoms with
    | nil => exact absurd rfl hat
    | cons x xs => exact isSym_of_isList has
  have h1 : specMatch ["else", "=>"] (pl [pl [pv "key", pe], pv "clauses", pe]) use = none := by
    rw [specMatch_ofList_isList hu (by rfl)]; spec_match [specMatch_ofList_isList hc, specMatch_ofList_isList has, specMatch_var_ell_nonlist _ hk]
  have h2 : specMatch ["else", "=>"] (pl [pv "key", pl [pv "else", pv "=>", pv "result"]]) use = none := by
    rw [specMatch_ofList_isList hu (by rfl)]
    rcases results with _ | ⟨a, _ | ⟨r, _ | ⟨x, xs⟩⟩⟩
    · exact absurd rfl hne
    · spec_match [specMatch_ofList_isList hc, specMatch_ofList_isList has, specMatch_var_ell_nonlist _ hk]
    · have := hna a r rfl
      spec_match [specMatch_ofList_isList hc, specMatch_ofList_isList has, specMatch_var_ell_nonlist _ hk]
    · spec_match [specMatch_ofList_isList hc, specMatch_ofList_isList has, specMatch_var_ell_nonlist _ hk]
  have h3 : specMatch ["else", "=>"] (pl [pv "key", pl [pv "else", pv "result", pe]]) use = none := by
    rw [specMatch_ofList_isList hu (by rfl)]; spec_match [specMatch_ofList_isList hc, specMatch_ofList_isList has, specMatch_var_ell_nonlist _ hk]
  have h4 : specMatch ["else", "=>"] (pl [pv "key", pl [pl [pv "atoms", pe], pv "=>", pv "result"]]) use = none := by
    rw [specMatch_ofList_isList hu (by rfl)]
    rcases results with _ | ⟨a, _ | ⟨r, _ | ⟨x, xs⟩⟩⟩
    · exact absurd rfl hne
    · spec_match [specMatch_ofList_isList hc, specMatch_ofList_isList has, specMatch_var_ell_nonlist _ hk]
    · have := hna a r rfl
      spec_match [specMatch_ofList_isList hc, specMatch_ofList_isList has, specMatch_var_ell_nonlist _ hk]
    · spec_match [specMatch_ofList_isList hc, specMatch_ofList_isList has, specMatch_var_ell_nonlist _ hk]
  have hm : specMatch ["else", "=>"] (pl [pv "key", pl [pl [pv "atoms", pe], pv "result", pe]]) use =
      some [("key", [key]), ("atoms", atoms), ("result", results)] := by
    rw [specMatch_ofList_isList hu (by rfl)]; spec_match [specMatch_ofList_isList hc, specMatch_ofList_isList has, specMatch_var_ell_nonlist _ hk]
  simp only [caseRules]
  rw [specTransform_cons_none h1, specTransform_cons_none h2, specTransform_cons_none h3, specTransform_cons_none h4, specTransform_cons_some hm]
  spec_inst

/-- `(case key ((atom₁ …) => receiver) clause₁ …)` ⟹
`(if (memv key '(atom₁ …)) (receiver key) (case key clause₁ …))`, for one or more further clauses -/
theorem case_arrow_more_shape {fuel use key c as atoms a r clauses}
    (hu : IsList use (key :: c :: clauses)) (hc : IsList c [as, a, r]) (has : IsList as atoms)
    (hat : atoms ≠ []) (ha : isSym "=>" a = true) (hcl : clauses ≠ [])
    (hk : ∀ ks, IsList key ks → ks = []) (hf : matchFuel use ≤ fuel) :
    expand1 fuel "case" use =
      .ok (L use.loc [S use.loc "if", L use.loc [S use.loc "memv", key, L use.loc [S use.loc "quote", L use.loc atoms]], L use.loc [r, key],
        L use.loc (S use.loc "case" :: key :: clauses)]) := by
  rw [expand1_eq_spec case_rules (by rfl) (by rfl) hf]
  have hase : isSym "else" as = false := by
    cases atoms with
    | nil => exact absurd rfl hat
    | cons x xs => exact isSym_of_isList has
  have h1 : specMatch ["else", "=>"] (pl [pl [pv "key", pe], pv "clauses", pe]) use = none := by
    rw [specMatch_ofList_isList hu (by rfl)]; spec_match [specMatch_ofList_isList hc, specMatch_ofList_isList has, specMatch_var_ell_nonlist _ hk]
  have h2 : specMatch ["else", "=>"] (pl [pv "key", pl [pv "else", pv "=>", pv "result"]]) use = none := by
    rw [specMatch_ofList_isList hu (by rfl)]; spec_match [specMatch_ofList_isList hc, specMatch_ofList_isList has, specMatch_var_ell_nonlist _ hk]
  have h3 : specMatch ["else", "=>"] (pl [pv "key", pl [pv "else", pv "result", pe]]) use = none := by
    rw [specMatch_ofList_isList hu (by rfl)]; spec_match [specMatch_ofList_isList hc, specMatch_ofList_isList has, specMatch_var_ell_nonlist _ hk]
  have h4 : specMatch ["else", "=>"] (pl [pv "key", pl [pl [pv "atoms", pe], pv "=>", pv "result"]]) use = none := by
    rw [specMatch_ofList_isList hu (by rfl)]; spec_match [specMatch_ofList_isList hc, specMatch_ofList_isList has, specMatch_var_ell_nonlist _ hk]
  have h5 : specMatch ["else", "=>"] (pl [pv "key", pl [pl [pv "atoms", pe], pv "result", pe]]) use = none := by
    rw [specMatch_ofList_isList hu (by rfl)]; spec_match [specMatch_ofList_isList hc, specMatch_ofList_isList has, specMatch_var_ell_nonlist _ hk]
  have hm : specMatch ["else", "=>"] (pl [pv "key", pl [pl [pv "atoms", pe], pv "=>", pv "result"], pv "clauses", pe]) use =
      some [("key", [key]), ("atoms", atoms), ("result", [r]), ("clauses", clauses)] := by
    rw [specMatch_ofList_isList hu (by rfl)]; spec_match [specMatch_ofList_isList hc, specMatch_ofList_isList has, specMatch_var_ell_nonlist _ hk]
  simp only [caseRules]
  rw [specTransform_cons_none h1, specTransform_cons_none h2, specTransform_cons_none h3, specTransform_cons_none h4, specTransform_cons_none h5, specTransform_cons_some hm]
  spec_inst

/-- `(case key ((atom₁ …) result₁ …) clause₁ …)` ⟹
`(if (memv key '(atom₁ …)) (begin result₁ …) (case key clause₁ …))`, provided the results are not
`=> receiver` -/
theorem case_normal_more_shape {fuel use key c as atoms results clauses}
    (hu : IsList use (key :: c :: clauses)) (hc : IsList c (as :: results))
    (has : IsList as atoms) (hat : atoms ≠ []) (hne : results ≠ []) (hcl : clauses ≠ [])
    (hna : ∀ a r, results = [a, r] → isSym "=>" a = false)
    (hk : ∀ ks, IsList key ks → ks = []) (hf : matchFuel use ≤ fuel) :
    expand1 fuel "case" use =
      .ok (L use.loc [S use.loc "if", L use.loc [S use.loc "memv", key, L use.loc [S use.loc "quote", L use.loc atoms]],
        L use.loc (S use.loc "begin" :: results), L use.loc (S use.loc "case" :: key :: clauses)]) := by
  rw [expand1_eq_spec case_rules (by rfl) (by rfl) hf]
  have hase : isSym "else" as = false := by
    cases atoms with
    | nil => exact absurd rfl hat
    | cons x xs => exact isSym_of_isList has
  have h1 : specMatch ["else", "=>"] (pl [pl [pv "key", pe], pv "clauses", pe]) use = none := by
    rw [specMatch_ofList_isList hu (by rfl)]; spec_match [specMatch_ofList_isList hc, specMatch_ofList_isList has, specMatch_var_ell_nonlist _ hk]
  have h2 : specMatch ["else", "=>"] (pl [pv "key", pl [pv "else", pv "=>", pv "result"]]) use = none := by
    rw [specMatch_ofList_isList hu (by rfl)]; spec_match [specMatch_ofList_isList hc, specMatch_ofList_isList has, specMatch_var_ell_nonlist _ hk]
  have h3 : specMatch ["else", "=>"] (pl [pv "key", pl [pv "else", pv "result", pe]]) use = none := by
    rw [specMatch_ofList_isList hu (by rfl)]; spec_match [specMatch_ofList_isList hc, specMatch_ofList_isList has, specMatch_var_ell_nonlist _ hk]
  have h4 : specMatch ["else", "=>"] (pl [pv "key", pl [pl [pv "atoms", pe], pv "=>", pv "result"]]) use = none := by
    rw [specMatch_ofList_isList hu (by rfl)]; spec_match [specMatch_ofList_isList hc, specMatch_ofList_isList has, specMatch_var_ell_nonlist _ hk]
  have h5 : specMatch ["else", "=>"] (pl [pv "key", pl [pl [pv "atoms", pe], pv "result", pe]]) use = none := by
    rw [specMatch_ofList_isList hu (by rfl)]; spec_match [specMatch_ofList_isList hc, specMatch_ofList_isList has, specMatch_var_ell_nonlist _ hk]
  have h6 : specMatch ["else", "=>"] (pl [pv "key", pl [pl [pv "atoms", pe], pv "=>", pv "result"], pv "clauses", pe]) use = none := by
    rw [specMatch_ofList_isList hu (by rfl)]
    rcases results with _ | ⟨a, _ | ⟨r, _ | ⟨x, xs⟩⟩⟩
    · exact absurd rfl hne
    · spec_match [specMatch_ofList_isList hc, specMatch_ofList_isList has, specMatch_var_ell_nonlist _ hk]
    · have := hna a r rfl
      spec_match [specMatch_ofList_isList hc, specMatch_ofList_isList has, specMatch_var_ell_nonlist _ hk]
    · spec_match [specMatch_ofList_isList hc, specMatch_ofList_isList has, specMatch_var_ell_nonlist _ hk]
  have hm : specMatch ["else", "=>"] (pl [pv "key", pl [pl [pv "atoms", pe], pv "result", pe], pv "clauses", pe]) use =
      some [("key", [key]), ("atoms", atoms), ("result", results), ("clauses", clauses)] := by
    rw [specMatch_ofList_isList hu (by rfl)]; spec_match [specMatch_ofList_isList hc, specMatch_ofList_isList has, specMatch_var_ell_nonlist _ hk]
  simp only [caseRules]
  rw [specTransform_cons_none h1, specTransform_cons_none h2, specTransform_cons_none h3, specTransform_cons_none h4, specTransform_cons_none h5, specTransform_cons_none h6, specTransform_cons_some hm]
  spec_inst

/-! ## Non-vacuity: the hypotheses of the shape theorems are satisfiable

One closed instance per form (the expansions are those the real expander produces on the same
input, see the `expand` correspondence check). -/

section Examples
open Ruschm.Macro.Ex

example : expand1 300 "when" (lst [sy "t", num 1, num 2]) =
    .ok (lst [sy "if", sy "t", lst [sy "begin", num 1, num 2]]) :=
  when_shape (test := sy "t") (results := [num 1, num 2]) rfl (by simp) (by decide)

example : expand1 300 "unless" (lst [sy "t", num 1]) =
    .ok (lst [sy "if", lst [sy "not", sy "t"], lst [sy "begin", num 1]]) :=
  unless_shape (test := sy "t") (results := [num 1]) rfl (by simp) (by decide)

example : expand1 300 "begin" (lst [num 1, num 2]) = .ok (lst [lst [sy "lambda", lst [], num 1, num 2]]) :=
  begin_shape (es := [num 1, num 2]) rfl (by simp) (by decide)

example : expand1 300 "and" (lst [num 1, num 2, num 3]) =
    .ok (lst [sy "if", num 1, lst [sy "and", num 2, num 3], .prim (.bool false) none]) :=
  and_more_shape (test := num 1) (tests := [num 2, num 3]) rfl (by simp) (by decide)

example : expand1 300 "or" (lst [num 1, num 2]) =
    .ok (lst [sy "let", lst [lst [sy "x", num 1]], lst [sy "if", sy "x", sy "x", lst [sy "or", num 2]]]) :=
  or_more_shape (test := num 1) (tests := [num 2]) rfl (by simp) (by decide)

example : expand1 300 "let" (lst [lst [lst [sy "a", num 1], lst [sy "b", num 2]], sy "a"]) =
    .ok (lst [lst [sy "lambda", lst [sy "a", sy "b"], sy "a"], num 1, num 2]) :=
  let_shape (bds := [lst [sy "a", num 1], lst [sy "b", num 2]])
    (nvs := [(sy "a", num 1), (sy "b", num 2)]) (bodies := [sy "a"]) rfl rfl
    (.cons rfl (.cons rfl .nil)) (by simp) (by simp) (by decide)

example : expand1 300 "let*" (lst [lst [lst [sy "a", num 1], lst [sy "b", num 2]], sy "a"]) =
    .ok (lst [sy "let", lst [lst [sy "a", num 1]],
      lst [sy "let*", lst [lst [sy "b", num 2]], sy "a"]]) :=
  letstar_more_shape (b := lst [sy "a", num 1]) (bds := [lst [sy "b", num 2]])
    (nvs := [(sy "b", num 2)]) (bodies := [sy "a"]) rfl rfl rfl (.cons rfl .nil) (by simp)
    (by simp) (by decide)

example : expand1 300 "cond" (lst [lst [sy "t", sy "=>", sy "f"], lst [sy "else", num 1]]) =
    .ok (lst [sy "let", lst [lst [sy "temp", sy "t"]],
      lst [sy "if", sy "temp", lst [sy "f", sy "temp"], lst [sy "cond", lst [sy "else", num 1]]]]) :=
  cond_arrow_more_shape (c := lst [sy "t", sy "=>", sy "f"]) (clauses := [lst [sy "else", num 1]])
    rfl rfl rfl (by simp) (by decide)

example : expand1 300 "cond" (lst [lst [sy "t", num 1, num 2]]) =
    .ok (lst [sy "if", sy "t", lst [sy "begin", num 1, num 2]]) :=
  cond_normal_shape (c := lst [sy "t", num 1, num 2]) (test := sy "t") (results := [num 1, num 2])
    rfl rfl (by simp) rfl (by intro a r h; cases h; rfl) (by decide)

example : expand1 300 "case" (lst [lst [sy "f", sy "x"], lst [lst [num 1], num 2]]) =
    .ok (lst [sy "let", lst [lst [sy "atom-key", lst [sy "f", sy "x"]]],
      lst [sy "case", sy "atom-key", lst [lst [num 1], num 2]]]) :=
  case_list_key_shape (k := lst [sy "f", sy "x"]) (keys := [sy "f", sy "x"])
    (clauses := [lst [lst [num 1], num 2]]) rfl rfl (by simp) (by simp) (by decide)

example : expand1 300 "case" (lst [sy "k", lst [lst [num 1, num 2], sy "a"], lst [sy "else", sy "b"]]) =
    .ok (lst [sy "if", lst [sy "memv", sy "k", lst [sy "quote", lst [num 1, num 2]]],
      lst [sy "begin", sy "a"], lst [sy "case", sy "k", lst [sy "else", sy "b"]]]) :=
  case_normal_more_shape (key := sy "k") (c := lst [lst [num 1, num 2], sy "a"])
    (as := lst [num 1, num 2]) (atoms := [num 1, num 2]) (results := [sy "a"])
    (clauses := [lst [sy "else", sy "b"]]) rfl rfl rfl (by simp) (by simp) (by simp)
    (by intro a r h; cases h) (by intro ks h; cases h) (by decide)

end Examples

end Ruschm.C05

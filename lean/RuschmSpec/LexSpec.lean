/-
A declarative tokenizer for Ruschm source text — the `S.Lex` of DESIGN.md, C06.

It is written independently of the model lexer (`RuschmModel/Lex.lean`, one function per Rust
scanner, peek / advance discipline): this file imports only the token type. The tokenizer

* skips the atmosphere (blank, tab, CR, LF, `;` comments up to the end of the line);
* reads the *self-delimiting* tokens by their own closing rule: `(` `)` `'` `` ` `` `,` `,@` `#(`
  `#u8(`, string literals `"…"` (a three-state automaton: normal / after `\` / inside `\x…;`) and
  `|…|` identifiers (everything up to the next bar);
* takes every other token as the MAXIMAL chunk of non-delimiter characters (delimiters: space,
  tab, CR, LF, `(` `)` `"` `;` `|` and the end of the text) and classifies the chunk with the pure
  function `classify : List Char → Option Token`, written from the R7RS token grammar restricted
  to the supported classes. A chunk that is no token is a syntax error.

QUIRKS encoded here (all are behaviour of the Rust lexer, found while proving the refinement):
`#t#f` / `#\a#\b` split at `#`; `#\` takes any next character, a delimiter included; a final `,`
is dropped silently; any character that starts no other token starts an identifier (`[a`, `\a`);
`@` is an `<initial>`; `+.a` is an error, `+.5` a decimal but `.5` an error; `1.`, `1.e5` are
decimals; only the lower-case `e` marks an exponent; integers outside `i32`, ratios with a zero
or > `u32` denominator are errors; in strings `\<blank>` denotes nothing and `\x+41;` is `A`.

The refinement theorem `Ruschm.C06More.lex_eq_spec` says that the model lexer computes exactly
this function, on every text. The places where the tokenizer deviates from "split at delimiters,
classify by R7RS" are the documented quirks of the Rust lexer; each is marked QUIRK below.
-/
import RuschmModel.Datum

namespace Ruschm.LexSpec
open Ruschm

/-! ## Character classes -/

def blanks : List Char := [' ', '\t', '\n', '\r']

/-- the delimiters: blanks, parentheses, the string quote, the comment sign, the bar (and the end
of the text) -/
def delimiters : List Char := [' ', '\t', '\n', '\r', '(', ')', '"', ';', '|']

def isBlank (c : Char) : Bool := blanks.contains c
def isDelim (c : Char) : Bool := delimiters.contains c

/-- R7RS `<special initial>`; QUIRK: `@` is also an initial in Ruschm (`is_identifier_initial`) -/
def specialInitials : List Char :=
  ['!', '$', '%', '&', '*', '/', ':', '<', '=', '>', '?', '^', '_', '~', '@']

def isInitial (c : Char) : Bool := c.isAlpha || specialInitials.contains c

/-- R7RS `<subsequent>`: initial, digit, or one of `+ - . @` -/
def isSubsequent (c : Char) : Bool := isInitial c || c.isDigit || ['+', '-', '.', '@'].contains c

/-- a character of a chunk -/
def nonDelim (c : Char) : Bool := !isDelim c

/-- a character of a chunk that starts with `#`: QUIRK (pinned by the Rust test-suite, `#t#f`):
such a chunk also ends before the next `#` -/
def nonDelimSharp (c : Char) : Bool := !isDelim c && c != '#'

/-! ## Atmosphere -/

/-- skip blanks and comments; the flag says that we are inside a comment, which ends at LF or CR -/
def skipAtmos : Bool → List Char → List Char
  | _, [] => []
  | false, c :: cs =>
    if isBlank c then skipAtmos false cs else if c = ';' then skipAtmos true cs else c :: cs
  | true, c :: cs => if c = '\n' || c = '\r' then skipAtmos false cs else skipAtmos true cs

/-! ## Values of digit strings -/

/-- value of a decimal digit string -/
def natVal (ds : List Char) : Nat := ds.foldl (fun a c => a * 10 + (c.toNat - '0'.toNat)) 0

def hexDigitVal (c : Char) : Option Nat :=
  if '0' ≤ c ∧ c ≤ '9' then some (c.toNat - '0'.toNat)
  else if 'a' ≤ c ∧ c ≤ 'f' then some (c.toNat - 'a'.toNat + 10)
  else if 'A' ≤ c ∧ c ≤ 'F' then some (c.toNat - 'A'.toNat + 10)
  else none

/-- value of a string of hexadecimal digits, `none` if another character occurs -/
def hexNat? (ds : List Char) : Option Nat :=
  ds.foldl (fun acc c => match acc, hexDigitVal c with
    | some a, some d => some (a * 16 + d)
    | _, _ => none) (some 0)

/-- `<hex scalar value>`: at least one hex digit, the value a Unicode scalar value -/
def hexScalar (ds : List Char) : Option Char :=
  if ds.isEmpty then none else
  match hexNat? ds with
  | none => none
  | some n => if n < 0xD800 ∨ (0xDFFF < n ∧ n ≤ 0x10FFFF) then some (Char.ofNat n) else none

/-- the character a hex escape `\x<digits>;` of a string literal denotes. QUIRK: a leading `+` is
accepted (`u32::from_str_radix`). -/
def hexEscapeValue (ds : List Char) : Option Char :=
  match ds with
  | '+' :: r => hexScalar r
  | r => hexScalar r

/-! ## String literals -/

/-- the mnemonic escapes `\a \b \t \n \r \" \\ \|` -/
def escapes : List (Char × Char) :=
  [('a', '\x07'), ('b', '\x08'), ('t', '\t'), ('n', '\n'), ('r', '\r'), ('"', '"'), ('\\', '\\'),
   ('|', '|')]

inductive StrState where
  | normal
  | esc
  | hex (digits : List Char)

/-- The body of a string literal (the opening quote has been read): returns the characters the
literal denotes and the text after the closing quote; `none` when the literal is not closed or an
escape is malformed. `out` and `digits` are accumulated in reverse.
QUIRKS: `\` followed by a blank denotes nothing (R7RS: only before a line ending); the hex
escape `\x…;` takes everything up to the next `;` and accepts a leading `+`
(`u32::from_str_radix`). -/
def scanStr : StrState → List Char → List Char → Option (List Char × List Char)
  | _, [], _ => none
  | .normal, c :: cs, out =>
    if c = '"' then some (out.reverse, cs)
    else if c = '\\' then scanStr .esc cs out
    else scanStr .normal cs (c :: out)
  | .esc, c :: cs, out =>
    match escapes.lookup c with
    | some d => scanStr .normal cs (d :: out)
    | none =>
      if c = ' ' then scanStr .normal cs out
      else if c = 'x' then scanStr (.hex []) cs out
      else none
  | .hex ds, c :: cs, out =>
    if c = ';' then
      match hexEscapeValue ds.reverse with
      | some ch => scanStr .normal cs (ch :: out)
      | none => none
    else scanStr (.hex (c :: ds)) cs out

/-! ## Classification of a chunk -/

/-- the R7RS character names -/
def charNames : List (String × Char) :=
  [("alarm", '\x07'), ("backspace", '\x08'), ("delete", '\x7f'), ("escape", '\x1b'),
   ("newline", '\n'), ("null", '\x00'), ("return", '\r'), ("space", ' '), ("tab", '\t')]

/-- `#\` has been removed; `c` is the character after it and `run` the rest of the chunk:
`#\<any character>`, `#\<character name>`, `#\x<hex scalar value>`. (`c` itself may be any
character, a delimiter included: `#\(`, `#\ `.) -/
def classifyChar (c : Char) (run : List Char) : Option Token :=
  if run.isEmpty then some (.prim (.chr c))
  else if !run.all Char.isAlphanum then none
  else match charNames.lookup (String.ofList (c :: run)) with
    | some ch => some (.prim (.chr ch))
    | none =>
      if c = 'x' then (hexScalar run).map (fun ch => .prim (.chr ch)) else none

/-- a chunk that starts with `#` (which has been removed): `#t`, `#f`, `#\…`. (The long spellings
`#true` / `#false` are not supported.) -/
def classifySharp (r : List Char) : Option Token :=
  match r with
  | [] => none
  | x :: run =>
    if x = '\\' then
      match run with
      | [] => none
      | c :: run' => classifyChar c run'
    else if run.isEmpty then
      if x = 't' then some (.prim (.bool true))
      else if x = 'f' then some (.prim (.bool false))
      else none
    else none

/-- `digits+` -/
def isDigits (ds : List Char) : Bool := !ds.isEmpty && ds.all Char.isDigit

/-- remove an optional sign -/
def unsigned : List Char → List Char
  | [] => []
  | c :: r => if c = '+' || c = '-' then r else c :: r

def isSigned : List Char → Bool
  | [] => false
  | c :: _ => c = '+' || c = '-'

/-- `<exponent>`: `e sign? digits+` -/
def isExponent : List Char → Bool
  | [] => false
  | c :: r => c = 'e' && isDigits (unsigned r)

def signedVal (neg : Bool) (ds : List Char) : Int := if neg then -(natVal ds : Int) else natVal ds

/-- Numbers: with `ip` the leading digits after the optional sign,
* `sign? digits+` — an integer; it must fit `i32` (QUIRK: otherwise the chunk is an error);
* `sign? digits+ / digits+` — a ratio literal `(i32, u32)` with a non-zero denominator, not
  reduced;
* `sign? digits+ exponent`, `sign? digits+ . digits* exponent?`, `sign . digits+ exponent?` — a
  decimal, kept as its text. QUIRK: a decimal may start with the dot only after a sign (`+.5` is
  read, `.5` is not), and the exponent marker is the lower-case `e` only. -/
def classifyNumber (w : List Char) : Option Token :=
  let neg := w.head? = some '-'
  let body := unsigned w
  let ip := body.takeWhile Char.isDigit
  match body.dropWhile Char.isDigit with
  | [] =>
    if !ip.isEmpty && fitsI32 (signedVal neg ip) then some (.prim (.int (signedVal neg ip)))
    else none
  | c :: r =>
    if c = '/' then
      if !ip.isEmpty && isDigits r && fitsI32 (signedVal neg ip) && decide (0 < natVal r)
          && decide (natVal r ≤ 4294967295) then
        some (.prim (.rat (signedVal neg ip) (natVal r)))
      else none
    else if c = '.' then
      let frac := r.takeWhile Char.isDigit
      let ex := r.dropWhile Char.isDigit
      if (!ip.isEmpty || (isSigned w && !frac.isEmpty)) && (ex.isEmpty || isExponent ex) then
        some (.prim (.real (String.ofList w)))
      else none
    else if !ip.isEmpty && isExponent (c :: r) then some (.prim (.real (String.ofList w)))
    else none

/-- the first character of an identifier that is not a peculiar one. QUIRK: Ruschm does not
check it against `<initial>`: every character that does not start another kind of token starts an
identifier (`[`, `{`, `\`, non-ASCII letters, …). -/
def isIdentStart (c : Char) : Bool :=
  !(c.isDigit || isDelim c || ['+', '-', '.', '#', '\'', '`', ','].contains c)

/-- `<sign subsequent>` = initial, `+`, `-`, `@`; `<dot subsequent>` = sign subsequent or `.` -/
def isSignSubsequent (c : Char) : Bool := isInitial c || c = '+' || c = '-' || c = '@'

/-- Identifiers written without bars:
* `<start> <subsequent>*`;
* peculiar: `+`, `-`, `<sign> <sign subsequent> <subsequent>*`,
  `. <dot subsequent> <subsequent>*`. (QUIRK: R7RS's `<sign> . <dot subsequent> …`, e.g. `+.a`, is
  not an identifier: after a sign a dot always starts a number.) -/
def classifyIdent (w : List Char) : Option Token :=
  match w with
  | [] => none
  | c :: r =>
    let ok :=
      if c = '+' || c = '-' then
        match r with
        | [] => true
        | d :: _ => isSignSubsequent d && r.all isSubsequent
      else if c = '.' then
        match r with
        | [] => false
        | d :: _ => (isSignSubsequent d || d = '.') && r.all isSubsequent
      else isIdentStart c && r.all isSubsequent
    if ok then some (.ident (String.ofList w)) else none

/-- The token a whole chunk denotes, if any: `#`-tokens, the period, numbers, identifiers. -/
def classify (w : List Char) : Option Token :=
  match w with
  | [] => none
  | c :: r =>
    if c = '#' then classifySharp r
    else if c = '.' && r.isEmpty then some .period
    else (classifyNumber w).orElse fun _ => classifyIdent w

/-! ## The tokenizer -/

/-- result of reading one token -/
inductive Step where
  | error
  | eof
  | tok (t : Token) (rest : List Char)
  deriving DecidableEq, Repr

def ofClass (t : Option Token) (rest : List Char) : Step :=
  match t with
  | some t => .tok t rest
  | none => .error

/-- the chunk at the head of a text that starts with `#`: up to the next delimiter or `#`; after
`#\` one character is taken whatever it is -/
def sharpChunk (r : List Char) : List Char × List Char :=
  match r with
  | [] => (['#'], [])
  | x :: r' =>
    if x = '\\' then
      match r' with
      | [] => (['#', '\\'], [])
      | c :: r'' =>
        ('#' :: '\\' :: c :: r''.takeWhile nonDelimSharp, r''.dropWhile nonDelimSharp)
    else ('#' :: r.takeWhile nonDelimSharp, r.dropWhile nonDelimSharp)

/-- A text that starts with `#` (which has been removed): `#(` and `#u8(` are punctuation, every
other `#`-token is a chunk. -/
def sharpToken (r : List Char) : Step :=
  if ['('].isPrefixOf r then .tok .vecIntro (r.drop 1)
  else if ['u', '8', '('].isPrefixOf r then .tok .byteVecIntro (r.drop 3)
  else ofClass (classify (sharpChunk r).1) (sharpChunk r).2

/-- One token at the head of a text that does not start with atmosphere.
QUIRK: a `,` that is the very last character of the text is dropped silently. -/
def token (cs : List Char) : Step :=
  match cs with
  | [] => .eof
  | c :: r =>
    if c = '(' then .tok .lparen r
    else if c = ')' then .tok .rparen r
    else if c = '\'' then .tok .quote r
    else if c = '`' then .tok .quasiquote r
    else if c = ',' then
      match r with
      | [] => .eof
      | d :: r' => if d = '@' then .tok .unquoteSplicing r' else .tok .unquote r
    else if c = '"' then
      match scanStr .normal r [] with
      | some (s, rest) => .tok (.prim (.str (String.ofList s))) rest
      | none => .error
    else if c = '|' then
      match r.dropWhile (· != '|') with
      | [] => .error
      | _ :: rest => .tok (.ident (String.ofList (r.takeWhile (· != '|')))) rest
    else if c = '#' then sharpToken r
    else ofClass (classify (cs.takeWhile nonDelim)) (cs.dropWhile nonDelim)

/-- skip the atmosphere, then one token -/
def next (cs : List Char) : Step := token (skipAtmos false cs)

/-- the tokens of a text up to its end or to the first error, and whether there was an error.
Every token consumes a character, so the fuel `length + 1` of `tokens` always suffices. -/
def run : Nat → List Char → List Token × Bool
  | 0, _ => ([], false)
  | fuel + 1, cs =>
    match next cs with
    | .error => ([], true)
    | .eof => ([], false)
    | .tok t rest => (t :: (run fuel rest).1, (run fuel rest).2)

def tokens (cs : List Char) : List Token × Bool := run (cs.length + 1) cs

/-- the token sequence of a text, `none` when the text has a lexical error -/
def tokenize (cs : List Char) : Option (List Token) :=
  if (tokens cs).2 then none else some (tokens cs).1

end Ruschm.LexSpec

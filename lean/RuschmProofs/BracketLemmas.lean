/-
Helper lemmas for C18 (bracket part): over the characters of one token the REPL's bracket counter
`Bracket.step` returns to `.normal` and changes the count by the token's weight; atmosphere
leaves the count unchanged.
-/
import RuschmProofs.LexLemmas
namespace Ruschm.Text
open Ruschm Ruschm.Lex Ruschm.Bracket

/-! ## the bracket counter over the characters of a token -/

theorem step_plain (n : Int) (c : Char) (h : c ∉ specials) : step (.normal, n) c = (.normal, n) := by
  simp only [specials, List.mem_cons, List.not_mem_nil, or_false, not_or] at h
  simp [step, normalStep, h]

theorem fold_noSpecial (n : Int) (u : List Char) (h : NoSpecial u) :
    u.foldl step (.normal, n) = (.normal, n) := by
  induction u with
  | nil => rfl
  | cons c u ih =>
    rw [List.foldl_cons, step_plain n c (h c (by simp))]
    exact ih (fun x hx => h x (by simp [hx]))

theorem fold_strBody (n : Int) (u : List Char) (h : StrBody u) :
    u.foldl step (.str, n) = (.normal, n) := by
  induction h with
  | close => rfl
  | esc c r _ ih => simpa [step] using ih
  | lit c r h1 h2 _ ih => simpa [step, h1, h2] using ih

theorem fold_bar (n : Int) (body : List Char) (h : '|' ∉ body) :
    (body ++ ['|']).foldl step (.bar, n) = (.normal, n) := by
  induction body with
  | nil => rfl
  | cons c body ih =>
    simp only [List.mem_cons, not_or] at h
    have hc : c ≠ '|' := fun e => h.1 e.symm
    simpa [step, hc] using ih h.2

theorem fold_tokShape {rest : List Char} {t : Token} {used : List Char} (n : Int)
    (h : TokShape True rest t used) :
    used.foldl step (.normal, n) = (.normal, n + weight t) := by
  cases h with
  | word t used _ ht hn _ =>
    rw [fold_noSpecial n used (hn trivial)]
    rcases ht with rfl | ht
    · simp [weight]
    · cases t <;> simp_all [weight, Syn.isAtomTok]
  | bool b x hx _ =>
    simp only [List.foldl_cons, List.foldl_nil, step, normalStep]
    rcases hx with rfl | rfl <;> simp [weight]
  | char t first run hs hn _ =>
    have : weight t = 0 := by cases t <;> simp_all [weight, sharpTok]
    rw [this]
    simp only [List.foldl_cons, step, normalStep]
    simpa using fold_noSpecial n run hn
  | str s body hb =>
    simp only [List.foldl_cons, step, normalStep]
    simpa [weight] using fold_strBody n body hb
  | bar body hb =>
    simp only [List.foldl_cons, step, normalStep]
    simpa [weight] using fold_bar n body hb
  | rparen => simp [step, normalStep, weight]; omega
  | _ => simp [step, normalStep, weight]

def modeOf (b : Bool) : Mode := if b then .comment else .normal

theorem fold_atmos (b : Bool) (a : List Char) (n : Int) (h : isAtmos b a = true) :
    a.foldl step (modeOf b, n) = (.normal, n) := by
  induction a generalizing b with
  | nil => cases b <;> simp_all [isAtmos, modeOf]
  | cons c a ih =>
    cases b
    · simp only [isAtmos] at h
      by_cases hw : isWs c = true
      · simp only [hw, if_true] at h
        have : step (modeOf false, n) c = (modeOf false, n) := by
          simp only [isWs, Bool.or_eq_true, decide_eq_true_eq] at hw
          rcases hw with ((rfl | rfl) | rfl) | rfl <;> rfl
        rw [List.foldl_cons, this]; exact ih _ h
      · simp only [hw] at h
        by_cases hc : c = ';'
        · subst hc
          simp only [if_true] at h
          exact ih true h
        · simp [hc] at h
    · simp only [isAtmos] at h
      by_cases hn : (c = '\n' || c = '\r') = true
      · simp only [hn, if_true] at h
        have : step (modeOf true, n) c = (modeOf false, n) := by simp [step, modeOf, hn]
        rw [List.foldl_cons, this]; exact ih _ h
      · simp only [hn] at h
        have : step (modeOf true, n) c = (modeOf true, n) := by simp [step, modeOf, hn]
        rw [List.foldl_cons, this]; exact ih _ h

theorem fold_trail (b : Bool) (a : List Char) (n : Int) (h : isTrail b a = true) :
    (a.foldl step (modeOf b, n)).2 = n := by
  induction a generalizing b with
  | nil => rfl
  | cons c a ih =>
    cases b
    · simp only [isTrail] at h
      by_cases hw : isWs c = true
      · simp only [hw, if_true] at h
        have : step (modeOf false, n) c = (modeOf false, n) := by
          simp only [isWs, Bool.or_eq_true, decide_eq_true_eq] at hw
          rcases hw with ((rfl | rfl) | rfl) | rfl <;> rfl
        rw [List.foldl_cons, this]; exact ih _ h
      · simp only [hw] at h
        by_cases hc : c = ';'
        · subst hc
          simp only [if_true] at h
          exact ih true h
        · simp [hc] at h
    · simp only [isTrail] at h
      by_cases hn : (c = '\n' || c = '\r') = true
      · simp only [hn, if_true] at h
        have : step (modeOf true, n) c = (modeOf false, n) := by simp [step, modeOf, hn]
        rw [List.foldl_cons, this]; exact ih _ h
      · simp only [hn] at h
        have : step (modeOf true, n) c = (modeOf true, n) := by simp [step, modeOf, hn]
        rw [List.foldl_cons, this]; exact ih _ h

/-- the token stream ends silently only at the end of the text, or at a `,` that is its very last
character -/
theorem token_none {cs : List Char} {p : Pos} (h : token cs p = .ok none) :
    cs = [] ∨ cs = [','] := by
  cases cs with
  | nil => exact Or.inl rfl
  | cons c cs1 =>
    right
    rw [token.eq_def] at h
    dsimp only at h
    by_cases h1 : c = '('
    · rw [if_pos h1] at h; cases h
    rw [if_neg h1] at h
    by_cases h2 : c = ')'
    · rw [if_pos h2] at h; cases h
    rw [if_neg h2] at h
    by_cases h3 : c = '\''
    · rw [if_pos h3] at h; cases h
    rw [if_neg h3] at h
    by_cases h4 : c = '`'
    · rw [if_pos h4] at h; cases h
    rw [if_neg h4] at h
    by_cases h5 : c = '#'
    · rw [if_pos h5] at h
      cases cs1 with
      | nil => cases h
      | cons cn cs2 =>
        dsimp only at h
        split at h
        · cases h
        split at h
        · simp only [bind_ok] at h
          obtain ⟨_, _, h⟩ := h
          cases h
        split at h
        · cases cs2 with
          | nil => cases h
          | cons cnn cs3 => simp only [map_ok_none] at h
        split at h
        · cases cs2 with
          | nil => cases h
          | cons c8 cs3 =>
            dsimp only at h
            split at h
            · cases cs3 with
              | nil => cases h
              | cons cp cs4 =>
                dsimp only at h
                split at h <;> cases h
            · cases h
        · cases h
    rw [if_neg h5] at h
    by_cases h6 : c = ','
    · rw [if_pos h6] at h
      subst h6
      cases cs1 with
      | nil => rfl
      | cons nc cs2 =>
        dsimp only at h
        split at h <;> cases h
    rw [if_neg h6] at h
    by_cases h7 : c = '.'
    · rw [if_pos h7] at h
      cases cs1 with
      | nil => cases h
      | cons nc cs2 =>
        dsimp only at h
        split at h
        · cases h
        · simp only [map_ok_none] at h
    rw [if_neg h7] at h
    by_cases h8 : (c = '+' || c = '-') = true
    · rw [if_pos h8] at h
      cases cs1 with
      | nil => simp only [map_ok_none] at h
      | cons nc cs2 =>
        dsimp only at h
        split at h <;> simp only [map_ok_none] at h
    rw [if_neg h8] at h
    by_cases h9 : c = '"'
    · rw [if_pos h9] at h; simp only [map_ok_none] at h
    rw [if_neg h9] at h
    by_cases h10 : isDigit c = true
    · rw [if_pos h10] at h; simp only [map_ok_none] at h
    rw [if_neg h10] at h
    by_cases h11 : c = '|'
    · rw [if_pos h11] at h; simp only [map_ok_none] at h
    rw [if_neg h11] at h
    simp only [map_ok_none] at h

def wsum (ts : List LToken) : Int := (ts.map (fun t => weight t.tok)).sum

theorem next_none_fold {cs : List Char} {p : Pos} (h : next cs p = .ok none) (n : Int) :
    (cs.foldl step (.normal, n)).2 = n := by
  unfold next at h
  obtain ⟨a, h1, -, -, h4, h5⟩ := skipAtmosphere_inv false cs p
  generalize skipAtmosphere false cs p = r at *
  obtain ⟨cs1, p1⟩ := r
  simp only at h h1 h4 h5
  rcases token_none h with rfl | rfl
  · rw [h1, List.append_nil]
    exact fold_trail false a n h4
  · rw [h1, List.foldl_append]
    have : a.foldl step (.normal, n) = (.normal, n) := fold_atmos false a n (h5 (by simp))
    rw [this]
    simp [step, normalStep]

theorem allAux_bracket (fuel : Nat) (cs : List Char) (p : Pos) (acc ts : List LToken)
    (h : allAux fuel cs p acc = (ts, none)) (hf : cs.length < fuel) (n : Int) :
    ∃ new, ts = acc.reverse ++ new ∧ (cs.foldl step (.normal, n)).2 = n + wsum new := by
  induction fuel generalizing cs p acc n with
  | zero => omega
  | succ fuel ih =>
    simp only [allAux] at h
    cases hn : next cs p with
    | error e => rw [hn] at h; simp at h
    | ok r =>
      rw [hn] at h
      cases r with
      | none =>
        simp only [Prod.mk.injEq, and_true] at h
        exact ⟨[], by simp [h], by simp [wsum, next_none_fold hn n]⟩
      | some r =>
        obtain ⟨t, rest, p'⟩ := r
        simp only at h
        obtain ⟨a, used, h1, -, h3, h4⟩ := next_inv hn
        have hlen := next_progress hn
        obtain ⟨new, g1, g2⟩ := ih rest p' _ h (by omega) (n + weight t)
        refine ⟨⟨t, some p'⟩ :: new, by simp [g1], ?_⟩
        rw [h1, List.foldl_append, List.foldl_append]
        have ha : a.foldl step (.normal, n) = (.normal, n) := fold_atmos false a n h3
        rw [ha, fold_tokShape n h4, g2]
        simp [wsum]; omega

theorem depth_eq_sum (ts : List Token) : depth ts = (ts.map weight).sum := by
  induction ts with
  | nil => rfl
  | cons t ts ih =>
    simp only [List.map_cons, List.sum_cons, ← ih]
    unfold depth
    cases t <;> simp [weight] <;> omega

theorem bracket_run_eq (cs : List Char) (ts : List LToken) (h : Lex.all cs = (ts, none)) :
    (Bracket.run cs).2 = depth (ts.map (·.tok)) := by
  unfold Lex.all at h
  obtain ⟨new, g1, g2⟩ := allAux_bracket _ cs (1, 1) [] ts h (Nat.lt_succ_self _) 0
  simp only [List.reverse_nil, List.nil_append] at g1
  subst g1
  simp only [Bracket.run, g2, depth_eq_sum, wsum, List.map_map]
  simp [Function.comp_def]

theorem bracket_closed_eq (cs : List Char) (ts : List LToken) (h : Lex.all cs = (ts, none)) :
    Bracket.closed cs = decide (depth (ts.map (·.tok)) ≤ 0) := by
  simp only [Bracket.closed, bracket_run_eq cs ts h]

end Ruschm.Text

/-
Helper lemmas for C06, forward direction: the text of every supported token is read back as that
token (`token_*`), and token sequences under a valid layout are read back unchanged.
-/
import RuschmProofs.LexLemmas
namespace Ruschm.Text
open Ruschm Ruschm.Lex

/-! ## punctuation -/
theorem token_lparen (rest : List Char) (p : Pos) :
    token ('(' :: rest) p = .ok (some (.lparen, rest, adv '(' p)) := by simp [token]
theorem token_rparen (rest : List Char) (p : Pos) :
    token (')' :: rest) p = .ok (some (.rparen, rest, adv ')' p)) := by simp [token]
theorem token_quote (rest : List Char) (p : Pos) :
    token ('\'' :: rest) p = .ok (some (.quote, rest, adv '\'' p)) := by simp [token]
theorem token_quasiquote (rest : List Char) (p : Pos) :
    token ('`' :: rest) p = .ok (some (.quasiquote, rest, adv '`' p)) := by simp [token]
theorem token_vecIntro (rest : List Char) (p : Pos) :
    token ('#' :: '(' :: rest) p = .ok (some (.vecIntro, rest, adv '(' (adv '#' p))) := by
  simp [token]
theorem token_byteVecIntro (rest : List Char) (p : Pos) :
    token ('#' :: 'u' :: '8' :: '(' :: rest) p
      = .ok (some (.byteVecIntro, rest, adv '(' (adv '8' (adv 'u' (adv '#' p))))) := by
  simp [token]
theorem token_unquoteSplicing (rest : List Char) (p : Pos) :
    token (',' :: '@' :: rest) p = .ok (some (.unquoteSplicing, rest, adv '@' (adv ',' p))) := by
  simp [token]
theorem token_unquote (c : Char) (rest : List Char) (p : Pos) (h : c ≠ '@') :
    token (',' :: c :: rest) p = .ok (some (.unquote, c :: rest, adv ',' p)) := by
  simp [token, h]
theorem token_period (rest : List Char) (p : Pos) (h : startsDelim rest = true) :
    token ('.' :: rest) p = .ok (some (.period, rest, adv '.' p)) := by
  cases rest with
  | nil => simp [token]
  | cons c r => simp only [startsDelim] at h; simp [token, h]

/-! ## booleans and characters -/

theorem endOfSharpToken_of {rest : List Char} {p : Pos}
    (h : startsDelim rest = true ∨ startsSharp rest = true) : endOfSharpToken rest p = .ok () :=
  endOfSharpToken_ok.mpr h

theorem token_bool (b : Bool) (rest : List Char) (p : Pos)
    (h : startsDelim rest = true ∨ startsSharp rest = true) :
    token ('#' :: (if b then 't' else 'f') :: rest) p
      = .ok (some (.prim (.bool b), rest, adv (if b then 't' else 'f') (adv '#' p))) := by
  cases b <;> simp [token, endOfSharpToken_of h, bind, Except.bind, pure, Except.pure]

theorem stopsAt_alnum_of {rest : List Char}
    (h : startsDelim rest = true ∨ startsSharp rest = true) : stopsAt isAsciiAlnum rest = true := by
  cases rest with
  | nil => rfl
  | cons c r =>
    simp only [stopsAt, Bool.not_eq_true']
    cases hc : isAsciiAlnum c with
    | false => rfl
    | true =>
      have := isAsciiAlnum_ns hc
      rcases h with h | h
      · simp only [startsDelim] at h
        rw [isDelimiter_of_not_mem this] at h; cases h
      · simp only [startsSharp] at h
        split at h
        · rename_i heq; cases heq; exact absurd (by decide) this
        · cases h

theorem token_char (c : Char) (rest : List Char) (p : Pos)
    (h : startsDelim rest = true ∨ startsSharp rest = true) :
    token ('#' :: '\\' :: c :: rest) p
      = .ok (some (.prim (.chr c), rest, adv c (adv '\\' (adv '#' p)))) := by
  have : character c rest (adv c (adv '\\' (adv '#' p)))
      = .ok (.prim (.chr c), rest, adv c (adv '\\' (adv '#' p))) := by
    unfold character
    have := takeRun_append isAsciiAlnum [] rest (adv c (adv '\\' (adv '#' p))) [] (by simp)
      (stopsAt_alnum_of h)
    simp only [List.nil_append, List.reverse_nil, advs_nil] at this
    rw [this]
    simp [endOfSharpToken_of h, bind, Except.bind, pure, Except.pure]
  simp [token, this, Except.map]

/-! ## `|quoted|` identifiers -/

theorem quotedIdentifier_fwd (body rest : List Char) (p : Pos) (acc : List Char)
    (h : '|' ∉ body) :
    quotedIdentifier (body ++ '|' :: rest) p acc
      = .ok (.ident (String.ofList (acc.reverse ++ body)), rest, advs (body ++ ['|']) p) := by
  induction body generalizing p acc with
  | nil => simp [quotedIdentifier]
  | cons c body ih =>
    simp only [List.mem_cons, not_or] at h
    have hc : c ≠ '|' := fun e => h.1 e.symm
    simp only [List.cons_append, quotedIdentifier, hc, if_false]
    rw [ih _ _ h.2]
    simp

theorem token_quoted (body rest : List Char) (p : Pos) (h : '|' ∉ body) :
    token ('|' :: (body ++ '|' :: rest)) p
      = .ok (some (.ident (String.ofList body), rest, advs ('|' :: (body ++ ['|'])) p)) := by
  have hd : isDigit '|' = false := by decide
  simp [token, hd, quotedIdentifier_fwd body rest _ [] h, Except.map]

/-! ## strings -/

theorem mnemonic_cases {c : Char} (h : (mnemonic? c).isSome = true) :
    c = '\x07' ∨ c = '\x08' ∨ c = '\t' ∨ c = '\n' ∨ c = '\r' ∨ c = '"' ∨ c = '\\' ∨ c = '|' := by
  unfold mnemonic? at h
  repeat' split at h
  all_goals simp_all

theorem string_fwd (ps : List StrPiece) (rest : List Char) (p : Pos) (acc : List Char)
    (h : ∀ x ∈ ps, x.valid = true) :
    Lex.string (ps.flatMap StrPiece.text ++ '"' :: rest) p acc
      = .ok (.prim (.str (String.ofList (acc.reverse ++ ps.map StrPiece.char))), rest,
          advs (ps.flatMap StrPiece.text ++ ['"']) p) := by
  induction ps generalizing p acc with
  | nil => rw [Lex.string.eq_def]; simp
  | cons x ps ih =>
    have hx := h x (by simp)
    have ih' := fun p acc => ih p acc (fun y hy => h y (by simp [hy]))
    cases x with
    | lit c =>
      simp only [StrPiece.valid, Bool.and_eq_true, Bool.not_eq_true', decide_eq_false_iff_not] at hx
      simp only [List.flatMap_cons, StrPiece.text, List.cons_append, List.nil_append]
      rw [Lex.string.eq_def]
      simp only [hx.1, hx.2, if_false]
      rw [ih']
      simp [StrPiece.char]
    | esc c =>
      simp only [StrPiece.valid] at hx
      simp only [List.flatMap_cons, StrPiece.text, List.cons_append, List.nil_append]
      rcases mnemonic_cases hx with rfl | rfl | rfl | rfl | rfl | rfl | rfl | rfl <;>
      · rw [Lex.string.eq_def]
        simp [mnemonic?, ih', StrPiece.char]

theorem char_le_iff (a b : Char) : a ≤ b ↔ a.toNat ≤ b.toNat := by
  rw [Char.le_def, UInt32.le_iff_toNat_le]; rfl

theorem isDigit_iff (c : Char) : isDigit c = true ↔ 48 ≤ c.toNat ∧ c.toNat ≤ 57 := by
  simp only [isDigit, Bool.and_eq_true, decide_eq_true_eq, char_le_iff]
  rfl

theorem isLetter_iff (c : Char) :
    isLetter c = true ↔ (97 ≤ c.toNat ∧ c.toNat ≤ 122) ∨ (65 ≤ c.toNat ∧ c.toNat ≤ 90) := by
  simp only [isLetter, Bool.or_eq_true, Bool.and_eq_true, decide_eq_true_eq, char_le_iff]
  rfl

theorem isInitial_not_digit {c : Char} (h : isInitial c = true) : isDigit c = false := by
  cases hd : isDigit c with
  | false => rfl
  | true =>
    rw [isDigit_iff] at hd
    simp only [isInitial, Bool.or_eq_true, decide_eq_true_eq] at h
    rw [isLetter_iff] at h
    simp only [or_assoc] at h
    rcases h with h | h | h | h | h | h | h | h | h | h | h | h | h | h | h | h | h
    all_goals first | omega | (subst h; revert hd; decide)

theorem canonPiece_valid (c : Char) : (canonPiece c).valid = true := by
  unfold canonPiece
  split
  · rename_i h; simpa [StrPiece.valid] using h
  · rename_i h
    simp only [StrPiece.valid, Bool.and_eq_true, Bool.not_eq_true', decide_eq_false_iff_not]
    constructor <;> (rintro rfl; exact h (by decide))

theorem canonPiece_char (s : List Char) : (s.map canonPiece).map StrPiece.char = s := by
  induction s with
  | nil => rfl
  | cons c s ih =>
    simp only [List.map_cons, ih, List.cons.injEq, and_true]
    unfold canonPiece; split <;> rfl

theorem token_string (ps : List StrPiece) (rest : List Char) (p : Pos)
    (h : ∀ x ∈ ps, x.valid = true) :
    token (showPieces ps ++ rest) p
      = .ok (some (.prim (.str (String.ofList (ps.map StrPiece.char))), rest,
          advs (showPieces ps) p)) := by
  have := string_fwd ps rest (adv '"' p) [] h
  simp only [showPieces, List.cons_append, List.append_assoc]
  rw [token.eq_def]
  simp [this, Except.map]

/-! ## identifiers -/

/-- the characters on which `token` does not fall through to `normalIdentifier` (besides digits) -/
def tokenStarters : List Char := ['(', ')', '\'', '`', '#', ',', '.', '+', '-', '"', '|']

theorem token_other (c : Char) (cs : List Char) (p : Pos) (h : c ∉ tokenStarters)
    (hd : isDigit c = false) :
    token (c :: cs) p = (normalIdentifier c cs (adv c p)).map some := by
  simp only [tokenStarters, List.mem_cons, List.not_mem_nil, or_false, not_or] at h
  rw [token.eq_def]
  simp [h, hd]

theorem isInitial_not_starter {c : Char} (h : isInitial c = true) : c ∉ tokenStarters := by
  intro hc
  have : tokenStarters.all (fun c => !isInitial c) = true := by decide
  have := List.all_eq_true.mp this c hc
  simp [h] at this

theorem stopsAt_of_startsDelim (f : Char → Bool) (hf : ∀ c, f c = true → c ∉ specials)
    {rest : List Char} (h : startsDelim rest = true) : stopsAt f rest = true := by
  cases rest with
  | nil => rfl
  | cons c r =>
    simp only [stopsAt, Bool.not_eq_true']
    cases hc : f c with
    | false => rfl
    | true =>
      simp only [startsDelim] at h
      rw [isDelimiter_of_not_mem (hf c hc)] at h; cases h

theorem normalIdentifier_fwd (first : Char) (run rest : List Char) (p : Pos)
    (hr : ∀ c ∈ run, isSubsequent c = true) (hd : startsDelim rest = true) :
    normalIdentifier first (run ++ rest) p
      = .ok (.ident (String.ofList (first :: run)), rest, advs run p) := by
  unfold normalIdentifier
  rw [takeRun_append isSubsequent run rest p [] hr
    (stopsAt_of_startsDelim _ (fun c => isSubsequent_ns) hd)]
  cases rest with
  | nil => simp
  | cons c r =>
    simp only [startsDelim] at hd
    simp [testDelimiter, hd, bind, Except.bind, pure, Except.pure]

theorem dotSubsequent_nil (acc rest : List Char) (p : Pos) (hd : startsDelim rest = true) :
    dotSubsequent acc rest p = .ok (acc, rest, p) := by
  unfold dotSubsequent
  cases rest with
  | nil => rfl
  | cons c r =>
    simp only [startsDelim] at hd
    have hn : c ∈ specials := by
      apply Decidable.byContradiction; intro hn; rw [isDelimiter_of_not_mem hn] at hd; cases hd
    have h1 : isInitial c = false := by
      cases hi : isInitial c with
      | false => rfl
      | true => exact absurd hn (not_mem_specials_of_class isInitial (by decide) hi)
    have h2 : c ≠ '+' ∧ c ≠ '-' ∧ c ≠ '.' ∧ c ≠ '@' := by
      refine ⟨?_, ?_, ?_, ?_⟩ <;> (rintro rfl; revert hn; decide)
    simp [h1, h2, testDelimiter, hd, bind, Except.bind, pure, Except.pure]

theorem dotSubsequent_fwd (acc : List Char) (d : Char) (more rest : List Char) (p : Pos)
    (h0 : (d = '+' || d = '-' || d = '.' || d = '@' || isInitial d) = true)
    (hr : ∀ c ∈ d :: more, isSubsequent c = true) (hd : startsDelim rest = true) :
    dotSubsequent acc (d :: more ++ rest) p
      = .ok (acc ++ d :: more, rest, advs (d :: more) p) := by
  unfold dotSubsequent
  simp only [List.cons_append, h0, if_true]
  have := takeRun_append isSubsequent (d :: more) rest p [] hr
    (stopsAt_of_startsDelim _ (fun c => isSubsequent_ns) hd)
  simp only [List.cons_append, List.reverse_nil, List.nil_append] at this
  rw [this]
  cases rest with
  | nil => simp
  | cons c r =>
    simp only [startsDelim] at hd
    simp [testDelimiter, hd, bind, Except.bind, pure, Except.pure]

theorem peculiar_sign (s : Char) (hs : s = '+' ∨ s = '-') (cs : List Char) (p : Pos)
    (hc : cs.head? ≠ some '.') :
    peculiarIdentifier s cs p
      = (dotSubsequent [s] cs p).map (fun r => (.ident (String.ofList r.1), r.2.1, r.2.2)) := by
  have h1 : (s = '+' || s = '-') = true := by rcases hs with rfl | rfl <;> rfl
  unfold peculiarIdentifier
  simp only [h1, if_true]
  cases cs with
  | nil => simp [dotSubsequent, Except.map]
  | cons c r =>
    have : c ≠ '.' := by intro e; subst e; simp at hc
    simp only [this, if_false]
    cases dotSubsequent [s] (c :: r) p <;> rfl

theorem peculiar_dot (cs : List Char) (p : Pos) :
    peculiarIdentifier '.' cs p
      = (dotSubsequent ['.'] cs p).map (fun r => (.ident (String.ofList r.1), r.2.1, r.2.2)) := by
  unfold peculiarIdentifier
  have : ('.' = '+' || '.' = '-') = false := by decide
  simp only [this]
  cases dotSubsequent ['.'] cs p <;> rfl

theorem startsDelim_head {c : Char} {r : List Char} (h : startsDelim (c :: r) = true) :
    c ∈ specials := by
  apply Decidable.byContradiction; intro hn
  simp only [startsDelim] at h
  rw [isDelimiter_of_not_mem hn] at h; cases h

theorem token_sign_pec (s : Char) (hs : s = '+' ∨ s = '-') (cs : List Char) (p : Pos)
    (hc : ∀ c r, cs = c :: r → isDigit c = false ∧ c ≠ '.') :
    token (s :: cs) p = (peculiarIdentifier s cs (adv s p)).map some := by
  rw [token.eq_def]
  cases cs with
  | nil => rcases hs with rfl | rfl <;> simp
  | cons c r =>
    obtain ⟨h1, h2⟩ := hc c r rfl
    rcases hs with rfl | rfl <;> simp [h1, h2]

theorem token_plainIdent (s rest : List Char) (p : Pos) (h : isPlainIdent s = true)
    (hd : startsDelim rest = true) :
    token (s ++ rest) p = .ok (some (.ident (String.ofList s), rest, advs s p)) := by
  cases s with
  | nil => simp [isPlainIdent] at h
  | cons c cs =>
    rw [isPlainIdent.eq_def] at h; dsimp only at h
    by_cases hi : isInitial c = true
    · rw [if_pos hi] at h
      rw [List.cons_append, token_other c _ p (isInitial_not_starter hi) (isInitial_not_digit hi),
        normalIdentifier_fwd c cs rest _ (by simpa using h) hd]
      rfl
    rw [if_neg hi] at h
    by_cases hs : (c = '+' || c = '-') = true
    · rw [if_pos hs] at h
      have hs : c = '+' ∨ c = '-' := by simpa using hs
      cases cs with
      | nil =>
        simp only [List.cons_append, List.nil_append]
        rw [token_sign_pec c hs rest p, peculiar_sign c hs rest _, dotSubsequent_nil _ _ _ hd]
        · rfl
        · cases rest with
          | nil => simp
          | cons x r =>
            have := startsDelim_head hd
            simp only [List.head?_cons, ne_eq, Option.some.injEq]
            rintro rfl; revert this; decide
        · intro x r e
          subst e
          have := startsDelim_head hd
          constructor
          · cases hx : isDigit x with
            | false => rfl
            | true => exact absurd this (isDigit_ns hx)
          · rintro rfl; revert this; decide
      | cons d more =>
        simp only [Bool.and_eq_true] at h
        obtain ⟨h0, hall⟩ := h
        have hall' : ∀ c ∈ d :: more, isSubsequent c = true := by simpa using hall
        have hd1 : isDigit d = false ∧ d ≠ '.' := by
          simp only [Bool.or_eq_true, decide_eq_true_eq] at h0
          rcases h0 with ((rfl | rfl) | rfl) | h0
          · decide
          · decide
          · decide
          · exact ⟨isInitial_not_digit h0, by rintro rfl; revert h0; decide⟩
        have h0' : (d = '+' || d = '-' || d = '.' || d = '@' || isInitial d) = true := by
          simp only [Bool.or_eq_true, decide_eq_true_eq] at h0 ⊢
          rcases h0 with ((h0 | h0) | h0) | h0 <;> simp [h0]
        simp only [List.cons_append]
        rw [token_sign_pec c hs _ p, peculiar_sign c hs _ _]
        · have := dotSubsequent_fwd [c] d more rest (adv c p) h0' hall' hd
          simp only [List.cons_append] at this
          rw [this]; rfl
        · simp [hd1.2]
        · intro x r e; cases e; exact hd1
    rw [if_neg hs] at h
    by_cases hdot : c = '.'
    · rw [if_pos hdot] at h
      subst hdot
      cases cs with
      | nil => simp at h
      | cons d more =>
        simp only [Bool.and_eq_true] at h
        obtain ⟨h0, hall⟩ := h
        have hall' : ∀ c ∈ d :: more, isSubsequent c = true := by simpa using hall
        have hnd : isDelimiter d = false :=
          isDelimiter_of_not_mem (isSubsequent_ns (hall' d (by simp)))
        simp only [List.cons_append]
        rw [token.eq_def]
        simp only [hnd]
        have := dotSubsequent_fwd ['.'] d more rest (adv '.' p) h0 hall' hd
        simp only [List.cons_append] at this
        simp [peculiar_dot, this, Except.map]
    · rw [if_neg hdot] at h; cases h

/-! ## numbers -/

theorem Char_isDigit_eq (c : Char) : c.isDigit = isDigit c := by
  rw [Bool.eq_iff_iff, isDigit_iff]
  simp only [Char.isDigit, ge_iff_le, Bool.and_eq_true, decide_eq_true_eq, UInt32.le_iff_toNat_le]
  rfl

theorem showNat_digits (n : Nat) : ∀ c ∈ showNat n, isDigit c = true := by
  intro c hc
  rw [← Char_isDigit_eq]
  exact Nat.isDigit_of_mem_toDigits (by decide) (by decide) hc

theorem showNat_ne_nil (n : Nat) : showNat n ≠ [] := Nat.toDigits_ne_nil

theorem digitsVal_snoc (l : List Char) (d : Char) :
    digitsVal (l ++ [d]) = digitsVal l * 10 + (d.toNat - 48) := by
  simp [digitsVal, List.foldl_append]

theorem digitsVal_showNat (n : Nat) : digitsVal (showNat n) = n := by
  induction n using Nat.strongRecOn with
  | _ n ih =>
    unfold showNat
    rw [Nat.toDigits_eq_if (by decide)]
    split
    · rename_i h
      simp [digitsVal, Nat.toNat_digitChar_sub_48_of_lt_ten h]
    · rename_i h
      have := ih (n / 10) (by omega)
      unfold showNat at this
      rw [digitsVal_snoc, this, Nat.toNat_digitChar_sub_48_of_lt_ten (Nat.mod_lt _ (by decide))]
      omega

theorem all_isDigit_of {ds : List Char} (h : ∀ c ∈ ds, isDigit c = true) :
    ds.all isDigit = true := by simpa using h

/-- the round trip `str::parse::<i32>` ∘ `to_string` -/
theorem parseI32_showInt (i : Int) (h : fitsI32 i = true) : parseI32? (showInt i) = some i := by
  unfold showInt
  split
  · rename_i hneg
    unfold parseI32?
    have h1 : (showNat i.natAbs).isEmpty = false := by
      cases hh : showNat i.natAbs with
      | nil => exact absurd hh (showNat_ne_nil _)
      | cons => rfl
    simp only [h1, all_isDigit_of (showNat_digits _), digitsVal_showNat]
    have : -((i.natAbs : Nat) : Int) = i := by omega
    simp [this, h]
  · rename_i hneg
    cases hh : showNat i.natAbs with
    | nil => exact absurd hh (showNat_ne_nil _)
    | cons d ds =>
      have hd : isDigit d = true := showNat_digits i.natAbs d (by simp [hh])
      have hd1 : d ≠ '-' := by rintro rfl; revert hd; decide
      have hd2 : d ≠ '+' := by rintro rfl; revert hd; decide
      have hall := all_isDigit_of (showNat_digits i.natAbs)
      have hv := digitsVal_showNat i.natAbs
      rw [hh] at hall hv
      unfold parseI32?
      have : ((i.natAbs : Nat) : Int) = i := by omega
      split
      rename_i heq
      split at heq
      · rename_i e; simp at e; exact absurd e.1 hd1
      · rename_i e; simp at e; exact absurd e.1 hd2
      · cases heq
        simp [hall, hv, this, h]

theorem parseU32_showNat (n : Nat) (h : n ≤ 4294967295) : parseU32? (showNat n) = some n := by
  unfold parseU32?
  have h1 : (showNat n).isEmpty = false := by
    cases hh : showNat n with
    | nil => exact absurd hh (showNat_ne_nil _)
    | cons => rfl
  simp [h1, all_isDigit_of (showNat_digits _), digitsVal_showNat, h]

theorem token_digit (c : Char) (cs : List Char) (p : Pos) (h : isDigit c = true) :
    token (c :: cs) p = (number c cs (adv c p)).map some := by
  have hs : c ∉ tokenStarters := by
    intro hc
    have : tokenStarters.all (fun c => !isDigit c) = true := by decide
    have := List.all_eq_true.mp this c hc
    simp [h] at this
  simp only [tokenStarters, List.mem_cons, List.not_mem_nil, or_false, not_or] at hs
  rw [token.eq_def]
  simp [hs, h]

theorem token_sign_num (s : Char) (hs : s = '+' ∨ s = '-') (d : Char) (cs : List Char) (p : Pos)
    (hd : isDigit d = true ∨ d = '.') :
    token (s :: d :: cs) p = (number s (d :: cs) (adv s p)).map some := by
  rw [token.eq_def]
  rcases hs with rfl | rfl <;> rcases hd with hd | hd <;> simp [hd]

theorem delim_not {c : Char} (h : isDelimiter c = true) :
    c ≠ 'e' ∧ c ≠ '.' ∧ c ≠ '/' ∧ isDigit c = false := by
  refine ⟨?_, ?_, ?_, ?_⟩
  · rintro rfl; revert h; decide
  · rintro rfl; revert h; decide
  · rintro rfl; revert h; decide
  · cases hd : isDigit c with
    | false => rfl
    | true => rw [isDelimiter_of_not_mem (isDigit_ns hd)] at h; cases h

theorem stopsAt_digit_of_delim {rest : List Char} (h : startsDelim rest = true) :
    stopsAt isDigit rest = true :=
  stopsAt_of_startsDelim _ (fun _ => isDigit_ns) h

theorem number_int (first : Char) (ds rest : List Char) (p : Pos) (i : Int)
    (hds : ∀ c ∈ ds, isDigit c = true) (hd : startsDelim rest = true)
    (hp : parseI32? (first :: ds) = some i) :
    number first (ds ++ rest) p = .ok (.prim (.int i), rest, advs ds p) := by
  unfold number
  rw [takeRun_append isDigit ds rest p [] hds (stopsAt_digit_of_delim hd)]
  cases rest with
  | nil => simp [integerToken, hp]
  | cons c r =>
    simp only [startsDelim] at hd
    obtain ⟨h1, h2, h3, -⟩ := delim_not hd
    simp [h1, h2, h3, testDelimiter, hd, integerToken, hp, bind, Except.bind]

theorem number_rat (first : Char) (ds den rest : List Char) (p : Pos) (a : Int) (b : Nat)
    (hds : ∀ c ∈ ds, isDigit c = true) (hden : ∀ c ∈ den, isDigit c = true)
    (hd : startsDelim rest = true)
    (hp : parseI32? (first :: ds) = some a) (hq : parseU32? den = some b) (hb : b ≠ 0) :
    number first (ds ++ '/' :: (den ++ rest)) p
      = .ok (.prim (.rat a b), rest, advs (ds ++ '/' :: den) p) := by
  unfold number
  rw [takeRun_append isDigit ds _ p [] hds (by simp [stopsAt]; decide)]
  have h1 : ('/' : Char) ≠ 'e' := by decide
  have h2 : ('/' : Char) ≠ '.' := by decide
  simp only [List.reverse_nil, List.nil_append, h1, h2, if_false, if_true]
  rw [takeRun_append isDigit den rest _ [] hden (stopsAt_digit_of_delim hd)]
  simp only [List.reverse_nil, List.nil_append, endOfToken_eq, hd, if_true, hp, hq]
  cases b with
  | zero => exact absurd rfl hb
  | succ b => simp [bind, Except.bind, pure, Except.pure, advs_append]

/-- a sign followed by a digit, or a digit: the texts on which `token` calls `number` -/
def NumStart (first : Char) (ds : List Char) : Prop :=
  isDigit first = true ∨ ((first = '+' ∨ first = '-') ∧ ∃ d ds', ds = d :: ds' ∧ isDigit d = true)

theorem token_numStart {first : Char} {ds : List Char} (h : NumStart first ds)
    (more : List Char) (p : Pos) :
    token (first :: (ds ++ more)) p = (number first (ds ++ more) (adv first p)).map some := by
  rcases h with h | ⟨hs, d, ds', rfl, hd⟩
  · exact token_digit _ _ _ h
  · exact token_sign_num _ hs _ _ _ (Or.inl hd)

theorem showInt_shape (i : Int) : ∃ first ds, showInt i = first :: ds ∧
    (∀ c ∈ ds, isDigit c = true) ∧ NumStart first ds := by
  unfold showInt
  split
  · cases hh : showNat i.natAbs with
    | nil => exact absurd hh (showNat_ne_nil _)
    | cons d ds =>
      have hall := showNat_digits i.natAbs
      rw [hh] at hall
      exact ⟨'-', d :: ds, rfl, hall, Or.inr ⟨Or.inr rfl, d, ds, rfl, hall d (by simp)⟩⟩
  · cases hh : showNat i.natAbs with
    | nil => exact absurd hh (showNat_ne_nil _)
    | cons d ds =>
      have hall := showNat_digits i.natAbs
      rw [hh] at hall
      exact ⟨d, ds, rfl, fun c hc => hall c (by simp [hc]), Or.inl (hall d (by simp))⟩

theorem token_int (i : Int) (rest : List Char) (p : Pos) (h : fitsI32 i = true)
    (hd : startsDelim rest = true) :
    token (showInt i ++ rest) p = .ok (some (.prim (.int i), rest, advs (showInt i) p)) := by
  obtain ⟨first, ds, h1, h2, h3⟩ := showInt_shape i
  have hp := parseI32_showInt i h
  rw [h1] at hp ⊢
  rw [List.cons_append, token_numStart h3, number_int first ds rest _ i h2 hd hp]
  rfl

theorem token_rat (n : Int) (d : Nat) (rest : List Char) (p : Pos) (h : fitsI32 n = true)
    (hd0 : 0 < d) (hd1 : d ≤ 4294967295) (hd : startsDelim rest = true) :
    token (showInt n ++ '/' :: showNat d ++ rest) p
      = .ok (some (.prim (.rat n d), rest, advs (showInt n ++ '/' :: showNat d) p)) := by
  obtain ⟨first, ds, h1, h2, h3⟩ := showInt_shape n
  have hp := parseI32_showInt n h
  rw [h1] at hp ⊢
  simp only [List.cons_append, List.append_assoc]
  rw [token_numStart h3, number_rat first ds (showNat d) rest _ n d h2 (showNat_digits d) hd hp
    (parseU32_showNat d hd1) (by omega)]
  rfl

/-! ## reals -/

theorem takeWhile_append_stop (f : Char → Bool) (ds rest : List Char)
    (hds : ∀ c ∈ ds, f c = true) (hs : stopsAt f rest = true) :
    (ds ++ rest).takeWhile f = ds ∧ (ds ++ rest).dropWhile f = rest := by
  have := takeRun_append f ds rest (1, 1) [] hds hs
  rw [takeRun_spec] at this
  simp only [List.reverse_nil, List.nil_append, Prod.mk.injEq] at this
  exact ⟨this.1, this.2.1⟩

/-- exponent part `e sign? digits+` -/
def ExpOK : Option (List Char × List Char) → Prop
  | none => True
  | some (s, d) => isSign s = true ∧ d ≠ [] ∧ ∀ c ∈ d, isDigit c = true

def expTextOf : Option (List Char × List Char) → List Char
  | none => []
  | some (s, d) => 'e' :: (s ++ d)

theorem isSign_cases {s : List Char} (h : isSign s = true) : s = [] ∨ s = ['+'] ∨ s = ['-'] := by
  simpa [isSign, or_assoc] using h

theorem numberSuffix_fwd (lit s d rest : List Char) (p : Pos) (hs : isSign s = true)
    (hd0 : d ≠ []) (hd : ∀ c ∈ d, isDigit c = true) (hstop : stopsAt isDigit rest = true) :
    numberSuffix lit ('e' :: (s ++ (d ++ rest))) p
      = (lit ++ 'e' :: (s ++ d), rest, advs ('e' :: (s ++ d)) p) := by
  unfold numberSuffix
  rcases isSign_cases hs with rfl | rfl | rfl
  · cases d with
    | nil => exact absurd rfl hd0
    | cons x d' =>
      have hx : isDigit x = true := hd x (by simp)
      have h1 : x ≠ '+' := by rintro rfl; revert hx; decide
      have h2 : x ≠ '-' := by rintro rfl; revert hx; decide
      have := takeRun_append isDigit (x :: d') rest (adv 'e' p) [] hd hstop
      simp only [List.cons_append] at this
      simp [h1, h2, this]
  · have := takeRun_append isDigit d rest (adv '+' (adv 'e' p)) [] hd hstop
    simp [this]
  · have := takeRun_append isDigit d rest (adv '-' (adv 'e' p)) [] hd hstop
    simp [this]

theorem stopsAt_digit_exp (e : Option (List Char × List Char)) (rest : List Char)
    (hd : startsDelim rest = true) : stopsAt isDigit (expTextOf e ++ rest) = true := by
  cases e with
  | none => exact stopsAt_digit_of_delim hd
  | some sd => obtain ⟨s, d⟩ := sd; simp [expTextOf, stopsAt]; decide

theorem real_fwd (lit f : List Char) (e : Option (List Char × List Char)) (rest : List Char)
    (p : Pos) (hf : ∀ c ∈ f, isDigit c = true) (he : ExpOK e) (hd : startsDelim rest = true) :
    real lit ('.' :: (f ++ (expTextOf e ++ rest))) p
      = .ok (lit ++ '.' :: (f ++ expTextOf e), rest, advs ('.' :: (f ++ expTextOf e)) p) := by
  unfold real
  cases f with
  | nil =>
    cases e with
    | none =>
      simp only [expTextOf, List.nil_append, List.append_nil]
      cases rest with
      | nil => rfl
      | cons c r =>
        simp only [startsDelim] at hd
        obtain ⟨h1, -, -, h4⟩ := delim_not hd
        simp [h1, h4, testDelimiter, hd, bind, Except.bind, pure, Except.pure]
    | some sd =>
      obtain ⟨s, d⟩ := sd
      obtain ⟨h1, h2, h3⟩ := he
      simp only [expTextOf, List.nil_append, List.cons_append, List.append_assoc, if_true]
      rw [numberSuffix_fwd _ s d rest _ h1 h2 h3 (stopsAt_digit_of_delim hd)]
      simp [endOfToken_eq, hd, bind, Except.bind, pure, Except.pure]
  | cons x f' =>
    have hx : isDigit x = true := hf x (by simp)
    have hxe : x ≠ 'e' := by rintro rfl; revert hx; decide
    have := takeRun_append isDigit (x :: f') (expTextOf e ++ rest) (adv '.' p) [] hf
      (stopsAt_digit_exp e rest hd)
    simp only [List.cons_append] at this
    simp only [List.cons_append, hxe, if_false, hx, if_true, this]
    cases e with
    | none =>
      simp only [expTextOf, List.nil_append, List.append_nil]
      cases rest with
      | nil => simp
      | cons c r =>
        simp only [startsDelim] at hd
        obtain ⟨h1, -, -, h4⟩ := delim_not hd
        simp [h1, testDelimiter, hd, bind, Except.bind, pure, Except.pure]
    | some sd =>
      obtain ⟨s, d⟩ := sd
      obtain ⟨h1, h2, h3⟩ := he
      simp only [expTextOf, List.cons_append, List.append_assoc, if_true]
      rw [numberSuffix_fwd _ s d rest _ h1 h2 h3 (stopsAt_digit_of_delim hd)]
      simp [endOfToken_eq, hd, bind, Except.bind, pure, Except.pure, advs_append]

def fracTextOf : Option (List Char) → List Char
  | none => []
  | some f => '.' :: f

def FracOK : Option (List Char) → Prop
  | none => True
  | some f => ∀ c ∈ f, isDigit c = true

theorem number_real (first : Char) (ds : List Char) (fr : Option (List Char))
    (e : Option (List Char × List Char)) (rest : List Char) (p : Pos)
    (hds : ∀ c ∈ ds, isDigit c = true) (hfr : FracOK fr) (he : ExpOK e)
    (hsome : fr.isSome = true ∨ e.isSome = true) (hd : startsDelim rest = true)
    (hv : validReal (first :: (ds ++ (fracTextOf fr ++ expTextOf e))) = true) :
    number first (ds ++ (fracTextOf fr ++ (expTextOf e ++ rest))) p
      = .ok (.prim (.real (String.ofList (first :: (ds ++ (fracTextOf fr ++ expTextOf e))))),
          rest, advs (ds ++ (fracTextOf fr ++ expTextOf e)) p) := by
  unfold number
  cases fr with
  | some f =>
    rw [takeRun_append isDigit ds _ p [] hds (by simp [fracTextOf, stopsAt]; decide)]
    have h1 : ('.' : Char) ≠ 'e' := by decide
    simp only [fracTextOf, List.cons_append, List.reverse_nil, List.nil_append, h1, if_false,
      if_true]
    rw [real_fwd _ f e rest _ hfr he hd]
    simp only [fracTextOf, List.cons_append] at hv
    simp [bind, Except.bind, realToken, hv, advs_append]
  | none =>
    cases e with
    | none => simp at hsome
    | some sd =>
      obtain ⟨s, d⟩ := sd
      obtain ⟨h1, h2, h3⟩ := he
      rw [takeRun_append isDigit ds _ p [] hds (by simp [fracTextOf, expTextOf, stopsAt]; decide)]
      simp only [fracTextOf, expTextOf, List.cons_append, List.reverse_nil, List.nil_append,
        List.append_assoc, if_true]
      rw [numberSuffix_fwd _ s d rest _ h1 h2 h3 (stopsAt_digit_of_delim hd)]
      simp only [fracTextOf, expTextOf, List.nil_append] at hv
      simp [endOfToken_eq, hd, bind, Except.bind, realToken, hv, advs_append]

/-- `validReal` after the sign has been removed -/
def validBody (t : List Char) : Bool :=
  let ip := t.takeWhile isDigit
  let t := t.dropWhile isDigit
  let (fp, t) := match t with
    | '.' :: r => (r.takeWhile isDigit, r.dropWhile isDigit)
    | r => ([], r)
  let mantOk := !(ip.isEmpty && fp.isEmpty)
  match t with
  | [] => mantOk
  | 'e' :: r =>
    let r := match r with
      | '-' :: r' => r'
      | '+' :: r' => r'
      | r' => r'
    mantOk && !r.isEmpty && r.all isDigit
  | _ => false

theorem validReal_eq (text : List Char) : validReal text = validBody (match text with
    | '-' :: r => r
    | '+' :: r => r
    | r => r) := rfl

theorem validBody_fwd (x : Char) (ip : List Char) (fr : Option (List Char))
    (e : Option (List Char × List Char))
    (hip : ∀ c ∈ x :: ip, isDigit c = true) (hfr : FracOK fr) (he : ExpOK e) :
    validBody (x :: ip ++ (fracTextOf fr ++ expTextOf e)) = true := by
  unfold validBody
  have hstop : stopsAt isDigit (fracTextOf fr ++ expTextOf e) = true := by
    cases fr with
    | some f => simp [fracTextOf, stopsAt]; decide
    | none =>
      cases e with
      | none => rfl
      | some sd => simp [fracTextOf, expTextOf, stopsAt]; decide
  obtain ⟨h1, h2⟩ := takeWhile_append_stop isDigit (x :: ip) _ hip hstop
  rw [h1, h2]
  have hexp : ∀ (b : Bool), (match expTextOf e with
      | [] => b
      | 'e' :: r =>
        let r := match r with
          | '-' :: r' => r'
          | '+' :: r' => r'
          | r' => r'
        b && !r.isEmpty && r.all isDigit
      | _ => false) = b := by
    intro b
    cases e with
    | none => rfl
    | some sd =>
      obtain ⟨s, d⟩ := sd
      obtain ⟨g1, g2, g3⟩ := he
      cases d with
      | nil => exact absurd rfl g2
      | cons y d' =>
        have hy : isDigit y = true := g3 y (by simp)
        have hy1 : y ≠ '-' := by rintro rfl; revert hy; decide
        have hy2 : y ≠ '+' := by rintro rfl; revert hy; decide
        have hall : (y :: d').all isDigit = true := all_isDigit_of g3
        rcases isSign_cases g1 with rfl | rfl | rfl
        · simp only [expTextOf, List.nil_append]
          have : (match y :: d' with
              | '-' :: r' => r'
              | '+' :: r' => r'
              | r' => r') = y :: d' := by
            split
            · rename_i heq; simp at heq; exact absurd heq.1 hy1
            · rename_i heq; simp at heq; exact absurd heq.1 hy2
            · rfl
          simp only [this, hall]; simp
        · simp only [expTextOf, List.cons_append, List.nil_append, hall]; simp
        · simp only [expTextOf, List.cons_append, List.nil_append, hall]; simp
  cases fr with
  | none =>
    simp only [fracTextOf, List.nil_append]
    have : (match expTextOf e with
        | '.' :: r => (r.takeWhile isDigit, r.dropWhile isDigit)
        | r => ([], r)) = ([], expTextOf e) := by
      cases e with
      | none => rfl
      | some sd => rfl
    rw [this]
    simp only
    rw [hexp]; simp
  | some f =>
    have hst2 : stopsAt isDigit (expTextOf e) = true := by
      cases e with
      | none => rfl
      | some sd => simp [expTextOf, stopsAt]; decide
    obtain ⟨k1, k2⟩ := takeWhile_append_stop isDigit f _ hfr hst2
    simp only [fracTextOf, List.cons_append, k1, k2]
    rw [hexp]; simp

theorem RealLit.wf_inv {r : RealLit} (h : r.wf = true) :
    isSign r.sign = true ∧ r.ip ≠ [] ∧ (∀ c ∈ r.ip, isDigit c = true) ∧ FracOK r.frac ∧
      ExpOK r.exp ∧ (r.frac.isSome = true ∨ r.exp.isSome = true) ∧
      r.fracText = fracTextOf r.frac ∧ r.expText = expTextOf r.exp := by
  simp only [RealLit.wf, Bool.and_eq_true, Bool.not_eq_true', Bool.or_eq_true] at h
  obtain ⟨⟨⟨⟨⟨h1, h2⟩, h3⟩, h4⟩, h5⟩, h6⟩ := h
  refine ⟨h1, by intro e; simp [e] at h2, by simpa using h3, ?_, ?_, h6, ?_, ?_⟩
  · cases hf : r.frac with
    | none => trivial
    | some f => rw [hf] at h4; simpa [FracOK] using h4
  · cases he : r.exp with
    | none => trivial
    | some sd =>
      obtain ⟨s, d⟩ := sd
      rw [he] at h5
      simp only [Bool.and_eq_true, Bool.not_eq_true'] at h5
      exact ⟨h5.1.1, by intro e; simp [e] at h5, by simpa using h5.2⟩
  · unfold RealLit.fracText; cases r.frac <;> rfl
  · unfold RealLit.expText; cases r.exp with
    | none => rfl
    | some sd => rfl

theorem token_real (r : RealLit) (rest : List Char) (p : Pos) (h : r.wf = true)
    (hd : startsDelim rest = true) :
    token (r.text ++ rest) p
      = .ok (some (.prim (.real (String.ofList r.text)), rest, advs r.text p)) := by
  obtain ⟨h1, h2, h3, h4, h5, h6, h7, h8⟩ := RealLit.wf_inv h
  unfold RealLit.text
  rw [h7, h8]
  cases hip : r.ip with
  | nil => exact absurd hip h2
  | cons x ip =>
    rw [hip] at h3
    have hx : isDigit x = true := h3 x (by simp)
    have hx1 : x ≠ '-' := by rintro rfl; revert hx; decide
    have hx2 : x ≠ '+' := by rintro rfl; revert hx; decide
    have hbody := validBody_fwd x ip r.frac r.exp h3 h4 h5
    rcases isSign_cases h1 with hs | hs | hs <;> rw [hs]
    · have hv : validReal (x :: (ip ++ (fracTextOf r.frac ++ expTextOf r.exp))) = true := by
        rw [validReal_eq]
        split
        · rename_i heq; simp at heq; exact absurd heq.1 hx1
        · rename_i heq; simp at heq; exact absurd heq.1 hx2
        · exact hbody
      have hns : NumStart x ip := Or.inl hx
      simp only [List.nil_append, List.cons_append, List.append_assoc]
      rw [token_numStart hns, number_real x ip r.frac r.exp rest _
        (fun c hc => h3 c (by simp [hc])) h4 h5 h6 hd hv]
      rfl
    · have hv : validReal ('+' :: (x :: ip ++ (fracTextOf r.frac ++ expTextOf r.exp))) = true := by
        rw [validReal_eq]; exact hbody
      have hns : NumStart '+' (x :: ip) := Or.inr ⟨Or.inl rfl, x, ip, rfl, hx⟩
      simp only [List.cons_append, List.nil_append, List.append_assoc]
      have := number_real '+' (x :: ip) r.frac r.exp rest (adv '+' p) h3 h4 h5 h6 hd hv
      simp only [List.cons_append] at this
      have ht := token_numStart hns (fracTextOf r.frac ++ (expTextOf r.exp ++ rest)) p
      simp only [List.cons_append] at ht
      rw [ht, this]
      rfl
    · have hv : validReal ('-' :: (x :: ip ++ (fracTextOf r.frac ++ expTextOf r.exp))) = true := by
        rw [validReal_eq]; exact hbody
      have hns : NumStart '-' (x :: ip) := Or.inr ⟨Or.inr rfl, x, ip, rfl, hx⟩
      simp only [List.cons_append, List.nil_append, List.append_assoc]
      have := number_real '-' (x :: ip) r.frac r.exp rest (adv '-' p) h3 h4 h5 h6 hd hv
      simp only [List.cons_append] at this
      have ht := token_numStart hns (fracTextOf r.frac ++ (expTextOf r.exp ++ rest)) p
      simp only [List.cons_append] at ht
      rw [ht, this]
      rfl

/-- every supported token, written as `renderTok` writes it and followed by something that ends
it, is read back as itself -/
theorem token_render (t : Token) (rest : List Char) (p : Pos) (hs : SupportedTok t)
    (hf : followOK t rest = true) :
    token (renderTok t ++ rest) p = .ok (some (t, rest, advs (renderTok t) p)) := by
  have hfol : ∀ {t : Token}, t ≠ .unquote → followOK t rest = true → selfDelimiting t = false →
      (startsDelim rest = true ∨ (sharpTok t = true ∧ startsSharp rest = true)) := by
    intro t ht hf hsd
    unfold followOK at hf
    split at hf
    · exact absurd rfl ht
    · simpa [hsd] using hf
  cases t with
  | lparen => exact token_lparen _ _
  | rparen => exact token_rparen _ _
  | vecIntro => exact token_vecIntro _ _
  | byteVecIntro => exact token_byteVecIntro _ _
  | quote => exact token_quote _ _
  | quasiquote => exact token_quasiquote _ _
  | unquoteSplicing => exact token_unquoteSplicing _ _
  | unquote =>
    simp only [followOK, Bool.and_eq_true, Bool.not_eq_true', bne_iff_ne, ne_eq] at hf
    cases rest with
    | nil => simp at hf
    | cons c r =>
      have : c ≠ '@' := by intro e; subst e; simp at hf
      exact token_unquote c r p this
  | period =>
    rcases hfol (by simp) hf rfl with h | h
    · exact token_period _ _ h
    · simp [sharpTok] at h
  | ident s =>
    simp only [renderTok]
    split
    · rename_i hp
      rcases hfol (by simp) hf (by simp [selfDelimiting, hp]) with h | h
      · have := token_plainIdent s.toList rest p hp h
        simpa using this
      · simp [sharpTok] at h
    · rename_i hp
      have hb : '|' ∉ s.toList := by
        rcases hs with h | h
        · exact absurd h hp
        · exact h
      have := token_quoted s.toList rest p hb
      simpa using this
  | prim pr =>
    cases pr with
    | str s =>
      have := token_string (s.toList.map canonPiece) rest p
        (by intro x hx; obtain ⟨c, -, rfl⟩ := List.mem_map.mp hx; exact canonPiece_valid c)
      rw [canonPiece_char] at this
      simpa [renderTok, showStr] using this
    | chr c =>
      rcases hfol (by simp) hf rfl with h | h
      · exact token_char c rest p (Or.inl h)
      · exact token_char c rest p (Or.inr h.2)
    | bool b =>
      rcases hfol (by simp) hf rfl with h | h
      · exact token_bool b rest p (Or.inl h)
      · exact token_bool b rest p (Or.inr h.2)
    | int i =>
      rcases hfol (by simp) hf rfl with h | h
      · exact token_int i rest p hs h
      · simp [sharpTok] at h
    | rat n d =>
      rcases hfol (by simp) hf rfl with h | h
      · have := token_rat n d rest p hs.1 hs.2.1 hs.2.2 h
        simpa [renderTok] using this
      · simp [sharpTok] at h
    | real tx =>
      rcases hfol (by simp) hf rfl with h | h
      · obtain ⟨r, hr, rfl⟩ := hs
        have := token_real r rest p hr h
        simpa [renderTok] using this
      · simp [sharpTok] at h

/-! ## token sequences -/

theorem notWs_of_ns {c : Char} (h : c ∉ specials) : isWs c = false ∧ c ≠ ';' := by
  simp only [specials, List.mem_cons, List.not_mem_nil, or_false, not_or] at h
  simp [isWs, h]

/-- the text of a supported token starts with a character that is not atmosphere -/
theorem renderTok_head (t : Token) (hs : SupportedTok t) :
    ∃ c r, renderTok t = c :: r ∧ isWs c = false ∧ c ≠ ';' := by
  have ns : ∀ {c : Char} (r : List Char), c ∉ specials →
      ∃ c' r', c :: r = c' :: r' ∧ isWs c' = false ∧ c' ≠ ';' :=
    fun r h => ⟨_, r, rfl, notWs_of_ns h⟩
  cases t with
  | ident s =>
    simp only [renderTok]
    split
    · rename_i hp
      cases hl : s.toList with
      | nil => rw [hl] at hp; simp [isPlainIdent] at hp
      | cons c cs =>
        rw [hl, isPlainIdent.eq_def] at hp
        dsimp only at hp
        apply ns
        by_cases hi : isInitial c = true
        · exact not_mem_specials_of_class isInitial (by decide) hi
        rw [if_neg hi] at hp
        by_cases h2 : (c = '+' || c = '-') = true
        · simp only [Bool.or_eq_true, decide_eq_true_eq] at h2
          rcases h2 with rfl | rfl <;> decide
        rw [if_neg h2] at hp
        by_cases h3 : c = '.'
        · subst h3; decide
        · rw [if_neg h3] at hp; cases hp
    · exact ⟨'|', _, rfl, by decide, by decide⟩
  | prim pr =>
    cases pr with
    | str s => exact ⟨'"', _, rfl, by decide, by decide⟩
    | chr c => exact ⟨'#', _, rfl, by decide, by decide⟩
    | bool b => exact ⟨'#', _, rfl, by decide, by decide⟩
    | int i =>
      obtain ⟨first, ds, h1, -, h3⟩ := showInt_shape i
      simp only [renderTok, h1]
      apply ns
      rcases h3 with h | ⟨h | h, -⟩
      · exact isDigit_ns h
      · subst h; decide
      · subst h; decide
    | rat n d =>
      obtain ⟨first, ds, h1, -, h3⟩ := showInt_shape n
      simp only [renderTok, h1, List.cons_append]
      apply ns
      rcases h3 with h | ⟨h | h, -⟩
      · exact isDigit_ns h
      · subst h; decide
      · subst h; decide
    | real tx =>
      obtain ⟨r, hr, rfl⟩ := hs
      obtain ⟨h1, h2, h3, -⟩ := RealLit.wf_inv hr
      simp only [renderTok, String.toList_ofList, RealLit.text]
      cases hip : r.ip with
      | nil => exact absurd hip h2
      | cons x ip =>
        have hx : isDigit x = true := h3 x (by simp [hip])
        rcases isSign_cases h1 with hs | hs | hs <;> rw [hs]
        · exact ns _ (isDigit_ns hx)
        · exact ns _ (by decide)
        · exact ns _ (by decide)
  | _ => exact ⟨_, _, rfl, by decide, by decide⟩

theorem renderTok_startsTok (t : Token) (hs : SupportedTok t) (rest : List Char) :
    startsTok (renderTok t ++ rest) = true := by
  obtain ⟨c, r, h1, h2, h3⟩ := renderTok_head t hs
  simp [h1, startsTok, h2, h3]

theorem renderTok_length_pos (t : Token) (hs : SupportedTok t) : 0 < (renderTok t).length := by
  obtain ⟨c, r, h1, -⟩ := renderTok_head t hs
  simp [h1]

/-- the lexer on a rendered token sequence -/
theorem allAux_render (ts : List Token) (layout : List (List Char))
    (hs : ∀ t ∈ ts, SupportedTok t) (hl : ValidLayout ts layout) (fuel : Nat) (p : Pos)
    (acc : List LToken) (hf : (interleave ts layout).length < fuel) :
    ∃ lts, allAux fuel (interleave ts layout) p acc = (acc.reverse ++ lts, none) ∧
      lts.map (·.tok) = ts := by
  induction ts generalizing layout fuel p acc with
  | nil =>
    cases fuel with
    | zero => omega
    | succ fuel =>
      match layout, hl with
      | [a], hl =>
        simp only [ValidLayout] at hl
        obtain ⟨p', hp⟩ := skipAtmosphere_trail false a p hl
        refine ⟨[], ?_, rfl⟩
        simp [interleave, allAux, next, hp, token]
  | cons t ts ih =>
    cases fuel with
    | zero => omega
    | succ fuel =>
      match layout, hl with
      | a :: l, hl =>
        simp only [ValidLayout] at hl
        obtain ⟨ha, hfo, hl'⟩ := hl
        have hst := hs t (by simp)
        simp only [interleave, List.headD_cons, List.tail_cons] at hf ⊢
        have hnext : next (a ++ (renderTok t ++ interleave ts l)) p
            = .ok (some (t, interleave ts l, advs (renderTok t) (advs a p))) := by
          unfold next
          rw [skipAtmosphere_atmos false a _ p ha (renderTok_startsTok t hst _)]
          exact token_render t _ _ hst hfo
        have hlen := renderTok_length_pos t hst
        simp only [List.length_append] at hf
        obtain ⟨lts, g1, g2⟩ := ih l (fun t ht => hs t (by simp [ht])) hl' fuel
          (advs (renderTok t) (advs a p))
          (⟨t, some (advs (renderTok t) (advs a p))⟩ :: acc) (by omega)
        refine ⟨⟨t, some (advs (renderTok t) (advs a p))⟩ :: lts, ?_, by simp [g2]⟩
        simp [allAux, hnext, g1]

theorem all_render (ts : List Token) (layout : List (List Char))
    (hs : ∀ t ∈ ts, SupportedTok t) (hl : ValidLayout ts layout) :
    (Lex.all (interleave ts layout)).1.map (·.tok) = ts ∧
      (Lex.all (interleave ts layout)).2 = none := by
  obtain ⟨lts, h1, h2⟩ := allAux_render ts layout hs hl _ (1, 1) [] (Nat.lt_succ_self _)
  unfold Lex.all
  rw [h1]
  exact ⟨by simpa using h2, rfl⟩

theorem startsSharp_cons_eq (c : Char) (x y : List Char) :
    startsSharp (c :: x) = startsSharp (c :: y) := by
  by_cases hc : c = '#'
  · subst hc; rfl
  · have : ∀ z, startsSharp (c :: z) = false := by
      intro z; unfold startsSharp; split
      · rename_i heq; simp at heq; exact absurd heq.1 hc
      · rfl
    rw [this, this]

theorem followOK_append (t : Token) (c : Char) (x y : List Char)
    (h : followOK t (c :: x) = true) : followOK t (c :: x ++ y) = true := by
  unfold followOK at h ⊢
  rw [List.cons_append, startsSharp_cons_eq c (x ++ y) x]
  split <;> simpa [startsDelim] using h

/-- a non-empty separator ends every token -/
theorem followOK_of_sep (t : Token) (sep x : List Char) (h : isTrail false sep = true)
    (hne : sep ≠ []) : followOK t (sep ++ x) = true := by
  cases sep with
  | nil => exact absurd rfl hne
  | cons c r =>
    have hc : isWs c = true ∨ c = ';' := by
      simp only [isTrail] at h
      by_cases hw : isWs c = true
      · exact Or.inl hw
      · right
        simp only [hw] at h
        by_cases hc : c = ';'
        · exact hc
        · simp [hc] at h
    have hd : isDelimiter c = true := by
      rcases hc with hc | rfl
      · simp [isDelimiter, hc]
      · decide
    have hat : c ≠ '@' := by
      rintro rfl
      rcases hc with hc | hc
      · revert hc; decide
      · revert hc; decide
    unfold followOK
    split
    · simp [hat]
    · simp [startsDelim, hd]

theorem isTrail_of_isAtmos (b : Bool) (a : List Char) (h : isAtmos b a = true) :
    isTrail b a = true := by
  induction a generalizing b with
  | nil => rfl
  | cons c a ih =>
    cases b
    · simp only [isAtmos] at h
      simp only [isTrail]
      split
      · rename_i hw; simp only [hw, if_true] at h; exact ih _ h
      · rename_i hw
        simp only [hw] at h
        split
        · rename_i hc; simp only [hc, if_true] at h; exact ih _ h
        · rename_i hc; simp [hc] at h
    · simp only [isAtmos] at h
      simp only [isTrail]
      split
      · rename_i hn; simp only [hn, if_true] at h; exact ih _ h
      · rename_i hn; simp only [hn] at h; exact ih _ h

/-- the explicit gap condition implies the validity used by `lex_render` -/
theorem validLayout_of_gaps (ts : List Token) (layout : List (List Char))
    (hs : ∀ t ∈ ts, SupportedTok t) (h : ValidGaps ts layout) : ValidLayout ts layout := by
  induction ts generalizing layout with
  | nil =>
    match layout, h with
    | [a], h => exact h
  | cons t ts ih =>
    match layout, h with
    | a :: l, h =>
      simp only [ValidGaps] at h
      obtain ⟨ha, hg, hl⟩ := h
      have hl' := ih l (fun t ht => hs t (by simp [ht])) hl
      refine ⟨ha, ?_, hl'⟩
      cases ts with
      | nil =>
        match l, hl with
        | [b], hl =>
          simp only [ValidGaps] at hl
          simp only [interleave, List.headD_cons]
          cases b with
          | nil =>
            simp only [gapOK, List.headD_cons, List.isEmpty_nil, Bool.not_true, List.head?_nil,
              Bool.false_or, bne_iff_ne, ne_eq] at hg
            unfold followOK
            split
            · exact absurd rfl hg
            · simp [startsDelim]
          | cons c r =>
            have := followOK_of_sep t (c :: r) [] hl (by simp)
            simpa using this
      | cons t2 ts' =>
        match l, hl with
        | b :: l', hl =>
          simp only [ValidGaps] at hl
          simp only [interleave, List.headD_cons, List.tail_cons]
          cases b with
          | nil =>
            simp only [gapOK, List.headD_cons, List.isEmpty_nil, Bool.not_true, List.head?_cons,
              Bool.false_or] at hg
            obtain ⟨c, r, h1, -⟩ := renderTok_head t2 (hs t2 (by simp))
            rw [h1] at hg ⊢
            simpa using followOK_append t c r _ hg
          | cons c r =>
            exact followOK_of_sep t (c :: r) _ (isTrail_of_isAtmos _ _ hl.1) (by simp)

instance decValidLayout : (ts : List Token) → (l : List (List Char)) → Decidable (ValidLayout ts l)
  | [], [] => isFalse (by simp [ValidLayout])
  | [], [a] => inferInstanceAs (Decidable (isTrail false a = true))
  | [], _ :: _ :: _ => isFalse (by simp [ValidLayout])
  | _ :: _, [] => isFalse (by simp [ValidLayout])
  | t :: ts, a :: l =>
    have := decValidLayout ts l
    inferInstanceAs (Decidable (isAtmos false a = true ∧ followOK t (interleave ts l) = true ∧
      ValidLayout ts l))

instance decValidGaps : (ts : List Token) → (l : List (List Char)) → Decidable (ValidGaps ts l)
  | [], [] => isFalse (by simp [ValidGaps])
  | [], [a] => inferInstanceAs (Decidable (isTrail false a = true))
  | [], _ :: _ :: _ => isFalse (by simp [ValidGaps])
  | _ :: _, [] => isFalse (by simp [ValidGaps])
  | t :: ts, a :: l =>
    have := decValidGaps ts l
    inferInstanceAs (Decidable (isAtmos false a = true ∧ gapOK t (l.headD []) ts.head? = true ∧
      ValidGaps ts l))

/-- `#\<name>` and `#\x<hex>`: a character followed by a run of ASCII letters and digits -/
theorem token_char_run (first : Char) (run rest : List Char) (p : Pos) (c : Char)
    (hrun : ∀ x ∈ run, isAsciiAlnum x = true) (hne : run ≠ [])
    (hc : charName? (first :: run) = some c ∨
      (charName? (first :: run) = none ∧ first = 'x' ∧ hexScalar? run = some c ∧
        run.head? ≠ some '+'))
    (h : startsDelim rest = true ∨ startsSharp rest = true) :
    token ('#' :: '\\' :: first :: (run ++ rest)) p
      = .ok (some (.prim (.chr c), rest, advs ('#' :: '\\' :: first :: run) p)) := by
  have hemp : run.isEmpty = false := by cases run <;> simp_all
  have : character first (run ++ rest) (adv first (adv '\\' (adv '#' p)))
      = .ok (.prim (.chr c), rest, advs run (adv first (adv '\\' (adv '#' p)))) := by
    unfold character
    rw [takeRun_append isAsciiAlnum run rest _ [] hrun (stopsAt_alnum_of h)]
    simp only [List.reverse_nil, List.nil_append, endOfSharpToken_of h, bind, Except.bind, hemp]
    rcases hc with hc | ⟨h1, h2, h3, h4⟩
    · simp [hc, pure, Except.pure]
    · subst h2; simp [h1, h3, h4, pure, Except.pure]
  simp [token, this, Except.map]

theorem charNames_ok : ∀ nc ∈ charNames, ∃ first run, nc.1 = first :: run ∧ run ≠ [] ∧
    (∀ x ∈ run, isAsciiAlnum x = true) ∧ charName? (first :: run) = some nc.2 := by
  intro nc h
  simp only [charNames, List.mem_cons, List.not_mem_nil, or_false] at h
  rcases h with rfl | rfl | rfl | rfl | rfl | rfl | rfl | rfl | rfl <;>
    exact ⟨_, _, rfl, by simp, by decide, by decide⟩

end Ruschm.Text

#!/usr/bin/env python3
"""Regenerates MANIFEST.json from the table below (kept valid against /root/.vp/MANIFEST.schema.json)."""
import json, os
ROOT = os.path.dirname(os.path.dirname(os.path.abspath(__file__)))
props = [json.loads(l) for l in open(os.path.join(ROOT, "properties.jsonl"))]

NOTE = ("Trusted: Lean 4.33 kernel with axioms propext/Classical.choice/Quot.sound only (audited by #print axioms on every "
        "run; no sorry/native_decide/bv_decide); the hand-written Lean model of the Rust code, tied to /repo on every run by "
        "the differential correspondence (harness/hx runs the real code rebuilt from the working tree, lean driver runs the "
        "model, checks/*.py diffs); regenerated RuschmGen constants; rustc/cargo/std; Float32 = host binary32.")

CLAIMED = {
 "C09": dict(design="5/C09", technique="Lean 4 theorems (soundness in Q, WF invariant, completeness below 2^15, floor/remainder spec, contagion by dispatch) about RuschmModel/Num.lean + exhaustive operand-grid correspondence model<->implementation + exact-rational oracle",
   text="Proof: 38 kernel-checked theorems about the executable model of values.rs/base.rs numerics (exact results equal the value in Q for ALL operands, never a wrong exact number, representation invariant preserved by every operation sequence, division by exact zero is an error, floor/ceiling/floor-quotient/floor-remainder specs, inexact contagion). The model is tied to the code by running every operation of a 76-expression operand grid (all pairs, triples of a sub-grid) on the real interpreter and on the model and comparing bit-for-bit, and by an independent exact-rational oracle on the implementation."),
 "C10": dict(design="5/C10", technique="Lean 4 theorems (order iff order in Q, chain = conjunction of adjacent pairs, max/min extreme + contagion, eqv? iff same exactness and value) about RuschmModel/Num.lean + exhaustive pair/triple correspondence + exact-rational oracle",
   text="Proof: 19 kernel-checked theorems (lt/gt/le/ge/eq iff the order of the values in Q for all exact operands with positive denominators; mixed comparisons are the binary32 comparison of the converted operands; n-ary chains are the conjunction of adjacent pairs; max/min return an argument that is extreme and are inexact iff some argument is; eqv? on well-formed numbers iff same exactness and equal value). Tie: all ordered pairs of the operand grid and triples of a sub-grid under = < > <= >= max min eqv?, real interpreter vs model vs exact rationals."),
 "C06": dict(design="5/C06", technique="Lean 4 theorems (per-class lexing round trips, atmosphere skipping, layout invariance lex_render, boundaries_at_delimiters, totality) about RuschmModel/Lex.lean,Read.lean + exhaustive short-string and random tree/layout correspondence + boundary oracle",
   text="Proof: kernel-checked theorems about the executable model of lexer.rs and the reader half of parser.rs: every supported token class lexes back to itself before a delimiter (incl. parseI32 (show i) = i for all i32), any atmosphere is skipped, LAYOUT INVARIANCE lex_render for every token list and every valid layout, tokens end only at delimiters (with the documented '#'-after-boolean/character residue, a known finding pinned by the repository's tests), the lexer is total. Tie: every string of length <= 4 over 17 structural characters (lexer and reader, tokens with locations) and random datum trees under random layouts, real code vs model vs the tree rendered."),
}

NOT_YET = "check not built yet (work in progress; DESIGN.md section 10 gives the order of work)"

def main():
    checks = []
    for p in props:
        pid = p["id"]
        if pid in CLAIMED:
            c = CLAIMED[pid]
            checks.append({
                "property_id": pid,
                "quick_cmd": "./check %s --tier quick" % pid,
                "thorough_cmd": "./check %s --tier thorough" % pid,
                "evidence_file": "evidence/%s.json" % pid,
                "replay_cmd_template": "./check %s --replay {path}" % pid,
                "engine": "lean4-proof+correspondence",
                "level_claimed": {"category": "proof", "text": c["text"], "design_ref": "DESIGN.md section " + c["design"]},
                "level_note": NOTE,
                "technique": c["technique"],
            })
    m = {"version": 1,
         "setup_cmd": "./setup.sh",
         "hooks": {"guard": "ruschm_verif",
                   "enable": "RUSTFLAGS='--cfg ruschm_verif' (set by ./check when it builds harness/ against /repo)",
                   "baseline_off_cmd": "cd /repo && cargo test --workspace --no-fail-fast --offline",
                   "source_commits": [x.strip() for x in open(os.path.join(ROOT, "hook_commits.txt"))] if os.path.exists(os.path.join(ROOT, "hook_commits.txt")) else [],
                   "add_only": True},
         "engines": [{"name": "lean4-proof+correspondence", "path": "check",
                      "serves_properties": sorted(CLAIMED),
                      "kind_free_text": "Lean 4 theorems about an executable model (lean/), differential correspondence against the real code (harness/, checks/)"}],
         "checks": checks,
         "notes": "See DESIGN.md. ./check Cnn rebuilds harness and Lean modules from /repo's working tree, audits axioms, runs the correspondence, writes evidence/Cnn.json.",
         "not_applicable": [{"property_id": p["id"], "reason": NOT_YET} for p in props if p["id"] not in CLAIMED]}
    json.dump(m, open(os.path.join(ROOT, "MANIFEST.json"), "w"), indent=1)

if __name__ == "__main__":
    main()

/-
Property C05 (shape part) — the bundled derived forms expand to the expected core forms.

Every theorem here is about the GENERATED constant `Gen.grammarData` (regenerated from
`/repo/src/parser/grammar.sld` on every run): an edit of `grammar.sld` re-opens these proofs.

`expand1 fuel kw use` is one expansion step of the derived form `kw` on `use`, the form WITHOUT
its keyword (what `Transformer::transform` receives), located at the macro use. Nodes built from
the template carry `use.loc`; the user's sub-forms are kept as they are.
-/
import RuschmProofs.MacroMatch

namespace Ruschm.C05
open Ruschm Ruschm.Macro

/-- the keywords of the bundled derived forms -/
def keywords : List String := ["begin", "let", "let*", "cond", "case", "and", "or", "when", "unless"]

/-- every form of the bundled grammar is a `(define-syntax kw (syntax-rules …))` whose rules the
model of `transform_transformer` accepts, the keywords are exactly the nine derived forms, and
`grammarRules` finds each of them -/
theorem grammar_well_formed :
    (Gen.grammarData.map fun d => (defineSyntaxOf d).map (·.1)) = keywords.map some ∧
    (Gen.grammarData.all fun d =>
      match defineSyntaxOf d with
      | some (kw, spec) => (toRules kw spec).toOption.isSome
      | none => false) = true ∧
    (keywords.all fun kw => (grammarRules kw).isSome) = true := by
  refine ⟨by decide, by decide, by decide⟩

/-- every bundled rule is in the supported class of C04 -/
theorem grammar_supported :
    (keywords.all fun kw =>
      match grammarRules kw with
      | some r => SupportedRules r
      | none => false) = true := by
  decide

/-- number of rules per form -/
theorem grammar_rule_counts :
    keywords.map (fun kw => (grammarRules kw).map (·.rules.length)) =
      [some 1, some 2, some 3, some 7, some 7, some 3, some 3, some 1, some 1] := by
  decide

end Ruschm.C05

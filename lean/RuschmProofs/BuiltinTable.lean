/-
The model's table of native procedures is the table the running code registers.

`Gen.builtins` is regenerated on every run from the RUNNING code (harness kind `builtins`: every definition of
`ruschm::interpreter::library::native::{base,write}::library_map` with `Procedure::get_parameters().len()`), so the
theorems below are re-checked against what `/repo` registers now.  A native procedure that is added, removed, renamed,
moved to the other library, or registered with another parameter list (fixed count or variadic flag) makes one of them
fail — deterministically, with no generator involved.  They tie three hand-written things of `RuschmModel/Value.lean`
and `RuschmModel/Interp.lean` to the code: `Builtin.name`, `Builtin.arity` (the gate `Eval.arityOk` of C07's
`builtin_args_sufficient` and of C08's arity theorems tests against it) and `Interp.nativeBase` / `Interp.nativeWrite`
(the libraries `(ruschm base)` and `(ruschm write)` the model's interpreter starts with).
-/
import RuschmModel.Interp
import RuschmGen.Builtins
namespace Ruschm.BuiltinTable

/-- the model's rows, in the format of `Gen.builtins` -/
def modelRows : List (String × String × Nat × Bool) :=
  (Interp.nativeBase.map fun (n, v) =>
      match v with
      | .builtin b => ("base", n, b.arity.1, b.arity.2)
      | _ => ("base", n, 0, false)) ++
  (Interp.nativeWrite.map fun (n, v) =>
      match v with
      | .builtin b => ("write", n, b.arity.1, b.arity.2)
      | _ => ("write", n, 0, false))

/-- every native procedure the running code registers is in the model, under the same library and name and with the
same parameter list length and variadic flag -/
theorem real_rows_in_model : ∀ r ∈ Gen.builtins, r ∈ modelRows := by decide

/-- and the model has no native procedure the running code does not register (`tick`, the probe the harness registers
in its own library, is in neither list) -/
theorem model_rows_in_real : ∀ r ∈ modelRows, r ∈ Gen.builtins := by decide

/-- no name is registered twice in either table -/
theorem tables_same_size : Gen.builtins.length = modelRows.length := by decide

theorem real_names_distinct : (Gen.builtins.map fun r => (r.1, r.2.1)).Nodup := by decide

/-- the name a native procedure is bound to in the model's libraries is `Builtin.name` of that procedure, so
`Builtin.arity` is looked up for the procedure the name denotes -/
theorem model_names_are_builtin_names :
    ∀ p ∈ Interp.nativeBase ++ Interp.nativeWrite, ∃ b, p = (Builtin.name b, Value.builtin b) := by
  intro p hp
  simp only [Interp.nativeBase, Interp.nativeWrite, List.mem_append, List.mem_map, List.mem_singleton] at hp
  rcases hp with ⟨b, _, rfl⟩ | rfl
  · exact ⟨b, rfl⟩
  · exact ⟨.display, rfl⟩

/-- the arity gate of the model, for the procedure registered under a name, is the gate of the running code's
parameter list of that name: `fixed ≤ n`, and `n ≤ fixed` unless variadic -/
theorem arity_gate_is_registered_parameter_list (lib name : String) (fixed : Nat) (variadic : Bool)
    (h : (lib, name, fixed, variadic) ∈ Gen.builtins) :
    ∃ b : Builtin, b.name = name ∧ ∀ n, Eval.arityOk b.arity.1 b.arity.2 n = Eval.arityOk fixed variadic n := by
  have hm := real_rows_in_model _ h
  simp only [modelRows, List.mem_append, List.mem_map] at hm
  rcases hm with ⟨p, hp, he⟩ | ⟨p, hp, he⟩
  · obtain ⟨b, rfl⟩ := model_names_are_builtin_names p (List.mem_append_left _ hp)
    simp only [Prod.mk.injEq] at he
    exact ⟨b, he.2.1, fun n => by rw [he.2.2.1, he.2.2.2]⟩
  · obtain ⟨b, rfl⟩ := model_names_are_builtin_names p (List.mem_append_right _ hp)
    simp only [Prod.mk.injEq] at he
    exact ⟨b, he.2.1, fun n => by rw [he.2.2.1, he.2.2.2]⟩

example : ("base", "vector-set!", 3, false) ∈ Gen.builtins := by decide
example : ("base", "apply", 1, true) ∈ Gen.builtins := by decide

end Ruschm.BuiltinTable

/-
Location erasure, conclusion: the outcome of a text (value or error kind, output, final state up
to locations) depends on its TOKENS only — not on where in the text they stand. Consequences for
`ruschm FILE` (C17) and the REPL (C18).
-/
import RuschmProofs.UnlocInterp
import RuschmProofs.FrontLemmas
set_option linter.unusedSimpArgs false
set_option linter.unusedVariables false
namespace Ruschm
open Interp Front FrontSpec

theorem evalForm_unloc (fuel : Nat) (st : State) (d : Datum) :
    EI (evalForm fuel st.unloc d.strip) = IU (Option.map Value.unloc) (evalForm fuel st d) := by
  unfold evalForm
  rw [xformFuel_strip, State.unloc_syn, toStatement_strip]
  rcases Xform.toStatement (Xform.xformFuel d) d st.syn with ⟨_ | stmt, syn⟩
  · rfl
  · exact evalAst_unloc fuel { st with syn := syn } stmt

theorem go_unloc (fuel : Nat) : ∀ (n : Nat) (s : Read.PState) (st : State) (last : Option Value),
    EI (evalText.go fuel n s.unloc st.unloc (last.map Value.unloc)) =
      IU (Option.map Value.unloc) (evalText.go fuel n s st last) := by
  intro n
  induction n with
  | zero => intro s st last; rw [evalText.go, evalText.go]; rfl
  | succ n ih =>
    intro s st last
    have hn := nextDatum_unloc s
    cases hd : Read.nextDatum s with
    | error e =>
      rw [hd] at hn
      cases hd' : Read.nextDatum s.unloc with
      | ok r => rw [hd'] at hn; cases hn
      | error e' =>
        rw [hd'] at hn
        simp only [eraseErr_error, PRes.unloc_error, Except.error.injEq] at hn
        rw [evalText.go, evalText.go]
        simp only [hd, hd']
        simp [EI, IU, hn]
    | ok r =>
      obtain ⟨od, s'⟩ := r
      rw [hd] at hn
      cases hd' : Read.nextDatum s.unloc with
      | error e' => rw [hd'] at hn; cases hn
      | ok r' =>
        rw [hd'] at hn
        simp only [eraseErr_ok, PRes.unloc_ok, Except.ok.injEq] at hn
        subst hn
        cases od with
        | none =>
          rw [evalText.go, evalText.go]
          simp only [hd, hd', Option.map_none]
          rfl
        | some d =>
          rw [go_step fuel n s s' st last d hd, go_step fuel n s.unloc s'.unloc st.unloc _ d.strip hd']
          rcases EI_cases (evalForm_unloc fuel st d) with ⟨e1, e1', st1, h1, h2, h3⟩ | ⟨v, st1, h1, h2⟩
          · simp only [h1, h2]; simp [EI, IU, h3]
          · simp only [h1, h2]; exact ih s' st1 v


theorem ofText_unloc_eq {t₁ t₂ : List Char} (ht : toksOf t₁ = toksOf t₂) :
    (Read.ofText t₁).unloc = (Read.ofText t₂).unloc ∧ (Read.ofText t₁).toks.length = (Read.ofText t₂).toks.length := by
  unfold toksOf at ht
  simp only [Prod.mk.injEq] at ht
  obtain ⟨h1, h2⟩ := ht
  have hl : (Lex.all t₁).1.length = (Lex.all t₂).1.length := by
    have := congrArg List.length h1; simpa using this
  refine ⟨?_, hl⟩
  simp only [Read.ofText, Read.PState.unloc]
  have hm : (Lex.all t₁).1.map LToken.unloc = (Lex.all t₂).1.map LToken.unloc := by
    have e : ∀ l : List LToken, l.map LToken.unloc = (l.map (·.tok)).map (fun t => (⟨t, none⟩ : LToken)) := by
      intro l; simp [LToken.unloc]
    rw [e, e, h1]
  have he : (Lex.all t₁).2.map (fun _ => ((0, 0) : Lex.Pos)) = (Lex.all t₂).2.map (fun _ => ((0, 0) : Lex.Pos)) := by
    cases h3 : (Lex.all t₁).2 <;> cases h4 : (Lex.all t₂).2 <;> simp [h3, h4] at h2 ⊢
  simp [hm, he]

/-- THE OUTCOME OF A TEXT DEPENDS ON ITS TOKENS ONLY, up to locations: two texts with the same
token sequence (and both or neither ending in a lexer error), evaluated on states that agree up
to locations, give — up to locations — the same value or the same error kind, and the same
final state (same output included). -/
theorem evalText_sameTokens (fuel : Nat) (st₁ st₂ : State) (t₁ t₂ : List Char)
    (ht : toksOf t₁ = toksOf t₂) (hs : st₁.unloc = st₂.unloc) :
    IU (Option.map Value.unloc) (evalText fuel st₁ t₁) = IU (Option.map Value.unloc) (evalText fuel st₂ t₂) := by
  obtain ⟨h1, h2⟩ := ofText_unloc_eq ht
  unfold evalText
  simp only
  have a := go_unloc fuel ((Read.ofText t₁).toks.length + 1) (Read.ofText t₁) st₁ none
  have b := go_unloc fuel ((Read.ofText t₂).toks.length + 1) (Read.ofText t₂) st₂ none
  rw [← a, ← b, h1, h2, hs]


theorem IU_eq {α} {g : α → α} {x y : IRes α} (h : IU g x = IU g y) :
    mapE g x.1 = mapE g y.1 ∧ x.2.unloc = y.2.unloc := by
  simp only [IU, Prod.mk.injEq] at h
  exact h

theorem unloc_out_eq {st₁ st₂ : State} (h : st₁.unloc = st₂.unloc) : st₁.store.out = st₂.store.out := by
  have := congrArg (fun s : State => s.store.out) h
  simpa using this

theorem outText_unloc_eq {st₁ st₂ : State} (h : st₁.unloc = st₂.unloc) : outText st₁.store = outText st₂.store := by
  unfold outText; rw [unloc_out_eq h]

theorem echoOf_unloc_eq {st₁ st₂ : State} (h : st₁.unloc = st₂.unloc) {v₁ v₂ : Option Value}
    (hv : v₁.map Value.unloc = v₂.map Value.unloc) : echoOf st₁.store v₁ = echoOf st₂.store v₂ := by
  have hs : st₁.store.unloc = st₂.store.unloc := by
    have := congrArg (fun s : State => s.store) h
    simpa using this
  cases v₁ with
  | none => cases v₂ with
    | none => rfl
    | some b => simp at hv
  | some a => cases v₂ with
    | none => simp at hv
    | some b =>
      simp only [Option.map_some, Option.some.injEq] at hv
      have hd : Prim.display st₁.store 100000 a = Prim.display st₂.store 100000 b := by
        rw [← display_unloc st₁.store, ← display_unloc st₂.store, hs, hv]
      cases a <;> cases b <;> simp [Value.unloc] at hv <;> simp [echoOf, hd] <;>
        (first | rfl | (simp only [echoOf] at *; rw [hd]))


theorem clearOut_unloc (st : State) : (clearOut st).unloc = clearOut st.unloc := rfl

theorem submit_sameTokens (fuel : Nat) (st₁ st₂ : State) (g₁ g₂ : String)
    (ht : toksOf g₁.toList = toksOf g₂.toList) (hs : st₁.unloc = st₂.unloc) :
    (submit fuel st₁ g₁).2 = (submit fuel st₂ g₂).2 ∧ (submit fuel st₁ g₁).1.unloc = (submit fuel st₂ g₂).1.unloc := by
  have hc : (clearOut st₁).unloc = (clearOut st₂).unloc := by rw [clearOut_unloc, clearOut_unloc, hs]
  obtain ⟨h1, h2⟩ := IU_eq (evalText_sameTokens fuel (clearOut st₁) (clearOut st₂) g₁.toList g₂.toList ht hc)
  unfold submit
  generalize evalText fuel (clearOut st₁) g₁.toList = x₁ at h1 h2 ⊢
  generalize evalText fuel (clearOut st₂) g₂.toList = x₂ at h1 h2 ⊢
  obtain ⟨r₁, s₁⟩ := x₁
  obtain ⟨r₂, s₂⟩ := x₂
  simp only at h1 h2
  cases r₁ with
  | error e₁ =>
    cases r₂ with
    | ok v₂ => cases h1
    | error e₂ =>
      obtain ⟨k₁, l₁⟩ := e₁
      obtain ⟨k₂, l₂⟩ := e₂
      simp only [mapE_error, SErr.unloc_mk, Except.error.injEq, Prod.mk.injEq, and_true] at h1
      subst h1
      simp only [outText_unloc_eq h2]
      exact ⟨trivial, h2⟩
  | ok v₁ =>
    cases r₂ with
    | error e₂ => cases h1
    | ok v₂ =>
      simp only [mapE_ok, Except.ok.injEq] at h1
      simp only [outText_unloc_eq h2, echoOf_unloc_eq h2 h1]
      exact ⟨trivial, h2⟩

theorem session_sameTokens (fuel : Nat) : ∀ (gs₁ gs₂ : List String) (st₁ st₂ : State),
    SameTokens gs₁ gs₂ → st₁.unloc = st₂.unloc →
    (session fuel st₁ gs₁).2 = (session fuel st₂ gs₂).2 ∧
      (session fuel st₁ gs₁).1.unloc = (session fuel st₂ gs₂).1.unloc
  | [], [], _, _, _, hs => ⟨rfl, hs⟩
  | g :: gs, h :: hs', st₁, st₂, ht, hs => by
    obtain ⟨a, b⟩ := submit_sameTokens fuel st₁ st₂ g h ht.1 hs
    obtain ⟨c, d⟩ := session_sameTokens fuel gs hs' _ _ ht.2 b
    simp only [session]
    exact ⟨by rw [a, c], d⟩
  | [], _ :: _, _, _, ht, _ => by cases ht
  | _ :: _, [], _, _, ht, _ => by cases ht

theorem cli_sameTokens (fuel : Nat) (s₁ s₂ : String) (ht : toksOf s₁.toList = toksOf s₂.toList) :
    (cli fuel (some s₁)).stdout = (cli fuel (some s₂)).stdout ∧
    (cli fuel (some s₁)).exitCode = (cli fuel (some s₂)).exitCode ∧
    (cli fuel (some s₁)).errKind = (cli fuel (some s₂)).errKind ∧
    (cli fuel (some s₁)).diag.isSome = (cli fuel (some s₂)).diag.isSome := by
  obtain ⟨h1, h2⟩ := IU_eq (evalText_sameTokens fuel (default_ false) (default_ false) s₁.toList s₂.toList ht rfl)
  rw [cli_some, cli_some]
  generalize evalText fuel (default_ false) s₁.toList = x₁ at h1 h2 ⊢
  generalize evalText fuel (default_ false) s₂.toList = x₂ at h1 h2 ⊢
  obtain ⟨r₁, st₁⟩ := x₁
  obtain ⟨r₂, st₂⟩ := x₂
  simp only at h1 h2
  cases r₁ with
  | error e₁ =>
    cases r₂ with
    | ok v₂ => cases h1
    | error e₂ =>
      obtain ⟨k₁, l₁⟩ := e₁
      obtain ⟨k₂, l₂⟩ := e₂
      simp only [mapE_error, SErr.unloc_mk, Except.error.injEq, Prod.mk.injEq, and_true] at h1
      subst h1
      exact ⟨outText_unloc_eq h2, rfl, rfl, rfl⟩
  | ok v₁ =>
    cases r₂ with
    | error e₂ => cases h1
    | ok v₂ => exact ⟨outText_unloc_eq h2, rfl, rfl, rfl⟩


theorem outcomeUnloc_eq {x y : Except SErr (Option Value)}
    (h : mapE (Option.map Value.unloc) x = mapE (Option.map Value.unloc) y) : outcomeUnloc x = outcomeUnloc y := by
  cases x with
  | ok a => cases y with
    | ok b => simp only [mapE_ok, Except.ok.injEq] at h; simp [outcomeUnloc, h]
    | error e => cases h
  | error e => cases y with
    | ok b => cases h
    | error e' =>
      obtain ⟨k, l⟩ := e
      obtain ⟨k', l'⟩ := e'
      simp only [mapE_error, SErr.unloc_mk, Except.error.injEq, Prod.mk.injEq, and_true] at h
      simp [outcomeUnloc, h]

theorem toksOf_interleave (ts : List Token) (layout : List (List Char))
    (hs : ∀ t ∈ ts, Text.SupportedTok t) (hl : Text.ValidLayout ts layout) :
    toksOf (Text.interleave ts layout) = (ts, false) := by
  obtain ⟨h1, h2⟩ := Text.all_render ts layout hs hl
  simp [toksOf, h1, h2]

theorem sameTokens_refl : ∀ (gs : List String), SameTokens gs gs
  | [] => trivial
  | _ :: gs => ⟨rfl, sameTokens_refl gs⟩

end Ruschm

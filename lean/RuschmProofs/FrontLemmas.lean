/-
Helper lemmas for the front-end properties C17 (`ruschm FILE`), C18 (REPL), C19 (instances).
-/
import RuschmSpec.Front
import RuschmProofs.LibLemmas
import RuschmProofs.StoreLemmas
import RuschmProofs.EvalLemmas
import RuschmProofs.TextLemmas

namespace Ruschm.FrontSpec
open Ruschm Ruschm.Interp Ruschm.Front

/-! ## C19: worlds -/

theorem worldStep_length (fuel : Nat) (w : World) (i : Nat) (text : List Char) :
    (worldStep fuel w i text).2.length = w.length := by
  unfold worldStep
  split <;> simp

theorem worldStep_other (fuel : Nat) (w : World) (i j : Nat) (text : List Char) (h : j ≠ i) :
    (worldStep fuel w i text).2[j]? = w[j]? := by
  unfold worldStep
  split
  · rfl
  · simp [Ne.symm h]

theorem worldStep_self (fuel : Nat) (w : World) (i : Nat) (text : List Char) (st : State)
    (h : w[i]? = some st) :
    (worldStep fuel w i text).1 = some (evalText fuel st text).1 ∧
    (worldStep fuel w i text).2[i]? = some (evalText fuel st text).2 := by
  have hi : i < w.length := by
    rcases Nat.lt_or_ge i w.length with h' | h'
    · exact h'
    · rw [List.getElem?_eq_none h'] at h; cases h
  unfold worldStep
  rw [h]
  simp [hi]

theorem worldStep_none (fuel : Nat) (w : World) (i : Nat) (text : List Char) (h : w[i]? = none) :
    worldStep fuel w i text = (none, w) := by
  unfold worldStep
  simp [h]

theorem runSteps_length (fuel : Nat) (steps : Steps) : ∀ (w : World),
    (runSteps fuel w steps).2.length = w.length := by
  induction steps with
  | nil => intro w; rfl
  | cons s rest ih =>
    intro w
    obtain ⟨i, text⟩ := s
    simp only [runSteps]
    rw [ih, worldStep_length]

theorem runSteps_noninterference (fuel : Nat) (j : Nat) (steps : Steps) : ∀ (w : World) (st : State),
    w[j]? = some st →
    ((runSteps fuel w steps).1.filter (fun r => r.1 = j)).map (·.2)
        = (runAlone fuel st (textsFor j steps)).1.map some ∧
      (runSteps fuel w steps).2[j]? = some (runAlone fuel st (textsFor j steps)).2 := by
  induction steps with
  | nil => intro w st h; exact ⟨rfl, h⟩
  | cons s rest ih =>
    intro w st h
    obtain ⟨i, text⟩ := s
    by_cases hij : i = j
    · subst hij
      obtain ⟨h1, h2⟩ := worldStep_self fuel w i text st h
      obtain ⟨g1, g2⟩ := ih _ _ h2
      have ht : textsFor i ((i, text) :: rest) = text :: textsFor i rest := by
        simp [textsFor]
      rw [ht]
      simp only [runSteps, runAlone, List.filter_cons, decide_true, if_true, List.map_cons]
      exact ⟨by rw [h1, g1], g2⟩
    · have h2 : (worldStep fuel w i text).2[j]? = some st := by
        rw [worldStep_other fuel w i j text (Ne.symm hij)]; exact h
      obtain ⟨g1, g2⟩ := ih _ _ h2
      have ht : textsFor j ((i, text) :: rest) = textsFor j rest := by
        simp [textsFor, hij]
      rw [ht]
      simp only [runSteps, List.filter_cons, hij, decide_false, Bool.false_eq_true, if_false]
      exact ⟨g1, g2⟩

/-! ## C18: the REPL loop -/

theorem replStep_eq (fuel : Nat) (rs : ReplState) (line : String) :
    replStep fuel rs line =
      if line.isEmpty then (rs, {})
      else if Bracket.closed (rs.pending ++ line).toList then
        ({ st := (submit fuel rs.st (rs.pending ++ line)).1, pending := "" }, (submit fuel rs.st (rs.pending ++ line)).2)
      else ({ rs with pending := rs.pending ++ line ++ "\n" }, {}) := by
  unfold replStep submit clearOut
  split
  · rfl
  · dsimp only
    split
    · generalize evalText fuel _ _ = x
      obtain ⟨r, st'⟩ := x
      cases r with
      | ok v => cases v with
        | none => rfl
        | some v => cases v <;> rfl
      | error e => obtain ⟨e, l⟩ := e; rfl
    · rfl

theorem submit_submitted (fuel : Nat) (st : State) (source : String) :
    (submit fuel st source).2.submitted = true := by
  unfold submit
  split <;> rfl

/-- the session loop as a recursion on the lines -/
def replList (fuel : Nat) : ReplState → List String → ReplState × List ReplOut
  | rs, [] => (rs, [])
  | rs, l :: ls =>
    ((replList fuel (replStep fuel rs l).1 ls).1, (replStep fuel rs l).2 :: (replList fuel (replStep fuel rs l).1 ls).2)

theorem foldl_replStep (fuel : Nat) (lines : List String) : ∀ (rs : ReplState) (acc : List ReplOut),
    lines.foldl (fun (acc : ReplState × List ReplOut) l =>
      let (rs, o) := replStep fuel acc.1 l
      (rs, acc.2 ++ [o])) (rs, acc) = ((replList fuel rs lines).1, acc ++ (replList fuel rs lines).2) := by
  induction lines with
  | nil => intro rs acc; simp [replList]
  | cons l ls ih =>
    intro rs acc
    simp only [List.foldl_cons, replList]
    rw [ih]
    simp

theorem replRun_eq (fuel : Nat) (lines : List String) :
    replRun fuel lines = replList fuel { st := withStdlib fuel false } lines := by
  unfold replRun
  rw [foldl_replStep]
  simp

theorem replList_groups (fuel : Nat) (lines : List String) : ∀ (rs : ReplState),
    (replList fuel rs lines).1 =
      { st := (session fuel rs.st (groupsAux rs.pending lines).1).1, pending := (groupsAux rs.pending lines).2 } ∧
    (replList fuel rs lines).2.filter (·.submitted) = (session fuel rs.st (groupsAux rs.pending lines).1).2 ∧
    ∀ o ∈ (replList fuel rs lines).2, o.submitted = false → o.stdout = "" ∧ o.err = none := by
  induction lines with
  | nil => intro rs; simp [replList, groupsAux, session]
  | cons l ls ih =>
    intro rs
    simp only [replList, groupsAux]
    rw [replStep_eq]
    by_cases he : l.isEmpty
    · simp only [he, if_true]
      obtain ⟨a, b, c⟩ := ih rs
      refine ⟨a, ?_, ?_⟩
      · rw [List.filter_cons]; simpa using b
      · intro o ho hs
        rcases List.mem_cons.1 ho with rfl | ho
        · exact ⟨rfl, rfl⟩
        · exact c o ho hs
    · simp only [he, Bool.false_eq_true, if_false]
      by_cases hc : Bracket.closed (rs.pending ++ l).toList
      · simp only [hc, if_true]
        obtain ⟨a, b, c⟩ := ih { st := (submit fuel rs.st (rs.pending ++ l)).1, pending := "" }
        simp only at a b c
        refine ⟨by rw [a]; simp [session], ?_, ?_⟩
        · rw [List.filter_cons, submit_submitted]; simp [session, b]
        · intro o ho hs
          rcases List.mem_cons.1 ho with rfl | ho
          · rw [submit_submitted] at hs; cases hs
          · exact c o ho hs
      · simp only [hc, Bool.false_eq_true, if_false]
        obtain ⟨a, b, c⟩ := ih { rs with pending := rs.pending ++ l ++ "\n" }
        simp only at a b c
        refine ⟨a, ?_, ?_⟩
        · rw [List.filter_cons]; simpa using b
        · intro o ho hs
          rcases List.mem_cons.1 ho with rfl | ho
          · exact ⟨rfl, rfl⟩
          · exact c o ho hs

theorem transcript_filter (outs : List ReplOut)
    (h : ∀ o ∈ outs, o.submitted = false → o.stdout = "" ∧ o.err = none) :
    transcript (outs.filter (·.submitted)) = transcript outs ∧
    errors (outs.filter (·.submitted)) = errors outs := by
  induction outs with
  | nil => exact ⟨rfl, rfl⟩
  | cons o os ih =>
    obtain ⟨i1, i2⟩ := ih (fun o' ho' => h o' (List.mem_cons_of_mem _ ho'))
    unfold transcript errors at *
    by_cases hs : o.submitted = true
    · simp only [List.filter_cons, hs, if_true, List.map_cons, String.join_cons, List.filterMap_cons]
      rw [i1, i2]; exact ⟨rfl, rfl⟩
    · have hs' : o.submitted = false := by simpa using hs
      obtain ⟨h1, h2⟩ := h o (by simp) hs'
      simp only [List.filter_cons, hs', Bool.false_eq_true, if_false, List.map_cons, String.join_cons,
        List.filterMap_cons, h1, h2, String.empty_append]
      exact ⟨i1, i2⟩

/-! ## C17: the command line -/

theorem cli_some (fuel : Nat) (text : String) :
    cli fuel (some text) =
      match evalText fuel (default_ false) text.toList with
      | (.ok _, st) => { stdout := outText st.store, diag := none, errKind := none, exitCode := 0 }
      | (.error (e, loc), st) =>
        { stdout := outText st.store, diag := some loc, errKind := some e, exitCode := 255 } := rfl

end Ruschm.FrontSpec

/-! ## the reader consumes tokens: fuel of `Read.all` / `evalText` is never exhausted -/

namespace Ruschm.Read
open Ruschm

theorem advance_le {s s' : PState} (h : advance s = .ok s') : s'.toks.length ≤ s.toks.length := by
  unfold advance at h
  split at h
  · rename_i t rest ht; cases h; simp [ht]
  · split at h
    · cases h
    · cases h; simp

theorem advance_lt {s s' : PState} (h : advance s = .ok s') (hc : s'.cur.isSome) :
    s'.toks.length < s.toks.length := by
  unfold advance at h
  split at h
  · rename_i t rest ht; cases h; simp [ht]
  · split at h
    · cases h
    · cases h; simp at hc

theorem bind_ok_inv {ε α β} {x : Except ε α} {f : α → Except ε β} {b : β}
    (h : (x >>= f) = .ok b) : ∃ a, x = .ok a ∧ f a = .ok b := by
  cases x with
  | error e => cases h
  | ok a => exact ⟨a, rfl, h⟩

theorem advanceUnwrap_le {s s' : PState} {t} (h : advanceUnwrap s = .ok (t, s')) :
    s'.toks.length ≤ s.toks.length := by
  unfold advanceUnwrap at h
  obtain ⟨s1, ha, h⟩ := bind_ok_inv h
  split at h
  · cases h; exact advance_le ha
  · cases h

theorem peek_ok {s : PState} {o} (_h : peek s = .ok o) : True := trivial

structure ConsAt (fuel : Nat) : Prop where
  cur : ∀ s od s', currentDatum fuel s = .ok (od, s') → s'.toks.length ≤ s.toks.length
  loop : ∀ s loc acc dot d s', listLoop fuel s loc acc dot = .ok (d, s') → s'.toks.length ≤ s.toks.length
  rep : ∀ s acc ds s', repeatDatum fuel s acc = .ok (ds, s') → s'.toks.length ≤ s.toks.length
  dat : ∀ s d s', datum fuel s = .ok (d, s') → s'.toks.length ≤ s.toks.length
  quo : ∀ s d s', parseQuoted fuel s = .ok (d, s') → s'.toks.length ≤ s.toks.length

theorem consAt_zero : ConsAt 0 := by
  constructor <;> intros <;> rename_i h <;> simp [currentDatum, listLoop, repeatDatum, datum, parseQuoted] at h

theorem consAt_succ {fuel : Nat} (ih : ConsAt fuel) : ConsAt (fuel + 1) := by
  constructor
  · intro s od s' h
    rw [currentDatum] at h
    split at h
    · cases h; exact Nat.le_refl _
    · dsimp only at h
      split at h
      · cases h; exact Nat.le_refl _
      · cases h; exact Nat.le_refl _
      · obtain ⟨⟨d, s1⟩, h1, h⟩ := bind_ok_inv h
        cases h
        unfold listOrPair at h1
        exact ih.loop { s with cur := none } _ _ _ _ _ h1
      · cases h
      · obtain ⟨⟨xs, s1⟩, h1, h⟩ := bind_ok_inv h
        cases h
        exact ih.rep { s with cur := none } _ _ _ h1
      · obtain ⟨s1, h1, h⟩ := bind_ok_inv h
        obtain ⟨⟨d, s2⟩, h2, h⟩ := bind_ok_inv h
        cases h
        exact Nat.le_trans (ih.quo _ _ _ h2) (advance_le h1)
      · cases h
  · intro s loc acc dot d s' h
    rw [listLoop] at h
    obtain ⟨⟨t, s1⟩, h1, h⟩ := bind_ok_inv h
    have l1 := advanceUnwrap_le h1
    dsimp only at h
    split at h
    · split at h
      · cases h
      · exact Nat.le_trans (ih.loop _ _ _ _ _ _ h) l1
    · cases h; exact l1
    · obtain ⟨⟨od, s2⟩, h2, h⟩ := bind_ok_inv h
      have l2 := ih.cur _ _ _ h2
      dsimp only at h
      split at h
      · cases h
      · split at h
        · split at h
          · obtain ⟨⟨t2, s3⟩, h3, h⟩ := bind_ok_inv h
            have l3 := advanceUnwrap_le h3
            dsimp only at h
            split at h
            · cases h; omega
            · cases h
          · have := ih.loop _ _ _ _ _ _ h; omega
        · have := ih.loop _ _ _ _ _ _ h; omega
  · intro s acc ds s' h
    rw [repeatDatum] at h
    obtain ⟨o, h1, h⟩ := bind_ok_inv h
    split at h
    · cases h
    · split at h
      · obtain ⟨s1, h1, h⟩ := bind_ok_inv h
        cases h; exact advance_le h1
      · obtain ⟨s1, h1, h⟩ := bind_ok_inv h
        obtain ⟨⟨d, s2⟩, h2, h⟩ := bind_ok_inv h
        have := advance_le h1
        have := ih.dat _ _ _ h2
        have := ih.rep _ _ _ _ h
        omega
  · intro s d s' h
    rw [datum] at h
    dsimp only at h
    split at h
    · cases h
    · split at h
      · unfold listOrPair at h
        exact ih.loop _ _ _ _ _ _ h
      · obtain ⟨⟨xs, s1⟩, h1, h⟩ := bind_ok_inv h
        cases h
        exact ih.rep _ _ _ _ h1
      · cases h; exact Nat.le_refl _
      · cases h; exact Nat.le_refl _
      · obtain ⟨s1, h1, h⟩ := bind_ok_inv h
        exact Nat.le_trans (ih.quo _ _ _ h) (advance_le h1)
      · cases h
  · intro s d s' h
    rw [parseQuoted] at h
    obtain ⟨⟨d, s2⟩, h2, h⟩ := bind_ok_inv h
    cases h
    exact ih.dat _ _ _ h2

theorem consAt : ∀ fuel, ConsAt fuel
  | 0 => consAt_zero
  | n + 1 => consAt_succ (consAt n)

theorem nextDatum_le {s s' : PState} {od} (h : nextDatum s = .ok (od, s')) :
    s'.toks.length ≤ s.toks.length := by
  unfold nextDatum at h
  obtain ⟨s1, h1, h⟩ := bind_ok_inv h
  exact Nat.le_trans ((consAt _).cur _ _ _ h) (advance_le h1)

theorem nextDatum_lt {s s' : PState} {d} (h : nextDatum s = .ok (some d, s')) :
    s'.toks.length < s.toks.length := by
  unfold nextDatum at h
  obtain ⟨s1, h1, h⟩ := bind_ok_inv h
  have hc : s1.cur.isSome := by
    cases hcur : s1.cur with
    | some t => rfl
    | none =>
      unfold fuelFor at h
      rw [show 4 * (s1.toks.length + 2) = (4 * s1.toks.length + 7) + 1 by omega, currentDatum] at h
      simp [hcur] at h
  exact Nat.lt_of_le_of_lt ((consAt _).cur _ _ _ h) (advance_lt h1 hc)


theorem allAux_acc (n : Nat) : ∀ (s : PState) (acc : List Datum),
    allAux n s acc = (acc.reverse ++ (allAux n s []).1, (allAux n s []).2) := by
  induction n with
  | zero => intro s acc; simp [allAux]
  | succ n ih =>
    intro s acc
    rw [allAux, allAux]
    split
    · simp
    · simp
    · rw [ih _ (_ :: acc), ih _ [_]]; simp

end Ruschm.Read

namespace Ruschm.FrontSpec
open Ruschm Ruschm.Interp Ruschm.Front

/-- when all forms succeeded, the reader's error (if any) is the outcome -/
def finish (r : Except SErr (Option Value) × State) (err : Option SErr) : Except SErr (Option Value) × State :=
  match r with
  | (.error e, st') => (.error e, st')
  | (.ok v, st') =>
    match err with
    | some e => (.error e, st')
    | none => (.ok v, st')

theorem go_step (fuel n : Nat) (s s' : Read.PState) (st : State) (last : Option Value) (d : Datum)
    (hd : Read.nextDatum s = .ok (some d, s')) :
    evalText.go fuel (n + 1) s st last =
      match evalForm fuel st d with
      | (.error e, st') => (.error e, st')
      | (.ok v, st') => evalText.go fuel n s' st' v := by
  rw [evalText.go]
  simp only [hd, evalForm]
  generalize Xform.toStatement (Xform.xformFuel d) d st.syn = x
  obtain ⟨r, syn⟩ := x
  cases r with
  | error e => rfl
  | ok stmt =>
    dsimp only
    generalize evalAst fuel _ stmt = y
    obtain ⟨r, st'⟩ := y
    cases r <;> rfl

theorem go_eq_fold (fuel : Nat) : ∀ (n : Nat) (s : Read.PState) (st : State) (last : Option Value),
    s.toks.length < n →
    evalText.go fuel n s st last =
      finish (runForms fuel st (Read.allAux n s []).1 last) (Read.allAux n s []).2 := by
  intro n
  induction n with
  | zero => intro s st last h; omega
  | succ n ih =>
    intro s st last h
    cases hd : Read.nextDatum s with
    | error e =>
      rw [evalText.go, Read.allAux]; simp only [hd]; rfl
    | ok p =>
      obtain ⟨od, s'⟩ := p
      cases od with
      | none => rw [evalText.go, Read.allAux]; simp only [hd]; rfl
      | some d =>
        have hlt := Read.nextDatum_lt hd
        rw [go_step fuel n s s' st last d hd, Read.allAux]
        simp only [hd]
        rw [Read.allAux_acc]
        simp only [List.reverse_cons, List.reverse_nil, List.nil_append, List.singleton_append, runForms]
        generalize evalForm fuel st d = y
        obtain ⟨r, st'⟩ := y
        cases r with
        | error e => rfl
        | ok v => exact ih s' st' v (by omega)

theorem evalText_eq_runText (fuel : Nat) (st : State) (text : List Char) :
    evalText fuel st text = runText fuel st text := by
  unfold evalText runText formsOf Read.all
  dsimp only
  rw [go_eq_fold fuel _ _ _ _ (Nat.lt_succ_self _)]
  unfold finish
  generalize runForms fuel st _ none = y
  obtain ⟨r, st'⟩ := y
  cases r <;> rfl

end Ruschm.FrontSpec

/-! ## output only grows -/

namespace Ruschm.FrontSpec
open Ruschm Ruschm.Interp Ruschm.Front Ruschm.Eval

theorem OutExt.refl (σ : Store) : OutExt σ σ := ⟨[], rfl⟩
theorem OutExt.trans {a b c : Store} (h1 : OutExt a b) (h2 : OutExt b c) : OutExt a c := by
  obtain ⟨m1, e1⟩ := h1
  obtain ⟨m2, e2⟩ := h2
  exact ⟨m2 ++ m1, by rw [e2, e1, List.append_assoc]⟩
theorem OutExt.of_eq {σ σ' : Store} (h : σ'.out = σ.out) : OutExt σ σ' := ⟨[], by simp [h]⟩

theorem outExt_define (σ : Store) (ρ k v) : OutExt σ (σ.define ρ k v) := .of_eq (by simp)
theorem outExt_newFrame (σ : Store) (p) : OutExt σ (σ.newFrame p).2 := .of_eq rfl
theorem outExt_allocVec (σ : Store) (m items) : OutExt σ (σ.allocVec m items).2 := .of_eq rfl
theorem outExt_enter (σ : Store) : OutExt σ (enter σ) := .of_eq rfl
theorem outExt_leave (σ : Store) : OutExt σ (leave σ) := .of_eq rfl
theorem outExt_set (σ : Store) (ρ x v) : OutExt σ (σ.set ρ x v).2 := by
  unfold Store.set
  repeat' split
  all_goals first | exact .refl _ | exact .of_eq rfl | (refine .of_eq ?_; simp; done)

theorem outExt_applyPure (σ : Store) (b : Builtin) (args : List Value) : OutExt σ (Prim.applyPure σ b args).2 := by
  cases b <;> simp only [Prim.applyPure] <;> (repeat' split)
  all_goals first
    | exact .of_eq rfl
    | exact ⟨[_], rfl⟩
    | (refine .of_eq ?_; simp; done)

theorem outExt_readLiteral (σ : Store) (d : Datum) : OutExt σ (readLiteral σ d).2 := by
  obtain ⟨cells, h, _⟩ := readLiteral_litStep σ d
  exact .of_eq (by rw [h])
theorem outExt_bindFixed (σ : Store) (ρ : Nat) (names : List String) (args : List Value) :
    OutExt σ (bindFixed σ ρ names args).2 := .of_eq (bindFixed_other names args σ ρ).2.1

structure OutAt (fuel : Nat) : Prop where
  expr : ∀ σ ρ e, OutExt σ (evalExpr fuel σ ρ e).2
  args : ∀ σ ρ es, OutExt σ (evalArgs fuel σ ρ es).2
  proc : ∀ σ p args env, OutExt σ (applyProcedure fuel σ p args env).2
  loop : ∀ σ p args env, OutExt σ (applyLoop fuel σ p args env).2
  scheme : ∀ σ lam cenv args, OutExt σ (applyScheme fuel σ lam cenv args).2
  defs : ∀ σ ρ ds, OutExt σ (evalDefs fuel σ ρ ds).2
  body : ∀ σ ρ es, OutExt σ (evalBody fuel σ ρ es).2
  tail : ∀ σ ρ e, OutExt σ (evalTail fuel σ ρ e).2

section rules
variable {fuel : Nat} (ih : OutAt fuel) {σ₀ σ σ' : Store}
include ih
theorem OutAt.expr_eq {ρ e r} (h : evalExpr fuel σ ρ e = (r, σ')) (g : OutExt σ₀ σ) : OutExt σ₀ σ' := by
  have := ih.expr σ ρ e; rw [h] at this; exact g.trans this
theorem OutAt.args_eq {ρ e r} (h : evalArgs fuel σ ρ e = (r, σ')) (g : OutExt σ₀ σ) : OutExt σ₀ σ' := by
  have := ih.args σ ρ e; rw [h] at this; exact g.trans this
theorem OutAt.loop_eq {p a env r} (h : applyLoop fuel σ p a env = (r, σ')) (g : OutExt σ₀ σ) : OutExt σ₀ σ' := by
  have := ih.loop σ p a env; rw [h] at this; exact g.trans this
theorem OutAt.scheme_eq {l c a r} (h : applyScheme fuel σ l c a = (r, σ')) (g : OutExt σ₀ σ) : OutExt σ₀ σ' := by
  have := ih.scheme σ l c a; rw [h] at this; exact g.trans this
theorem OutAt.defs_eq {ρ ds r} (h : evalDefs fuel σ ρ ds = (r, σ')) (g : OutExt σ₀ σ) : OutExt σ₀ σ' := by
  have := ih.defs σ ρ ds; rw [h] at this; exact g.trans this
theorem OutAt.expr_snd {ρ e} (g : OutExt σ₀ σ) : OutExt σ₀ (evalExpr fuel σ ρ e).2 := g.trans (ih.expr ..)
theorem OutAt.args_snd {ρ e} (g : OutExt σ₀ σ) : OutExt σ₀ (evalArgs fuel σ ρ e).2 := g.trans (ih.args ..)
theorem OutAt.proc_snd {p a env} (g : OutExt σ₀ σ) : OutExt σ₀ (applyProcedure fuel σ p a env).2 := g.trans (ih.proc ..)
theorem OutAt.loop_snd {p a env} (g : OutExt σ₀ σ) : OutExt σ₀ (applyLoop fuel σ p a env).2 := g.trans (ih.loop ..)
theorem OutAt.defs_snd {ρ ds} (g : OutExt σ₀ σ) : OutExt σ₀ (evalDefs fuel σ ρ ds).2 := g.trans (ih.defs ..)
theorem OutAt.body_snd {ρ es} (g : OutExt σ₀ σ) : OutExt σ₀ (evalBody fuel σ ρ es).2 := g.trans (ih.body ..)
theorem OutAt.tail_snd {ρ e} (g : OutExt σ₀ σ) : OutExt σ₀ (evalTail fuel σ ρ e).2 := g.trans (ih.tail ..)
end rules

section datarules
variable {σ₀ σ σ' : Store}
theorem o_set_eq {ρ x v b} (h : σ.set ρ x v = (b, σ')) (g : OutExt σ₀ σ) : OutExt σ₀ σ' := by
  have := outExt_set σ ρ x v; rw [h] at this; exact g.trans this
theorem o_define {ρ x v} (g : OutExt σ₀ σ) : OutExt σ₀ (σ.define ρ x v) := g.trans (outExt_define ..)
theorem o_enter (g : OutExt σ₀ σ) : OutExt σ₀ (enter σ) := g.trans (outExt_enter σ)
theorem o_leave (g : OutExt σ₀ σ) : OutExt σ₀ (leave σ) := g.trans (outExt_leave σ)
theorem o_prim {b a} (g : OutExt σ₀ σ) : OutExt σ₀ (Prim.applyPure σ b a).2 := g.trans (outExt_applyPure ..)
theorem o_lit {d} (g : OutExt σ₀ σ) : OutExt σ₀ (readLiteral σ d).2 := g.trans (outExt_readLiteral ..)
theorem o_bind_eq {ρ n a r} (h : bindFixed σ ρ n a = (r, σ')) (g : OutExt σ₀ σ) : OutExt σ₀ σ' := by
  have := outExt_bindFixed σ ρ n a; rw [h] at this; exact g.trans this
theorem o_newFrame {p} (g : OutExt σ₀ σ) : OutExt σ₀ (σ.newFrame p).2 := g.trans (outExt_newFrame ..)
end datarules

macro "out_chain" ih:term : tactic =>
  `(tactic| solve_by_elim (maxDepth := 12) [OutExt.refl, OutAt.expr_eq $ih, OutAt.args_eq $ih, OutAt.loop_eq $ih,
      OutAt.scheme_eq $ih, OutAt.defs_eq $ih, OutAt.expr_snd $ih, OutAt.args_snd $ih,
      OutAt.proc_snd $ih, OutAt.loop_snd $ih, OutAt.defs_snd $ih, OutAt.body_snd $ih,
      OutAt.tail_snd $ih, o_set_eq, o_define, o_enter, o_leave, o_prim, o_lit, o_bind_eq, o_newFrame])

theorem outAt_zero : OutAt 0 := by
  constructor <;> intros <;> simp only [evalExpr, evalArgs, applyProcedure, applyLoop, applyScheme, evalDefs, evalBody, evalTail] <;> exact OutExt.refl _

section succ
variable {fuel : Nat} (ih : OutAt fuel)
include ih
theorem outAt_expr (σ ρ e) : OutExt σ (evalExpr (fuel + 1) σ ρ e).2 := by
  cases e <;> simp only [evalExpr]
  all_goals (repeat' split)
  all_goals (try dsimp only)
  all_goals out_chain ih
theorem outAt_args (σ ρ es) : OutExt σ (evalArgs (fuel + 1) σ ρ es).2 := by
  cases es <;> simp only [evalArgs]
  all_goals (repeat' split)
  all_goals (try dsimp only)
  all_goals out_chain ih
theorem outAt_proc (σ p args env) : OutExt σ (applyProcedure (fuel + 1) σ p args env).2 := by
  rw [applyProcedure]
  split
  dsimp only
  out_chain ih
theorem outAt_loop (σ p args env) : OutExt σ (applyLoop (fuel + 1) σ p args env).2 := by
  rw [applyLoop.eq_def]
  dsimp only
  all_goals (repeat' split)
  all_goals (try dsimp only)
  all_goals out_chain ih
theorem outAt_scheme (σ lam cenv args) : OutExt σ (applyScheme (fuel + 1) σ lam cenv args).2 := by
  simp only [applyScheme]
  cases lam.formals.rest <;> dsimp only
  all_goals (repeat' split)
  all_goals (try dsimp only)
  all_goals out_chain ih
theorem outAt_defs (σ ρ ds) : OutExt σ (evalDefs (fuel + 1) σ ρ ds).2 := by
  rcases ds with _ | ⟨⟨name, e, l⟩, ds⟩ <;> simp only [evalDefs]
  all_goals (repeat' split)
  all_goals (try dsimp only)
  all_goals out_chain ih
theorem outAt_body (σ ρ es) : OutExt σ (evalBody (fuel + 1) σ ρ es).2 := by
  rcases es with _ | ⟨e, _ | ⟨e', es⟩⟩ <;> simp only [evalBody]
  all_goals (repeat' split)
  all_goals (try dsimp only)
  all_goals out_chain ih
theorem outAt_tail (σ ρ e) : OutExt σ (evalTail (fuel + 1) σ ρ e).2 := by
  cases e <;> simp only [evalTail]
  all_goals (repeat' split)
  all_goals (try dsimp only)
  all_goals out_chain ih
end succ

theorem outAt_succ {fuel : Nat} (ih : OutAt fuel) : OutAt (fuel + 1) :=
  ⟨outAt_expr ih, outAt_args ih, outAt_proc ih, outAt_loop ih, outAt_scheme ih, outAt_defs ih,
    outAt_body ih, outAt_tail ih⟩

theorem outAt : ∀ fuel, OutAt fuel
  | 0 => outAt_zero
  | fuel + 1 => outAt_succ (outAt fuel)

theorem storeRel_outExt : StoreRel OutExt where
  refl := OutExt.refl
  trans := OutExt.trans
  expr := fun {fuel σ ρ e r σ'} h => by
    have := (outAt fuel).expr σ ρ e; rw [h] at this; exact this
  define := outExt_define
  newFrame := outExt_newFrame


/-- what a whole form preserves: everything of the interpreter state except the store, the syntax
scopes (changed by the transformer only) and the import-phase flag -/
theorem evalAst_out {fuel st s r st'} (h : evalAst fuel st s = (r, st')) :
    OutExt st.store st'.store ∧ st'.syn = st.syn ∧ st'.env = st.env := by
  obtain ⟨st1, h1, i⟩ := evalAst_inv storeRel_outExt h
  rcases h1 with rfl | rfl
  · exact ⟨i.store, i.syn, i.env⟩
  · exact ⟨i.store, i.syn, i.env⟩

theorem evalForm_out (fuel : Nat) (st : State) (d : Datum) :
    OutExt st.store (evalForm fuel st d).2.store ∧ (evalForm fuel st d).2.env = st.env := by
  unfold evalForm
  split
  · exact ⟨.refl _, rfl⟩
  · rename_i stmt syn _
    obtain ⟨a, _, c⟩ := evalAst_out (fuel := fuel) (st := { st with syn := syn }) (s := stmt) rfl
    exact ⟨a, c⟩

theorem runForms_out (fuel : Nat) (ds : List Datum) : ∀ (st : State) (last : Option Value),
    OutExt st.store (runForms fuel st ds last).2.store := by
  induction ds with
  | nil => intro st last; exact .refl _
  | cons d ds ih =>
    intro st last
    rw [runForms]
    have h := (evalForm_out fuel st d).1
    generalize evalForm fuel st d = y at h
    obtain ⟨r, st'⟩ := y
    cases r with
    | error e => exact h
    | ok v => exact h.trans (ih st' v)

theorem runForms_append (fuel : Nat) (pre rest : List Datum) : ∀ (st : State) (last : Option Value),
    runForms fuel st (pre ++ rest) last =
      match runForms fuel st pre last with
      | (.error e, st') => (.error e, st')
      | (.ok v, st') => runForms fuel st' rest v := by
  induction pre with
  | nil => intro st last; rfl
  | cons d ds ih =>
    intro st last
    simp only [List.cons_append, runForms]
    generalize evalForm fuel st d = y
    obtain ⟨r, st'⟩ := y
    cases r with
    | error e => rfl
    | ok v => exact ih st' v

theorem outText_ext {σ σ' : Store} {more : List String} (h : σ'.out = more ++ σ.out) :
    outText σ' = outText σ ++ String.join more.reverse := by
  unfold outText
  rw [h, List.reverse_append, String.join_append]

/-! ## a concrete text -/

theorem lex_rparen : Lex.all [')'] = ([⟨.rparen, some (1, 2)⟩], none) := by
  simp [Lex.all, Lex.allAux, Lex.next, Lex.skipAtmosphere, Lex.token, Lex.isWs, Lex.adv]

theorem evalText_rparen (fuel : Nat) (st : State) :
    evalText fuel st [')'] = (.error (.syntax, some (1, 2)), st) := by
  unfold evalText
  simp only [Read.ofText, lex_rparen]
  simp [evalText.go, Read.nextDatum, Read.advance, Read.currentDatum, Read.fuelFor, bind, Except.bind]

/-! ## C19: `define-syntax` writes to the instance's own scope only -/

section synbase
open Ruschm.Xform

/-- both runs are the same run, and the environment is `d + 1` scopes above the fixed `base` -/
def OverBase (base : SynEnv) (d : Nat) (s₁ s₂ : SynEnv) : Prop :=
  s₁ = s₂ ∧ ∃ pre : SynEnv, pre.length = d + 1 ∧ s₁ = pre ++ base

instance (base : SynEnv) : EnvRel (OverBase base) where
  get? := fun h k => by rw [h.1]
  define := fun {d s₁ s₂} h k r => by
    obtain ⟨rfl, pre, hl, rfl⟩ := h
    refine ⟨rfl, ?_⟩
    cases pre with
    | nil => simp at hl
    | cons c pre => exact ⟨scopeInsert c k r :: pre, by simpa using hl, by simp [SynEnv.define]⟩
  push := fun {d s₁ s₂} h => by
    obtain ⟨rfl, pre, hl, rfl⟩ := h
    exact ⟨rfl, [] :: pre, by simp [hl], by simp⟩
  pop := fun {d o₁ o₂} h => by
    obtain ⟨rfl, pre, hl, rfl⟩ := h
    refine ⟨rfl, ?_⟩
    cases pre with
    | nil => simp at hl
    | cons c pre => exact ⟨pre, by simpa using hl, by simp [popScope]⟩

/-- the transformer writes to the innermost scope only: below it the environment is unchanged -/
theorem toStatement_base (n : Nat) (d : Datum) (own : List (String × Macro.Rules)) (base : SynEnv) :
    ∃ own', (toStatement n d (own :: base)).2 = own' :: base := by
  obtain ⟨_, _, pre, hl, h⟩ := ((relAll (R := OverBase base) n).stmt d).rel 0 (own :: base) (own :: base)
    ⟨rfl, [own], rfl, rfl⟩
  match pre, hl, h with
  | [own'], _, h => exact ⟨own', h⟩

theorem evalForm_syn (fuel : Nat) (st : State) (d : Datum) (own : List (String × Macro.Rules)) (base : SynEnv)
    (h : st.syn = own :: base) : ∃ own', (evalForm fuel st d).2.syn = own' :: base := by
  obtain ⟨own', h'⟩ := toStatement_base (xformFuel d) d own base
  unfold evalForm
  rw [h]
  generalize toStatement (xformFuel d) d (own :: base) = x at h'
  obtain ⟨r, syn⟩ := x
  simp only at h'
  subst h'
  cases r with
  | error e => exact ⟨own', rfl⟩
  | ok stmt =>
    obtain ⟨_, b, _⟩ := evalAst_out (fuel := fuel) (st := { st with syn := own' :: base }) (s := stmt) rfl
    exact ⟨own', b⟩

theorem runForms_syn (fuel : Nat) (ds : List Datum) : ∀ (st : State) (last : Option Value)
    (own : List (String × Macro.Rules)) (base : SynEnv), st.syn = own :: base →
    ∃ own', (runForms fuel st ds last).2.syn = own' :: base := by
  induction ds with
  | nil => intro st last own base h; exact ⟨own, h⟩
  | cons d ds ih =>
    intro st last own base h
    rw [runForms]
    obtain ⟨own', h'⟩ := evalForm_syn fuel st d own base h
    generalize evalForm fuel st d = y at h'
    obtain ⟨r, st'⟩ := y
    cases r with
    | error e => exact ⟨own', h'⟩
    | ok v => exact ih st' v own' base h'

theorem evalText_syn (fuel : Nat) (st : State) (text : List Char) (own : List (String × Macro.Rules))
    (base : SynEnv) (h : st.syn = own :: base) : ∃ own', (evalText fuel st text).2.syn = own' :: base := by
  rw [evalText_eq_runText]
  unfold runText
  obtain ⟨own', h'⟩ := runForms_syn fuel (formsOf text).1 st none own base h
  generalize runForms fuel st (formsOf text).1 none = y at h'
  obtain ⟨r, st'⟩ := y
  cases r with
  | error e => exact ⟨own', h'⟩
  | ok v => cases (formsOf text).2 <;> exact ⟨own', h'⟩

theorem default_syn (b : Bool) : (default_ b).syn = [[], grammarScope] := rfl

theorem withStdlib_syn (fuel : Nat) (b : Bool) : (withStdlib fuel b).syn = [[], grammarScope] := by
  unfold withStdlib
  have := ((invAt (R := fun _ _ => True) storeRel_true fuel).import_
    (st := default_ b) (sets := [.direct libSchemeBase none, .direct libSchemeWrite none]) (ρ := (default_ b).env) rfl).syn
  exact this


theorem runAlone_syn (fuel : Nat) (texts : List (List Char)) : ∀ (st : State)
    (own : List (String × Macro.Rules)) (base : SynEnv), st.syn = own :: base →
    ∃ own', (runAlone fuel st texts).2.syn = own' :: base := by
  induction texts with
  | nil => intro st own base h; exact ⟨own, h⟩
  | cons t ts ih =>
    intro st own base h
    obtain ⟨own', h'⟩ := evalText_syn fuel st t own base h
    exact ih _ own' base h'
end synbase

/-! ## C17: layouts that move the cursor alike give the same located tokens -/

section layout
open Ruschm.Lex Ruschm.Text

theorem allAux_render_located (ts : List Token) (layout : List (List Char))
    (hs : ∀ t ∈ ts, SupportedTok t) (hl : ValidLayout ts layout) (fuel : Nat) (p : Pos)
    (acc : List LToken) (hf : (interleave ts layout).length < fuel) :
    allAux fuel (interleave ts layout) p acc = (acc.reverse ++ locate ts layout p, none) := by
  induction ts generalizing layout fuel p acc with
  | nil =>
    cases fuel with
    | zero => omega
    | succ fuel =>
      match layout, hl with
      | [a], hl =>
        simp only [ValidLayout] at hl
        obtain ⟨p', hp⟩ := skipAtmosphere_trail false a p hl
        simp [interleave, allAux, next, hp, token, locate]
  | cons t ts ih =>
    cases fuel with
    | zero => omega
    | succ fuel =>
      match layout, hl with
      | a :: l, hl =>
        simp only [ValidLayout] at hl
        obtain ⟨ha, hfo, hl'⟩ := hl
        have hst := hs t (by simp)
        simp only [interleave, List.headD_cons, List.tail_cons] at hf ⊢
        have hnext : next (a ++ (renderTok t ++ interleave ts l)) p
            = .ok (some (t, interleave ts l, advs (renderTok t) (advs a p))) := by
          unfold next
          rw [skipAtmosphere_atmos false a _ p ha (renderTok_startsTok t hst _)]
          exact token_render t _ _ hst hfo
        have hlen := renderTok_length_pos t hst
        simp only [List.length_append] at hf
        have g1 := ih l (fun t ht => hs t (by simp [ht])) hl' fuel
          (advs (renderTok t) (advs a p))
          (⟨t, some (advs (renderTok t) (advs a p))⟩ :: acc) (by omega)
        simp [allAux, hnext, g1, locate]

theorem all_render_located (ts : List Token) (layout : List (List Char))
    (hs : ∀ t ∈ ts, SupportedTok t) (hl : ValidLayout ts layout) :
    Lex.all (interleave ts layout) = (locate ts layout (1, 1), none) := by
  unfold Lex.all
  rw [allAux_render_located ts layout hs hl _ (1, 1) [] (Nat.lt_succ_self _)]
  simp

theorem locate_sameCursor (ts : List Token) : ∀ (l₁ l₂ : List (List Char)) (p : Pos),
    ValidLayout ts l₁ → ValidLayout ts l₂ → SameCursor l₁ l₂ → locate ts l₁ p = locate ts l₂ p := by
  induction ts with
  | nil => intro l₁ l₂ p _ _ _; rfl
  | cons t ts ih =>
    intro l₁ l₂ p h₁ h₂ hc
    match l₁, l₂, h₁, h₂ with
    | a :: l, b :: m, h₁, h₂ =>
      simp only [ValidLayout] at h₁ h₂
      have hc' : (∀ p, advs a p = advs b p) ∧ SameCursor l m := by
        cases l with
        | nil => cases ts <;> simp [ValidLayout] at h₁
        | cons a' l' =>
          cases m with
          | nil => cases ts <;> simp [ValidLayout] at h₂
          | cons b' m' => simpa [SameCursor] using hc
      simp only [locate, List.headD_cons, List.tail_cons, hc'.1]
      rw [ih l m _ h₁.2.2 h₂.2.2 hc'.2]

theorem evalText_lex_congr (fuel : Nat) (st : State) (t₁ t₂ : List Char) (h : Lex.all t₁ = Lex.all t₂) :
    evalText fuel st t₁ = evalText fuel st t₂ := by
  unfold evalText Read.ofText
  rw [h]


theorem advs_cons (c : Char) (cs : List Char) (p : Pos) : advs (c :: cs) p = advs cs (adv c p) := rfl

theorem advs_crlf (a : List Char) : ∀ p, advs (crlf a) p = advs a p := by
  induction a with
  | nil => intro p; rfl
  | cons c cs ih =>
    intro p
    unfold crlf
    by_cases hc : c = '\n'
    · subst hc
      simp only [if_true, advs_cons]
      rw [ih]
      simp [adv]
    · simp only [hc, if_false, advs_cons]
      rw [ih]

theorem isAtmos_crlf (a : List Char) : ∀ b, isAtmos b (crlf a) = isAtmos b a := by
  induction a with
  | nil => intro b; rfl
  | cons c cs ih =>
    intro b
    unfold crlf
    by_cases hc : c = '\n'
    · subst hc
      cases b <;> simp [isAtmos, isWs, ih]
    · cases b <;> simp only [hc, if_false, isAtmos, ih]

theorem isTrail_crlf (a : List Char) : ∀ b, isTrail b (crlf a) = isTrail b a := by
  induction a with
  | nil => intro b; cases b <;> rfl
  | cons c cs ih =>
    intro b
    unfold crlf
    by_cases hc : c = '\n'
    · subst hc
      cases b <;> simp [isTrail, isWs, ih]
    · cases b <;> simp only [hc, if_false, isTrail, ih]

theorem followOK_head (t : Token) {x y : List Char} (h : x.head? = y.head?) : followOK t x = followOK t y := by
  cases x with
  | nil => cases y with
    | nil => rfl
    | cons d y => simp at h
  | cons c x => cases y with
    | nil => simp at h
    | cons d y =>
      simp only [List.head?_cons, Option.some.injEq] at h
      subst h
      unfold followOK
      rw [startsSharp_cons_eq c x y]
      split <;> simp [startsDelim]

theorem followOK_lf_cr (t : Token) (x y : List Char) : followOK t ('\r' :: x) = followOK t ('\n' :: y) := by
  unfold followOK
  split
  · simp only [List.isEmpty_cons, List.head?_cons]; decide
  · simp [startsDelim, startsSharp, isDelimiter, isWs]

theorem followOK_crlf (t : Token) (a x y : List Char) (h : x.head? = y.head?) :
    followOK t (crlf a ++ x) = followOK t (a ++ y) := by
  cases a with
  | nil => exact followOK_head t h
  | cons c cs =>
    unfold crlf
    by_cases hc : c = '\n'
    · subst hc
      simp only [if_true, List.cons_append]
      exact followOK_lf_cr t _ _
    · simp only [hc, if_false, List.cons_append]
      exact followOK_head t rfl

theorem interleave_crlf_head (ts : List Token) (hs : ∀ t ∈ ts, SupportedTok t) (l : List (List Char)) (t : Token) :
    followOK t (interleave ts (l.map crlf)) = followOK t (interleave ts l) := by
  cases ts with
  | nil =>
    cases l with
    | nil => rfl
    | cons a l =>
      simp only [interleave, List.map_cons, List.headD_cons]
      have := followOK_crlf t a [] [] rfl
      simpa using this
  | cons t' ts' =>
    have hpos := renderTok_length_pos t' (hs t' (by simp))
    cases l with
    | nil => rfl
    | cons a l =>
      simp only [interleave, List.map_cons, List.headD_cons, List.tail_cons]
      apply followOK_crlf
      cases h : renderTok t' with
      | nil => simp [h] at hpos
      | cons c r => rfl

theorem validLayout_crlf (ts : List Token) (hs : ∀ t ∈ ts, SupportedTok t) : ∀ (l : List (List Char)),
    ValidLayout ts l → ValidLayout ts (l.map crlf) := by
  induction ts with
  | nil =>
    intro l h
    match l, h with
    | [a], h => simp only [ValidLayout, List.map_cons, List.map_nil] at h ⊢; rw [isTrail_crlf]; exact h
  | cons t ts ih =>
    intro l h
    match l, h with
    | a :: l, h =>
      simp only [ValidLayout, List.map_cons] at h ⊢
      have hs' : ∀ t ∈ ts, SupportedTok t := fun t ht => hs t (by simp [ht])
      refine ⟨by rw [isAtmos_crlf]; exact h.1, ?_, ih hs' l h.2.2⟩
      rw [interleave_crlf_head ts hs' l t]; exact h.2.1

theorem sameCursor_crlf (ts : List Token) : ∀ (l : List (List Char)), ValidLayout ts l → SameCursor l (l.map crlf) := by
  induction ts with
  | nil =>
    intro l h
    match l, h with
    | [a], _ => simp [SameCursor]
  | cons t ts ih =>
    intro l h
    match l, h with
    | a :: l, h =>
      simp only [ValidLayout] at h
      have := ih l h.2.2
      cases l with
      | nil => cases ts <;> simp [ValidLayout] at h
      | cons a' l' =>
        simp only [List.map_cons, SameCursor] at this ⊢
        exact ⟨fun p => (advs_crlf a p).symm, this⟩

theorem sameCursor_last (ts : List Token) : ∀ (l : List (List Char)) (a b : List Char),
    l.length = ts.length → SameCursor (l ++ [a]) (l ++ [b]) := by
  induction ts with
  | nil => intro l a b h; cases l <;> simp_all [SameCursor]
  | cons t ts ih =>
    intro l a b h
    cases l with
    | nil => simp at h
    | cons x l =>
      have := ih l a b (by simpa using h)
      cases l with
      | nil => simp [SameCursor]
      | cons y l' => simp only [List.cons_append, SameCursor] at this ⊢; exact ⟨fun _ => trivial, this⟩

end layout

/-! ## C18: splitting lines -/

theorem isEmpty_append_false (x y : String) (h : x.isEmpty = false) : (x ++ y).isEmpty = false := by
  rw [String.isEmpty_eq_false_iff] at h ⊢
  intro he
  have := congrArg String.utf8ByteSize he
  rw [String.utf8ByteSize_append] at this
  simp at this
  exact h this.1

/-- splitting a line where the text so far is not closed is writing a newline there -/
theorem groupsAux_split (pending x y : String) (ls : List String)
    (hx : x.isEmpty = false) (hy : y.isEmpty = false)
    (hc : Bracket.closed (pending ++ x).toList = false) :
    groupsAux pending (x :: y :: ls) = groupsAux pending ((x ++ "\n" ++ y) :: ls) := by
  have hxy : (x ++ "\n" ++ y).isEmpty = false := by
    rw [String.append_assoc]; exact isEmpty_append_false _ _ hx
  have e : pending ++ (x ++ "\n" ++ y) = pending ++ x ++ "\n" ++ y := by
    simp [String.append_assoc]
  simp only [groupsAux, hx, hy, hxy, hc, Bool.false_eq_true, if_false, e]


theorem groupsAux_append (a b : List String) : ∀ (p : String),
    groupsAux p (a ++ b) =
      ((groupsAux p a).1 ++ (groupsAux (groupsAux p a).2 b).1, (groupsAux (groupsAux p a).2 b).2) := by
  induction a with
  | nil => intro p; simp [groupsAux]
  | cons l ls ih =>
    intro p
    simp only [List.cons_append, groupsAux]
    split
    · exact ih p
    · split
      · rw [ih ""]; simp
      · exact ih _

theorem groups_split (pre ls : List String) (x y : String)
    (hx : x.isEmpty = false) (hy : y.isEmpty = false)
    (hc : Bracket.closed (unfinished pre ++ x).toList = false) :
    groups (pre ++ x :: y :: ls) = groups (pre ++ (x ++ "\n" ++ y) :: ls) ∧
    unfinished (pre ++ x :: y :: ls) = unfinished (pre ++ (x ++ "\n" ++ y) :: ls) := by
  unfold groups unfinished at *
  rw [groupsAux_append, groupsAux_append, groupsAux_split _ x y ls hx hy hc]
  exact ⟨rfl, rfl⟩

theorem session_congr (fuel : Nat) : ∀ (gs₁ gs₂ : List String) (st : State),
    SameLocTokens gs₁ gs₂ → session fuel st gs₁ = session fuel st gs₂
  | [], [], _, _ => rfl
  | g :: gs, h :: hs, st, hh => by
    have hs' : ∀ st, submit fuel st g = submit fuel st h := fun st => by
      unfold submit
      rw [evalText_lex_congr fuel (clearOut st) _ _ hh.1]
    simp only [session, hs', session_congr fuel gs hs _ hh.2]
  | [], _ :: _, _, hh => by cases hh
  | _ :: _, [], _, hh => by cases hh


theorem sameLocTokens_refl : ∀ (gs : List String), SameLocTokens gs gs
  | [] => trivial
  | _ :: gs => ⟨rfl, sameLocTokens_refl gs⟩

end Ruschm.FrontSpec

/-
Helper lemmas for `RuschmProofs/C13More.lean`: fuel monotonicity of the interpreter's mutual block,
the position of `export` declarations, unbound exports, and what the in-progress mark protects.
-/
import RuschmProofs.LibRefine
import RuschmProofs.EvalLemmas
import RuschmSpec.Loc

namespace Ruschm
namespace Interp
open Eval (NotFuel)

/-! ## fuel monotonicity of the interpreter's mutual block -/

theorem notFuel_err_cast {α β} {e : SErr} (h : NotFuel (.error e : Except SErr α)) :
    NotFuel (.error e : Except SErr β) := Eval.NotFuel.cast h

theorem evalExprOrDef_mono {n st s ρ r st'} (h : evalExprOrDef n st s ρ = (r, st')) (hr : NotFuel r) :
    evalExprOrDef (n + 1) st s ρ = (r, st') := by
  unfold evalExprOrDef at h ⊢
  split at h
  · split at h <;> rename_i he <;> cases h
    · rw [Eval.evalExpr_mono he (by simp) 1]
    · rw [Eval.evalExpr_mono he (notFuel_err_cast hr) 1]
  · split at h <;> rename_i he <;> cases h
    · rw [Eval.evalExpr_mono he (by simp) 1]
    · rw [Eval.evalExpr_mono he (notFuel_err_cast hr) 1]
  · exact h
  · exact h

structure IMono (n : Nat) : Prop where
  importSet : ∀ {st s r st'}, evalImportSet n st s = (r, st') → NotFuel r → evalImportSet (n+1) st s = (r, st')
  getLibrary : ∀ {st name loc r st'}, getLibrary n st name loc = (r, st') → NotFuel r →
    getLibrary (n+1) st name loc = (r, st')
  import_ : ∀ {st sets ρ r st'}, evalImport n st sets ρ = (r, st') → NotFuel r →
    evalImport (n+1) st sets ρ = (r, st')
  importSets : ∀ {st sets acc r st'}, evalImportSets n st sets acc = (r, st') → NotFuel r →
    evalImportSets (n+1) st sets acc = (r, st')
  libraryDef : ∀ {st decls r st'}, evalLibraryDef n st decls = (r, st') → NotFuel r →
    evalLibraryDef (n+1) st decls = (r, st')
  libDecls : ∀ {st ρ decls acc r st'}, evalLibDecls n st ρ decls acc = (r, st') → NotFuel r →
    evalLibDecls (n+1) st ρ decls acc = (r, st')
  statements : ∀ {st ρ ss r st'}, evalStatements n st ρ ss = (r, st') → NotFuel r →
    evalStatements (n+1) st ρ ss = (r, st')

theorem imono_zero : IMono 0 := by
  constructor <;> intros <;> rename_i h hr
  · rw [evalImportSet] at h; cases h; simp at hr
  · rw [Interp.getLibrary] at h; cases h; simp at hr
  · rw [evalImport] at h; cases h; simp at hr
  · rw [evalImportSets] at h; cases h; simp at hr
  · rw [evalLibraryDef] at h; cases h; simp at hr
  · rw [evalLibDecls] at h; cases h; simp at hr
  · rw [evalStatements] at h; cases h; simp at hr

theorem imono_importSet {n} (ih : IMono n) {st s r st'} (h : evalImportSet (n+1) st s = (r, st'))
    (hr : NotFuel r) : evalImportSet (n+2) st s = (r, st') := by
  cases s with
  | direct name loc =>
    rw [evalImportSet] at h ⊢
    split at h
    · rename_i hc; rw [if_pos hc]; exact h
    · rename_i hc
      rw [if_neg hc]
      cases h
      have := ih.getLibrary (st := { st with inProgress := name :: st.inProgress }) (name := name)
        (loc := loc) (r := _) (st' := _) rfl hr
      simp only [this]
  | only sub ids =>
    rw [evalImportSet] at h ⊢
    split at h <;> rename_i he <;> cases h
    · rw [ih.importSet he (by simp)]
    · rw [ih.importSet he (notFuel_err_cast hr)]
  | except sub ids =>
    rw [evalImportSet] at h ⊢
    split at h <;> rename_i he <;> cases h
    · rw [ih.importSet he (by simp)]
    · rw [ih.importSet he (notFuel_err_cast hr)]
  | «prefix» sub p =>
    rw [evalImportSet] at h ⊢
    split at h <;> rename_i he <;> cases h
    · rw [ih.importSet he (by simp)]
    · rw [ih.importSet he (notFuel_err_cast hr)]
  | rename sub pairs =>
    rw [evalImportSet] at h ⊢
    split at h <;> rename_i he <;> cases h
    · rw [ih.importSet he (by simp)]
    · rw [ih.importSet he (notFuel_err_cast hr)]

theorem imono_getLibrary {n} (ih : IMono n) {st name loc r st'}
    (h : Interp.getLibrary (n+1) st name loc = (r, st')) (hr : NotFuel r) :
    Interp.getLibrary (n+2) st name loc = (r, st') := by
  rw [getLibrary_succ_eq] at h ⊢
  split at h
  · exact h
  · split at h
    · exact h
    · rename_i f st1 hff
      unfold instantiate cacheInstance at h ⊢
      cases f with
      | native defs => exact h
      | ast decls =>
        simp only [newLibrary] at h ⊢
        generalize hres : evalLibraryDef n st1 decls = res at h
        obtain ⟨r1, st2⟩ := res
        have hnf : NotFuel r1 := by
          cases r1 with
          | ok d => simp
          | error e => simp only at h; cases h; exact notFuel_err_cast hr
        rw [ih.libraryDef hres hnf]
        exact h

theorem imono_import {n} (ih : IMono n) {st sets ρ r st'} (h : evalImport (n+1) st sets ρ = (r, st'))
    (hr : NotFuel r) : evalImport (n+2) st sets ρ = (r, st') := by
  rw [evalImport] at h ⊢
  split at h <;> rename_i he <;> cases h
  · rw [ih.importSets he (notFuel_err_cast hr)]
  · rw [ih.importSets he (by simp)]

theorem imono_importSets {n} (ih : IMono n) {st sets acc r st'}
    (h : evalImportSets (n+1) st sets acc = (r, st')) (hr : NotFuel r) :
    evalImportSets (n+2) st sets acc = (r, st') := by
  cases sets with
  | nil => rw [evalImportSets] at h ⊢; exact h
  | cons s rest =>
    rw [evalImportSets] at h ⊢
    split at h <;> rename_i he
    · cases h; rw [ih.importSet he (notFuel_err_cast hr)]
    · rw [ih.importSet he (by simp)]
      simp only
      split at h
      · exact h
      · exact ih.importSets h hr

theorem imono_libraryDef {n} (ih : IMono n) {st decls r st'}
    (h : evalLibraryDef (n+1) st decls = (r, st')) (hr : NotFuel r) :
    evalLibraryDef (n+2) st decls = (r, st') := by
  rw [evalLibraryDef_succ_eq] at h ⊢
  split at h <;> rename_i he
  · cases h; rw [ih.libDecls he (notFuel_err_cast hr)]
  · rw [ih.libDecls he (by simp)]; exact h

theorem imono_libDecls {n} (ih : IMono n) {st ρ decls acc r st'}
    (h : evalLibDecls (n+1) st ρ decls acc = (r, st')) (hr : NotFuel r) :
    evalLibDecls (n+2) st ρ decls acc = (r, st') := by
  cases decls with
  | nil => rw [evalLibDecls] at h ⊢; exact h
  | cons d ds =>
    cases d with
    | importDecl sets =>
      rw [evalLibDecls] at h ⊢
      split at h <;> rename_i he
      · cases h; rw [ih.import_ he (notFuel_err_cast hr)]
      · rw [ih.import_ he (by simp)]; exact ih.libDecls h hr
    | «export» specs =>
      rw [evalLibDecls] at h ⊢
      exact ih.libDecls h hr
    | begin_ body =>
      rw [evalLibDecls] at h ⊢
      split at h <;> rename_i he
      · cases h; rw [ih.statements he (notFuel_err_cast hr)]
      · rw [ih.statements he (by simp)]; exact ih.libDecls h hr

theorem imono_statements {n} (ih : IMono n) {st ρ ss r st'}
    (h : evalStatements (n+1) st ρ ss = (r, st')) (hr : NotFuel r) :
    evalStatements (n+2) st ρ ss = (r, st') := by
  cases ss with
  | nil => rw [evalStatements] at h ⊢; exact h
  | cons s rest =>
    rw [evalStatements] at h ⊢
    split at h <;> rename_i he
    · cases h; rw [evalExprOrDef_mono he (notFuel_err_cast hr)]
    · rw [evalExprOrDef_mono he (by simp)]; exact ih.statements h hr

theorem imono : ∀ n, IMono n
  | 0 => imono_zero
  | n + 1 =>
    have ih := imono n
    ⟨imono_importSet ih, imono_getLibrary ih, imono_import ih, imono_importSets ih,
     imono_libraryDef ih, imono_libDecls ih, imono_statements ih⟩

theorem mono_le_state {α} {f : Nat → Except SErr α × State}
    (step : ∀ n r st', f n = (r, st') → NotFuel r → f (n+1) = (r, st'))
    {n m r st'} (h : f n = (r, st')) (hr : NotFuel r) (hnm : n ≤ m) : f m = (r, st') := by
  obtain ⟨k, rfl⟩ := Nat.exists_eq_add_of_le hnm
  induction k with
  | zero => exact h
  | succ k ih => exact step _ _ _ (ih (by omega)) hr

theorem evalLibDecls_mono_le {n m st ρ decls acc r st'} (h : evalLibDecls n st ρ decls acc = (r, st'))
    (hr : NotFuel r) (hnm : n ≤ m) : evalLibDecls m st ρ decls acc = (r, st') :=
  mono_le_state (f := fun n => evalLibDecls n st ρ decls acc) (fun n _ _ h hr => (imono n).libDecls h hr) h hr hnm

theorem evalLibraryDef_mono_le {n m st decls r st'} (h : evalLibraryDef n st decls = (r, st'))
    (hr : NotFuel r) (hnm : n ≤ m) : evalLibraryDef m st decls = (r, st') :=
  mono_le_state (f := fun n => evalLibraryDef n st decls) (fun n _ _ h hr => (imono n).libraryDef h hr) h hr hnm

theorem getLibrary_mono_le {n m st name loc r st'} (h : Interp.getLibrary n st name loc = (r, st'))
    (hr : NotFuel r) (hnm : n ≤ m) : Interp.getLibrary m st name loc = (r, st') :=
  mono_le_state (f := fun n => Interp.getLibrary n st name loc) (fun n _ _ h hr => (imono n).getLibrary h hr) h hr hnm

theorem evalImportSet_mono_le {n m st s r st'} (h : evalImportSet n st s = (r, st'))
    (hr : NotFuel r) (hnm : n ≤ m) : evalImportSet m st s = (r, st') :=
  mono_le_state (f := fun n => evalImportSet n st s) (fun n _ _ h hr => (imono n).importSet h hr) h hr hnm

theorem evalImport_mono_le {n m st sets ρ r st'} (h : evalImport n st sets ρ = (r, st'))
    (hr : NotFuel r) (hnm : n ≤ m) : evalImport m st sets ρ = (r, st') :=
  mono_le_state (f := fun n => evalImport n st sets ρ) (fun n _ _ h hr => (imono n).import_ h hr) h hr hnm

/-! ## `export` declarations do not take part in the evaluation of the body -/

/-- the declarations without the `export` declarations: the body proper -/
def stripExports : List LibDecl → List LibDecl
  | [] => []
  | .export _ :: ds => stripExports ds
  | d :: ds => d :: stripExports ds

/-- the outcome of the body, forgetting the collected export specs -/
def bodyOutcome (r : Except SErr (List ExportSpec)) : Except SErr Unit :=
  match r with
  | .ok _ => .ok ()
  | .error e => .error e

theorem notFuel_bodyOutcome {r : Except SErr (List ExportSpec)} (h : NotFuel r) : NotFuel (bodyOutcome r) := by
  cases r with
  | ok _ => simp [bodyOutcome]
  | error e => exact notFuel_err_cast h

/-- running the declarations and running them without the `export`s end in the same state with
the same outcome -/
theorem evalLibDecls_strip : ∀ (decls : List LibDecl) (n : Nat) (st : State) (ρ : Nat)
    (acc acc0 : List ExportSpec) (r : Except SErr (List ExportSpec)) (st' : State),
    evalLibDecls n st ρ decls acc = (r, st') → NotFuel r →
    ∃ r0, evalLibDecls n st ρ (stripExports decls) acc0 = (r0, st') ∧ bodyOutcome r0 = bodyOutcome r ∧
      (∀ x, r0 = .ok x → x = acc0) := by
  intro decls
  induction decls with
  | nil =>
    intro n st ρ acc acc0 r st' h hr
    cases n with
    | zero => rw [evalLibDecls] at h; cases h; simp at hr
    | succ n =>
      rw [evalLibDecls] at h; cases h
      exact ⟨.ok acc0, by simp [stripExports, evalLibDecls], rfl, fun x hx => by cases hx; rfl⟩
  | cons d ds ih =>
    intro n st ρ acc acc0 r st' h hr
    cases n with
    | zero => rw [evalLibDecls] at h; cases h; simp at hr
    | succ n =>
      cases d with
      | «export» specs =>
        rw [evalLibDecls] at h
        obtain ⟨r0, h0, hb, hx⟩ := ih n st ρ _ acc0 r st' h hr
        have hnf : NotFuel r0 := by
          cases r0 with
          | ok _ => simp
          | error e =>
            cases r with
            | ok _ => simp [bodyOutcome] at hb
            | error e' => simp [bodyOutcome] at hb; subst hb; exact hr
        exact ⟨r0, (imono n).libDecls h0 hnf, hb, hx⟩
      | importDecl sets =>
        rw [evalLibDecls] at h
        simp only [stripExports]
        rw [evalLibDecls]
        split at h <;> rename_i he
        · cases h; exact ⟨_, rfl, rfl, fun x hx => by cases hx⟩
        · exact ih n _ ρ _ acc0 r st' h hr
      | begin_ body =>
        rw [evalLibDecls] at h
        simp only [stripExports]
        rw [evalLibDecls]
        split at h <;> rename_i he
        · cases h; exact ⟨_, rfl, rfl, fun x hx => by cases hx⟩
        · exact ih n _ ρ _ acc0 r st' h hr

/-- the table of a library definition does not depend on where its `export` declarations stand -/
theorem evalLibraryDef_position {decls₁ decls₂ : List LibDecl} {n₁ n₂ : Nat} {st st₁ st₂ : State}
    {r₁ r₂ : Except SErr (List (String × Value))}
    (hs : stripExports decls₁ = stripExports decls₂) (hx : S.exportSpecs decls₁ = S.exportSpecs decls₂)
    (h₁ : evalLibraryDef n₁ st decls₁ = (r₁, st₁)) (hr₁ : NotFuel r₁)
    (h₂ : evalLibraryDef n₂ st decls₂ = (r₂, st₂)) (hr₂ : NotFuel r₂) : r₁ = r₂ ∧ st₁ = st₂ := by
  have e₁ := evalLibraryDef_mono_le h₁ hr₁ (show n₁ ≤ max n₁ n₂ + 1 by omega)
  have e₂ := evalLibraryDef_mono_le h₂ hr₂ (show n₂ ≤ max n₁ n₂ + 1 by omega)
  generalize max n₁ n₂ = k at e₁ e₂
  rw [evalLibraryDef_succ_eq] at e₁ e₂
  generalize hd₁ : evalLibDecls k _ _ decls₁ [] = res₁ at e₁
  generalize hd₂ : evalLibDecls k _ _ decls₂ [] = res₂ at e₂
  obtain ⟨x₁, s₁⟩ := res₁
  obtain ⟨x₂, s₂⟩ := res₂
  have nf₁ : NotFuel x₁ := by
    cases x₁ with
    | ok _ => simp
    | error e => simp only at e₁; cases e₁; exact notFuel_err_cast hr₁
  have nf₂ : NotFuel x₂ := by
    cases x₂ with
    | ok _ => simp
    | error e => simp only at e₂; cases e₂; exact notFuel_err_cast hr₂
  obtain ⟨a₁, ha₁, hb₁, -⟩ := evalLibDecls_strip decls₁ k _ _ [] [] x₁ s₁ hd₁ nf₁
  obtain ⟨a₂, ha₂, hb₂, -⟩ := evalLibDecls_strip decls₂ k _ _ [] [] x₂ s₂ hd₂ nf₂
  rw [hs, ha₂] at ha₁
  cases ha₁
  have hb : bodyOutcome x₁ = bodyOutcome x₂ := by rw [← hb₁, ← hb₂]
  cases x₁ with
  | error e =>
    cases x₂ with
    | ok _ => simp [bodyOutcome] at hb
    | error e' =>
      simp only [bodyOutcome, Except.error.injEq] at hb; subst hb
      simp only at e₁ e₂
      cases e₁; cases e₂; exact ⟨rfl, rfl⟩
  | ok ex₁ =>
    cases x₂ with
    | error _ => simp [bodyOutcome] at hb
    | ok ex₂ =>
      have q₁ := evalLibDecls_exports _ _ _ _ _ _ _ hd₁
      have q₂ := evalLibDecls_exports _ _ _ _ _ _ _ hd₂
      simp only [List.nil_append] at q₁ q₂
      subst q₁; subst q₂
      simp only at e₁ e₂
      rw [hx] at e₁
      rw [e₁] at e₂
      cases e₂; exact ⟨rfl, rfl⟩

/-! ## unbound exports -/

end Interp

-- `ExportSpec.loc` (where an export spec stands in the source) is defined in `RuschmSpec/Loc.lean`

namespace Interp

/-- the first export spec whose internal identifier is unbound -/
def firstUnbound (look : String → Option Value) (specs : List ExportSpec) : Option ExportSpec :=
  specs.find? (fun sp => (look sp.internal).isNone)

theorem exportFold_unbound (look : String → Option Value) : ∀ (specs : List ExportSpec) (acc : List (String × Value)),
    match firstUnbound look specs with
    | some sp => specs.foldlM (exportStep look) acc = .error (.unbound, sp.loc)
    | none => ∃ defs, specs.foldlM (exportStep look) acc = .ok defs := by
  intro specs
  induction specs with
  | nil => intro acc; exact ⟨acc, rfl⟩
  | cons sp rest ih =>
    intro acc
    rw [List.foldlM_cons]
    simp only [firstUnbound, List.find?_cons]
    cases hl : look sp.internal with
    | none =>
      simp only [Option.isNone_none, exportStep, hl, bind, Except.bind]
      cases sp <;> rfl
    | some v =>
      simp only [Option.isNone_some, exportStep, hl, bind, Except.bind]
      exact ih _

/-! ## what the in-progress mark protects -/

/-- the instances of the libraries in progress (that satisfy `P`) are not touched -/
def Keep (P : LibName → Prop) (st st' : State) : Prop :=
  ∀ n ∈ st.inProgress, P n → libLookup st'.instances n = libLookup st.instances n

theorem Keep.refl (P) (st : State) : Keep P st st := fun _ _ _ => rfl

theorem Keep.trans {P} {a b c : State} (h1 : Keep P a b) (hip : b.inProgress = a.inProgress)
    (h2 : Keep P b c) : Keep P a c :=
  fun n hn hp => (h2 n (hip ▸ hn) hp).trans (h1 n hn hp)

theorem Keep.mono {P Q : LibName → Prop} {a b : State} (h : Keep P a b) (hq : ∀ n, Q n → P n) : Keep Q a b :=
  fun n hn hp => h n hn (hq n hp)

structure KeepAt (fuel : Nat) : Prop where
  importSet : ∀ {st s r st'}, evalImportSet fuel st s = (r, st') → Keep (fun _ => True) st st'
  getLibrary : ∀ {st name loc r st'}, getLibrary fuel st name loc = (r, st') → Keep (· ≠ name) st st'
  import_ : ∀ {st sets ρ r st'}, evalImport fuel st sets ρ = (r, st') → Keep (fun _ => True) st st'
  importSets : ∀ {st sets acc r st'}, evalImportSets fuel st sets acc = (r, st') → Keep (fun _ => True) st st'
  libraryDef : ∀ {st decls r st'}, evalLibraryDef fuel st decls = (r, st') → Keep (fun _ => True) st st'
  libDecls : ∀ {st ρ decls acc r st'}, evalLibDecls fuel st ρ decls acc = (r, st') → Keep (fun _ => True) st st'
  statements : ∀ {st ρ ss r st'}, evalStatements fuel st ρ ss = (r, st') → Keep (fun _ => True) st st'

theorem keepAt_zero : KeepAt 0 := by
  constructor <;> intros <;> rename_i h
  · rw [evalImportSet] at h; cases h; exact Keep.refl _ _
  · rw [Interp.getLibrary] at h; cases h; exact Keep.refl _ _
  · rw [evalImport] at h; cases h; exact Keep.refl _ _
  · rw [evalImportSets] at h; cases h; exact Keep.refl _ _
  · rw [evalLibraryDef] at h; cases h; exact Keep.refl _ _
  · rw [evalLibDecls] at h; cases h; exact Keep.refl _ _
  · rw [evalStatements] at h; cases h; exact Keep.refl _ _

theorem keep_of_instances_eq {P} {st st' : State} (h : st'.instances = st.instances) : Keep P st st' :=
  fun _ _ _ => by rw [h]

theorem keep_importSet {fuel} (ih : KeepAt fuel) {st s r st'}
    (h : evalImportSet (fuel + 1) st s = (r, st')) : Keep (fun _ => True) st st' := by
  cases s with
  | direct name loc =>
    rw [evalImportSet] at h
    split at h
    · cases h; exact Keep.refl _ _
    · rename_i hc
      cases h
      have k := ih.getLibrary (st := { st with inProgress := name :: st.inProgress }) (name := name)
        (loc := loc) (r := _) (st' := _) rfl
      intro n hn _
      have hne : n ≠ name := by
        rintro rfl
        exact hc (by simpa using hn)
      exact k n (by simp [hn]) hne
  | only sub ids =>
    rw [evalImportSet] at h
    split at h <;> rename_i he <;> cases h <;> exact ih.importSet he
  | except sub ids =>
    rw [evalImportSet] at h
    split at h <;> rename_i he <;> cases h <;> exact ih.importSet he
  | «prefix» sub p =>
    rw [evalImportSet] at h
    split at h <;> rename_i he <;> cases h <;> exact ih.importSet he
  | rename sub pairs =>
    rw [evalImportSet] at h
    split at h <;> rename_i he <;> cases h <;> exact ih.importSet he

theorem keep_getLibrary {fuel} (ih : KeepAt fuel) {st name loc r st'}
    (h : Interp.getLibrary (fuel + 1) st name loc = (r, st')) : Keep (· ≠ name) st st' := by
  rw [getLibrary_succ_eq] at h
  split at h
  · cases h; exact Keep.refl _ _
  · rename_i hnone
    split at h
    · rename_i hff
      cases h
      have := (findFactory_step hnone hff).2.2.2 _ rfl
      rw [this]; exact Keep.refl _ _
    · rename_i f st1 hff
      have hinv := (findFactory_inv storeRel_true hnone hff).1
      have hs1 : st1.instances = st.instances := by
        unfold findFactory at hff
        split at hff
        · cases hff; rfl
        · split at hff
          · cases hff
          · cases hff
          · split at hff
            · cases hff; rfl
            · cases hff
      have k1 : Keep (· ≠ name) st st1 := keep_of_instances_eq hs1
      refine k1.trans hinv.inProgress ?_
      unfold instantiate cacheInstance at h
      have k2 : Keep (fun _ => True) st1 (newLibrary fuel st1 f).2 := by
        unfold newLibrary
        cases f with
        | native defs => exact Keep.refl _ _
        | ast decls => exact ih.libraryDef (r := _) (st' := _) rfl
      split at h
      · cases h
        intro n hn hne
        simp only [libLookup_libInsert_ne _ _ hne]
        exact k2 n hn trivial
      · cases h; exact k2.mono (fun _ _ => trivial)

theorem keep_importSets {fuel} (ih : KeepAt fuel) {st sets acc r st'}
    (h : evalImportSets (fuel + 1) st sets acc = (r, st')) : Keep (fun _ => True) st st' := by
  cases sets with
  | nil => rw [evalImportSets] at h; cases h; exact Keep.refl _ _
  | cons s rest =>
    rw [evalImportSets] at h
    split at h <;> rename_i he
    · cases h; exact ih.importSet he
    · have hip := ((invAt storeRel_true fuel).importSet he).inProgress
      split at h
      · cases h; exact ih.importSet he
      · exact (ih.importSet he).trans hip (ih.importSets h)

theorem keep_import {fuel} (ih : KeepAt fuel) {st sets ρ r st'}
    (h : evalImport (fuel + 1) st sets ρ = (r, st')) : Keep (fun _ => True) st st' := by
  rw [evalImport] at h
  split at h <;> rename_i he <;> cases h
  · exact ih.importSets he
  · intro n hn hp; exact (ih.importSets he) n hn hp

theorem keep_libraryDef {fuel} (ih : KeepAt fuel) {st decls r st'}
    (h : evalLibraryDef (fuel + 1) st decls = (r, st')) : Keep (fun _ => True) st st' := by
  rw [evalLibraryDef_succ_eq] at h
  split at h <;> rename_i he <;> cases h <;> (intro n hn hp; exact (ih.libDecls he) n hn hp)

theorem keep_evalExprOrDef {fuel st s ρ r st'} (h : evalExprOrDef fuel st s ρ = (r, st')) :
    st'.instances = st.instances ∧ st'.inProgress = st.inProgress := by
  unfold evalExprOrDef at h
  split at h
  · split at h <;> cases h <;> exact ⟨rfl, rfl⟩
  · split at h <;> cases h <;> exact ⟨rfl, rfl⟩
  · cases h; exact ⟨rfl, rfl⟩
  · cases h; exact ⟨rfl, rfl⟩

theorem keep_statements {fuel} (ih : KeepAt fuel) {st ρ ss r st'}
    (h : evalStatements (fuel + 1) st ρ ss = (r, st')) : Keep (fun _ => True) st st' := by
  cases ss with
  | nil => rw [evalStatements] at h; cases h; exact Keep.refl _ _
  | cons s rest =>
    rw [evalStatements] at h
    split at h <;> rename_i he
    · cases h; exact keep_of_instances_eq (keep_evalExprOrDef he).1
    · exact (keep_of_instances_eq (keep_evalExprOrDef he).1).trans (keep_evalExprOrDef he).2 (ih.statements h)

theorem keep_libDecls {fuel} (ih : KeepAt fuel) {st ρ decls acc r st'}
    (h : evalLibDecls (fuel + 1) st ρ decls acc = (r, st')) : Keep (fun _ => True) st st' := by
  cases decls with
  | nil => rw [evalLibDecls] at h; cases h; exact Keep.refl _ _
  | cons d ds =>
    cases d with
    | importDecl sets =>
      rw [evalLibDecls] at h
      split at h <;> rename_i he
      · cases h; exact ih.import_ he
      · exact (ih.import_ he).trans ((invAt storeRel_true fuel).import_ he).inProgress (ih.libDecls h)
    | «export» specs =>
      rw [evalLibDecls] at h
      exact ih.libDecls h
    | begin_ body =>
      rw [evalLibDecls] at h
      split at h <;> rename_i he
      · cases h; exact ih.statements he
      · exact (ih.statements he).trans ((invAt storeRel_true fuel).statements he).inProgress (ih.libDecls h)

theorem keepAt : ∀ fuel, KeepAt fuel
  | 0 => keepAt_zero
  | fuel + 1 =>
    have ih := keepAt fuel
    ⟨keep_importSet ih, keep_getLibrary ih, keep_import ih, keep_importSets ih, keep_libraryDef ih,
     keep_libDecls ih, keep_statements ih⟩

/-! ## the importer-side fields are never read -/

/-- `st` with the importer-side fields (`env`: the interpreter's global frame; `syn`; `importEnd`) of `t` -/
def withImporter (t st : State) : State :=
  { st with env := t.env, syn := t.syn, importEnd := t.importEnd }

/-- `f` does not read the importer-side fields and passes them through -/
def Blind {α β} (f : State → β → Except SErr α × State) : Prop :=
  ∀ t st b, f (withImporter t st) b = ((f st b).1, withImporter t (f st b).2)

theorem evalExprOrDef_blind (n : Nat) (ρ : Nat) : Blind (fun st s => evalExprOrDef n st s ρ) := by
  intro t st s
  simp only [evalExprOrDef, withImporter]
  split
  · split <;> simp only
  · split <;> simp only
  · rfl
  · rfl

structure BlindAt (n : Nat) : Prop where
  importSet : Blind (fun st s => evalImportSet n st s)
  getLibrary : Blind (fun st (p : LibName × Loc) => getLibrary n st p.1 p.2)
  import_ : Blind (fun st (p : List ImportSet × Nat) => evalImport n st p.1 p.2)
  importSets : Blind (fun st (p : List ImportSet × List (String × Value)) => evalImportSets n st p.1 p.2)
  libraryDef : Blind (fun st decls => evalLibraryDef n st decls)
  libDecls : Blind (fun st (p : Nat × List LibDecl × List ExportSpec) => evalLibDecls n st p.1 p.2.1 p.2.2)
  statements : Blind (fun st (p : Nat × List Statement) => evalStatements n st p.1 p.2)

theorem blindAt_zero : BlindAt 0 := by
  constructor <;> intro t st b
  · simp only [evalImportSet]
  · simp only [Interp.getLibrary]
  · simp only [evalImport]
  · simp only [evalImportSets]
  · simp only [evalLibraryDef]
  · simp only [evalLibDecls]
  · simp only [evalStatements]

theorem blind_importSet {n} (ih : BlindAt n) : Blind (fun st s => evalImportSet (n+1) st s) := by
  intro t st s
  cases s with
  | direct name loc =>
    have ihg := ih.getLibrary t { st with inProgress := name :: st.inProgress } (name, loc)
    simp only [withImporter] at ihg ⊢
    simp only [evalImportSet]
    split
    · rfl
    · simp only [ihg]
  | only sub ids =>
    have ihs := ih.importSet t st sub
    simp only [evalImportSet] at ihs ⊢
    rw [ihs]
    generalize evalImportSet n st sub = res
    obtain ⟨r, s'⟩ := res
    cases r <;> rfl
  | except sub ids =>
    have ihs := ih.importSet t st sub
    simp only [evalImportSet] at ihs ⊢
    rw [ihs]
    generalize evalImportSet n st sub = res
    obtain ⟨r, s'⟩ := res
    cases r <;> rfl
  | «prefix» sub p =>
    have ihs := ih.importSet t st sub
    simp only [evalImportSet] at ihs ⊢
    rw [ihs]
    generalize evalImportSet n st sub = res
    obtain ⟨r, s'⟩ := res
    cases r <;> rfl
  | rename sub pairs =>
    have ihs := ih.importSet t st sub
    simp only [evalImportSet] at ihs ⊢
    rw [ihs]
    generalize evalImportSet n st sub = res
    obtain ⟨r, s'⟩ := res
    cases r <;> rfl

theorem findFactory_blind (t st : State) (name : LibName) (loc : Loc) :
    findFactory (withImporter t st) name loc =
      ((findFactory st name loc).1, withImporter t (findFactory st name loc).2) := by
  simp only [findFactory, withImporter]
  split
  · rfl
  · split
    · rfl
    · rfl
    · split <;> rfl

theorem blind_getLibrary {n} (ih : BlindAt n) :
    Blind (fun st (p : LibName × Loc) => Interp.getLibrary (n+1) st p.1 p.2) := by
  intro t st p
  obtain ⟨name, loc⟩ := p
  simp only [getLibrary_succ_eq]
  have hi : libLookup (withImporter t st).instances name = libLookup st.instances name := rfl
  rw [hi]
  cases libLookup st.instances name with
  | some d => rfl
  | none =>
    simp only
    rw [findFactory_blind]
    generalize findFactory st name loc = ff
    obtain ⟨rf, st1⟩ := ff
    cases rf with
    | error e => rfl
    | ok f =>
      simp only [instantiate, cacheInstance]
      have hn : newLibrary n (withImporter t st1) f =
          ((newLibrary n st1 f).1, withImporter t (newLibrary n st1 f).2) := by
        unfold newLibrary
        cases f with
        | native defs => rfl
        | ast decls => exact ih.libraryDef t st1 decls
      rw [hn]
      generalize newLibrary n st1 f = res
      obtain ⟨r, s2⟩ := res
      cases r <;> rfl

theorem blind_import {n} (ih : BlindAt n) :
    Blind (fun st (p : List ImportSet × Nat) => evalImport (n+1) st p.1 p.2) := by
  intro t st p
  obtain ⟨sets, ρ⟩ := p
  have ihs := ih.importSets t st (sets, [])
  simp only [evalImport] at ihs ⊢
  rw [ihs]
  generalize evalImportSets n st sets [] = res
  obtain ⟨r, s'⟩ := res
  cases r <;> rfl

theorem blind_importSets {n} (ih : BlindAt n) :
    Blind (fun st (p : List ImportSet × List (String × Value)) => evalImportSets (n+1) st p.1 p.2) := by
  intro t st p
  obtain ⟨sets, acc⟩ := p
  cases sets with
  | nil => simp only [evalImportSets]
  | cons s rest =>
    have ih1 := ih.importSet t st s
    simp only [evalImportSets_cons_eq] at ih1 ⊢
    rw [ih1]
    generalize evalImportSet n st s = res
    obtain ⟨r, s1⟩ := res
    cases r with
    | error e => rfl
    | ok defs =>
      simp only
      have he : importEq (withImporter t s1) = importEq s1 := rfl
      rw [he]
      cases defs.foldlM (Lib.mergeStep (importEq s1)) acc with
      | error e => rfl
      | ok acc' => exact ih.importSets t s1 (rest, acc')

theorem blind_libraryDef {n} (ih : BlindAt n) : Blind (fun st decls => evalLibraryDef (n+1) st decls) := by
  intro t st decls
  have ihd := ih.libDecls t { st with store := (st.store.newFrame none).2 } (st.store.frames.size, decls, [])
  simp only [evalLibraryDef_succ_eq]
  have e : ({ withImporter t st with store := ((withImporter t st).store.newFrame none).2 } : State) =
      withImporter t { st with store := (st.store.newFrame none).2 } := rfl
  have e2 : (withImporter t st).store.frames.size = st.store.frames.size := rfl
  rw [e, e2]
  simp only at ihd
  rw [ihd]
  generalize evalLibDecls n _ _ decls [] = res
  obtain ⟨r, s'⟩ := res
  cases r <;> rfl

theorem blind_statements {n} (ih : BlindAt n) :
    Blind (fun st (p : Nat × List Statement) => evalStatements (n+1) st p.1 p.2) := by
  intro t st p
  obtain ⟨ρ, ss⟩ := p
  cases ss with
  | nil => simp only [evalStatements]
  | cons s rest =>
    have h1 := evalExprOrDef_blind n ρ t st s
    simp only [evalStatements] at h1 ⊢
    rw [h1]
    generalize evalExprOrDef n st s ρ = res
    obtain ⟨r, s1⟩ := res
    cases r with
    | error e => rfl
    | ok v => exact ih.statements t s1 (ρ, rest)

theorem blind_libDecls {n} (ih : BlindAt n) :
    Blind (fun st (p : Nat × List LibDecl × List ExportSpec) => evalLibDecls (n+1) st p.1 p.2.1 p.2.2) := by
  intro t st p
  obtain ⟨ρ, decls, acc⟩ := p
  cases decls with
  | nil => simp only [evalLibDecls]
  | cons d ds =>
    cases d with
    | importDecl sets =>
      have h1 := ih.import_ t st (sets, ρ)
      simp only [evalLibDecls] at h1 ⊢
      rw [h1]
      generalize evalImport n st sets ρ = res
      obtain ⟨r, s1⟩ := res
      cases r with
      | error e => rfl
      | ok v => exact ih.libDecls t s1 (ρ, ds, acc)
    | «export» specs =>
      simp only [evalLibDecls]
      exact ih.libDecls t st (ρ, ds, acc ++ specs)
    | begin_ body =>
      have h1 := ih.statements t st (ρ, body)
      simp only [evalLibDecls] at h1 ⊢
      rw [h1]
      generalize evalStatements n st ρ body = res
      obtain ⟨r, s1⟩ := res
      cases r with
      | error e => rfl
      | ok v => exact ih.libDecls t s1 (ρ, ds, acc)

theorem blindAt : ∀ n, BlindAt n
  | 0 => blindAt_zero
  | n + 1 =>
    have ih := blindAt n
    ⟨blind_importSet ih, blind_getLibrary ih, blind_import ih, blind_importSets ih, blind_libraryDef ih,
     blind_libDecls ih, blind_statements ih⟩

/-! ## a successful import leaves the instance in the cache -/

theorem evalImportSet_ok_cached (s : ImportSet) : ∀ {fuel : Nat} {st st' : State} {defs : S.Bindings},
    evalImportSet fuel st s = (.ok defs, st') →
    ∃ d, libLookup st'.instances (S.leaf s) = some d ∧ defs = S.transform s d := by
  induction s with
  | direct name loc =>
    intro fuel st st' defs h
    cases fuel with
    | zero => rw [evalImportSet] at h; cases h
    | succ fuel =>
      rw [evalImportSet] at h
      split at h
      · cases h
      · have hr : (Interp.getLibrary fuel { st with inProgress := name :: st.inProgress } name loc).1 = .ok defs :=
          congrArg Prod.fst h
        have hs := congrArg Prod.snd h
        simp only at hs
        have := getLibrary_ok_cached (fuel := fuel) (st := { st with inProgress := name :: st.inProgress })
          (name := name) (loc := loc) (defs := defs) (st' := _) (Prod.ext hr rfl)
        exact ⟨defs, by rw [← hs]; exact this, rfl⟩
  | only sub ids ih =>
    intro fuel st st' defs h
    cases fuel with
    | zero => rw [evalImportSet] at h; cases h
    | succ fuel =>
      rw [evalImportSet] at h
      split at h <;> rename_i he <;> cases h
      obtain ⟨d, h1, h2⟩ := ih he
      exact ⟨d, h1, by simp [S.transform, h2]⟩
  | except sub ids ih =>
    intro fuel st st' defs h
    cases fuel with
    | zero => rw [evalImportSet] at h; cases h
    | succ fuel =>
      rw [evalImportSet] at h
      split at h <;> rename_i he <;> cases h
      obtain ⟨d, h1, h2⟩ := ih he
      exact ⟨d, h1, by simp [S.transform, h2]⟩
  | «prefix» sub p ih =>
    intro fuel st st' defs h
    cases fuel with
    | zero => rw [evalImportSet] at h; cases h
    | succ fuel =>
      rw [evalImportSet] at h
      split at h <;> rename_i he <;> cases h
      obtain ⟨d, h1, h2⟩ := ih he
      exact ⟨d, h1, by simp [S.transform, h2]⟩
  | rename sub pairs ih =>
    intro fuel st st' defs h
    cases fuel with
    | zero => rw [evalImportSet] at h; cases h
    | succ fuel =>
      rw [evalImportSet] at h
      split at h <;> rename_i he <;> cases h
      obtain ⟨d, h1, h2⟩ := ih he
      refine ⟨d, h1, ?_⟩
      simp only [S.transform, h2, S.renameTarget]
      apply List.map_congr_left
      intro b _
      cases pairs.reverse.lookup b.1 <;> rfl

/-! ## after the first import of a definition -/

theorem importSets_after_first {k : Nat} {st st1 st' : State} {s : ImportSet} {more : List ImportSet}
    {acc defs : List (String × Value)} {r}
    (h : evalImportSets (k + 1) st (s :: more) acc = (r, st'))
    (h1 : evalImportSet k st s = (.ok defs, st1)) : Inv (fun _ _ => True) st1 st' := by
  rw [evalImportSets_cons_eq, h1] at h
  simp only at h
  split at h
  · cases h; exact Inv.refl storeRel_true _
  · exact (invAt storeRel_true k).importSets h

theorem import_after_first {k : Nat} {st st1 st' : State} {s : ImportSet} {more : List ImportSet} {ρ : Nat}
    {defs : List (String × Value)} {r}
    (h : evalImport (k + 2) st (s :: more) ρ = (r, st'))
    (h1 : evalImportSet k st s = (.ok defs, st1)) : Inv (fun _ _ => True) st1 st' := by
  rw [evalImport] at h
  split at h <;> rename_i he <;> cases h
  · exact importSets_after_first he h1
  · exact Inv.trans storeRel_true (importSets_after_first he h1) (Inv.store_step _ trivial)

theorem libraryDef_after_first {k : Nat} {st st1 st' : State} {s : ImportSet} {more : List ImportSet}
    {rest : List LibDecl} {defs : List (String × Value)} {r}
    (h : evalLibraryDef (k + 4) st (.importDecl (s :: more) :: rest) = (r, st'))
    (h1 : evalImportSet k { st with store := (st.store.newFrame none).2 } s = (.ok defs, st1)) :
    Inv (fun _ _ => True) st1 st' := by
  rw [evalLibraryDef_succ_eq] at h
  have key : ∀ rr ss, evalLibDecls (k + 3) { st with store := (st.store.newFrame none).2 } st.store.frames.size
      (.importDecl (s :: more) :: rest) [] = (rr, ss) → Inv (fun _ _ => True) st1 ss := by
    intro rr ss hd
    rw [evalLibDecls] at hd
    split at hd <;> rename_i he
    · cases hd; exact import_after_first he h1
    · exact Inv.trans storeRel_true (import_after_first he h1) ((invAt storeRel_true _).libDecls hd)
  split at h <;> rename_i he <;> cases h <;> exact key _ _ he

theorem findFactory_of_factoryFor {st : State} {n : LibName} {loc : Loc} {f : Factory}
    (hf : factoryFor st n = some f) : (findFactory st n loc).1 = .ok f := by
  unfold factoryFor at hf
  unfold findFactory
  cases h1 : libLookup st.factories n with
  | some f' => rw [h1] at hf; cases hf; rfl
  | none =>
    rw [h1] at hf
    simp only at hf ⊢
    cases h2 : st.files.lookup (fileKey st.dir (libPath n)) with
    | none => rw [h2] at hf; cases hf
    | some fe =>
      rw [h2] at hf
      cases fe with
      | unreadable => cases hf
      | text t =>
        simp only at hf ⊢
        cases h3 : factoryOfText n t with
        | error e => rw [h3] at hf; cases hf
        | ok f' => rw [h3] at hf; cases hf; rfl

theorem getLibrary_via_findFactory {k : Nat} {st : State} {n : LibName} {loc : Loc} {f : Factory}
    (hi : libLookup st.instances n = none) (hf : factoryFor st n = some f) :
    Interp.getLibrary (k + 1) st n loc = cacheInstance n (newLibrary k (findFactory st n loc).2 f) := by
  have h := findFactory_of_factoryFor (loc := loc) hf
  rw [getLibrary_succ_eq, hi]
  simp only
  generalize findFactory st n loc = ff at h
  obtain ⟨r, s⟩ := ff
  simp only at h
  subst h
  rfl

end Interp
end Ruschm

/-
Specification vocabulary for property C07 (no panic, the interpreter stays usable).

* `NoPanic r`      : the outcome `r` of a stage is not the model's rendering of a Rust panic;
* `Prim.ratOk`, `Token.ratOk`, `Datum.ratOk`, `Macro.Tmpl.ratOk`, `Macro.Rules.ratOk`,
  `Xform.SynEnv.RatOK` : no rational literal `n/0` anywhere (the lexer rejects `n/0`, so every
  datum the reader produces and every template built from read data satisfies it);
* `Expr.ok`, `Lambda.ok`, `Def.ok`, `Statement.ok`, `LibDecl.ok` : what the evaluator needs of the
  code it runs — every `lambda` (recursively, through internal definitions and nested lambda
  expressions) has a non-empty body, and every literal (primitive, quoted datum, vector literal)
  is free of `n/0`;
* `Value.Safe`     : numbers have a positive denominator, closures carry `ok` code (recursively
  through pairs);
* `Store.Safe`     : `Store.WF` (every id mentioned is allocated) and every stored value `Safe`;
* `Interp.Safe`    : the store is safe, the root frame exists, cached library instances and native
  factories hold safe allocated values, AST factories hold `ok` declarations, and the syntax
  environment holds `n/0`-free templates.
-/
import RuschmModel.Interp
import RuschmSpec.Store
import RuschmSpec.Num

namespace Ruschm

/-- the outcome is not a panic (`Err.panic site`); running out of fuel is a different outcome -/
def NoPanic {α : Type} (r : Except SErr α) : Prop := ∀ s l, r ≠ .error (.panic s, l)

/-- the same for unlocated errors (numeric operations, `evalPrim`, `spreadApply`) -/
def NoPanicE {α : Type} (r : Except Err α) : Prop := ∀ s, r ≠ .error (.panic s)

/-- an error that is not a panic -/
def SErr.NP (e : SErr) : Prop := ∀ s, e.1 ≠ .panic s

/-- the outcome of the lexer as the reader surfaces it (`Read.advance`): the tokens, or the
`SyntaxError` located where the lexer stopped -/
def lexOutcome (cs : List Char) : Except SErr (List LToken) :=
  match Lex.all cs with
  | (ts, none) => .ok ts
  | (_, some p) => .error (.syntax, some p)

/-- the outcome of reading a whole text: the data, or the error that stopped the reader -/
def readOutcome (cs : List Char) : Except SErr (List Datum) :=
  match Read.all cs with
  | (ds, none) => .ok ds
  | (_, some e) => .error e

/-! ## no rational literal with denominator 0 -/

/-- not a rational literal `n/0` -/
def Prim.ratOk : Prim → Bool
  | .rat _ d => d != 0
  | _ => true

def Token.ratOk : Token → Bool
  | .prim p => p.ratOk
  | _ => true

mutual
/-- no `n/0` anywhere in the datum -/
def Datum.ratOk : Datum → Bool
  | .prim p _ => p.ratOk
  | .sym _ _ => true
  | .pair a d _ => a.ratOk && d.ratOk
  | .nil _ => true
  | .vec xs _ => Datum.ratOkList xs
def Datum.ratOkList : List Datum → Bool
  | [] => true
  | x :: xs => x.ratOk && Datum.ratOkList xs
end

namespace Macro

mutual
/-- no `n/0` anywhere in the template -/
def Tmpl.ratOk : Tmpl → Bool
  | .list es => Tmpl.ratOkElems es
  | .vec es => Tmpl.ratOkElems es
  | .ident _ => true
  | .prim p => p.ratOk
def Tmpl.ratOkElems : List (Tmpl × Bool) → Bool
  | [] => true
  | (t, _) :: rest => t.ratOk && Tmpl.ratOkElems rest
end

/-- every template of the transformer is free of `n/0` -/
def Rules.RatOK (r : Rules) : Prop := ∀ pt ∈ r.rules, pt.2.ratOk = true

/-- every datum in the substitution table is free of `n/0` -/
def Subst.RatOK (σ : Subst) : Prop :=
  ∀ e ∈ σ, e.2.1.ratOk = true ∧ ∀ d ∈ e.2.2, d.ratOk = true

end Macro

/-- every transformer of the syntax environment is free of `n/0` -/
def Xform.SynEnv.RatOK (env : Xform.SynEnv) : Prop :=
  ∀ scope ∈ env, ∀ kr ∈ scope, kr.2.RatOK

/-! ## code the evaluator can run -/

mutual
/-- literals are free of `n/0`; every lambda nested in the expression has `ok` code -/
def Expr.ok : Expr → Bool
  | .sym _ _ => true
  | .prim p _ => p.ratOk
  | .assign _ e _ => e.ok
  | .lambda l _ => l.ok
  | .call f as _ => f.ok && Expr.okList as
  | .cond t c a _ =>
    t.ok && c.ok && (match a with | none => true | some x => x.ok)
  | .quote d _ => d.ratOk
  | .datum d _ => d.ratOk
def Expr.okList : List Expr → Bool
  | [] => true
  | x :: xs => x.ok && Expr.okList xs
/-- a non-empty body (`apply_scheme_procedure` has `unreachable!` for an empty one), `ok`
internal definitions and `ok` body expressions -/
def Lambda.ok : Lambda → Bool
  | .mk _ defs body => Def.okList defs && Expr.okList body && !body.isEmpty
def Def.ok : Def → Bool
  | .mk _ e _ => e.ok
def Def.okList : List Def → Bool
  | [] => true
  | x :: xs => x.ok && Def.okList xs
end

mutual
def Statement.ok : Statement → Bool
  | .importDecl _ _ => true
  | .definition d => d.ok
  | .syntaxDef _ _ _ => true
  | .expr e => e.ok
  | .libraryDef _ decls _ => LibDecl.okList decls
def LibDecl.ok : LibDecl → Bool
  | .importDecl _ => true
  | .export _ => true
  | .begin_ body => Statement.okList body
def LibDecl.okList : List LibDecl → Bool
  | [] => true
  | x :: xs => x.ok && LibDecl.okList xs
def Statement.okList : List Statement → Bool
  | [] => true
  | x :: xs => x.ok && Statement.okList xs
end

/-! ## values, stores, interpreter states -/

/-- numbers have a positive denominator, closures carry `ok` code -/
def Value.Safe : Value → Prop
  | .num n => n.PosDen
  | .closure lam _ => lam.ok = true
  | .pair a d => a.Safe ∧ d.Safe
  | _ => True

/-- every value stored in a frame or in a vector cell is `Safe` -/
structure Store.ValsSafe (σ : Store) : Prop where
  frame_vals : ∀ (i : Nat) (f : Frame), σ.frames[i]? = some f → ∀ kv ∈ f.defs, kv.2.Safe
  vec_vals : ∀ (i : Nat) (c : VecCell), σ.vecs[i]? = some c → ∀ v ∈ c.items, v.Safe

/-- the store invariant of C07: well-formed (every id allocated) and every stored value safe -/
structure Store.Safe (σ : Store) : Prop where
  wf : σ.WF
  vals : σ.ValsSafe

namespace Eval

/-- a value that is safe and whose ids are allocated in `σ` -/
def VGood (σ : Store) (v : Value) : Prop := v.Safe ∧ σ.AllocIn v
def VGoodAll (σ : Store) (vs : List Value) : Prop := ∀ v ∈ vs, VGood σ v
/-- a returned value is good; a pending tail call carries `ok` code and an allocated environment -/
def TGood (σ : Store) : TailRes → Prop
  | .value v => VGood σ v
  | .tailCall f args env => f.ok = true ∧ Expr.okList args = true ∧ env < σ.frames.size

/-- the outcome of an evaluator step: a safe store, no panic, a good result -/
structure Post {α} (σ' : Store) (r : Except SErr α) (Q : α → Prop) : Prop where
  store : σ'.Safe
  np : ∀ er, r = .error er → er.NP
  val : ∀ a, r = .ok a → Q a

/-- The safety invariant of the evaluator, for all eight functions of its mutual block at one
amount of fuel: from a safe store, on `ok` code, with good arguments and a procedure in operator
position (`procArity p ≠ none`: every caller tests it), and — for `applyScheme` — an argument
count that passed the arity check, the outcome is `Post`: safe store, no panic, good result. -/
structure SafeAt (fuel : Nat) : Prop where
  expr : ∀ σ ρ e r σ', evalExpr fuel σ ρ e = (r, σ') → σ.Safe → ρ < σ.frames.size → e.ok = true →
    Post σ' r (VGood σ')
  args : ∀ σ ρ es r σ', evalArgs fuel σ ρ es = (r, σ') → σ.Safe → ρ < σ.frames.size → Expr.okList es = true →
    Post σ' r (VGoodAll σ')
  proc : ∀ σ p as env r σ', applyProcedure fuel σ p as env = (r, σ') → σ.Safe → VGood σ p → VGoodAll σ as →
    (procArity p).isSome = true → Post σ' r (VGood σ')
  loop : ∀ σ p as env r σ', applyLoop fuel σ p as env = (r, σ') → σ.Safe → VGood σ p → VGoodAll σ as →
    (procArity p).isSome = true → Post σ' r (VGood σ')
  scheme : ∀ σ lam cenv as r σ', applyScheme fuel σ lam cenv as = (r, σ') → σ.Safe → cenv < σ.frames.size →
    lam.ok = true → VGoodAll σ as → arityOk lam.formals.fixed.length lam.formals.rest.isSome as.length = true →
    Post σ' r (TGood σ')
  defs : ∀ σ ρ ds r σ', evalDefs fuel σ ρ ds = (r, σ') → σ.Safe → ρ < σ.frames.size → Def.okList ds = true →
    Post σ' r (fun _ => True)
  body : ∀ σ ρ es r σ', evalBody fuel σ ρ es = (r, σ') → σ.Safe → ρ < σ.frames.size → Expr.okList es = true →
    es.isEmpty = false → Post σ' r (TGood σ')
  tail : ∀ σ ρ e r σ', evalTail fuel σ ρ e = (r, σ') → σ.Safe → ρ < σ.frames.size → e.ok = true →
    Post σ' r (TGood σ')

end Eval

namespace Interp

/-- bindings (of a library instance or a native factory) hold safe values allocated in `σ` -/
def BindingsSafe (σ : Store) (defs : List (String × Value)) : Prop :=
  ∀ kv ∈ defs, kv.2.Safe ∧ σ.AllocIn kv.2

def Factory.Safe (σ : Store) : Factory → Prop
  | .native defs => BindingsSafe σ defs
  | .ast decls => LibDecl.okList decls = true

/-- the interpreter invariant of C07 -/
structure Safe (st : State) : Prop where
  store : st.store.Safe
  env : st.env < st.store.frames.size
  instances : ∀ nd ∈ st.instances, BindingsSafe st.store nd.2
  factories : ∀ nf ∈ st.factories, nf.2.Safe st.store
  syn : Xform.SynEnv.RatOK st.syn

/-- a session: texts evaluated one after another on the same interpreter, each with its own fuel;
the outcomes in order and the final state -/
def run (st : State) : List (Nat × List Char) → List (Except SErr (Option Value)) × State
  | [] => ([], st)
  | (fuel, text) :: rest =>
    let (r, st') := evalText fuel st text
    let (rs, st'') := run st' rest
    (r :: rs, st'')

end Interp

/-- The panic sites of the model: every `Err.panic` label that occurs in `RuschmModel/*.lean`
(`"base.rs unwrap: "` stands for the family `"base.rs unwrap: " ++ name`, one per native procedure,
plus `sub/div` and `max/min`). -/
def panicSites : List String :=
  ["exact_ratio: zero denominator", "floor: zero denominator", "ceiling: zero denominator",
   "sub: no argument", "div: no argument", "max: no argument", "min: no argument",
   "base.rs unwrap: ", "applyPure: apply", "dangling vector",
   "apply_scheme_procedure: arg_iter.next().unwrap()", "spread_apply_arguments: unwrap",
   "apply_procedure: not a procedure", "apply_scheme_procedure: empty body",
   "macros.rs get_mut unwrap"]

/-- no evaluation of any text with any fuel from a safe interpreter state ends in a panic at
`site` (or at any site that `site` is a prefix of) -/
def UnreachableFromSafe (site : String) : Prop :=
  ∀ (st : Interp.State) (fuel : Nat) (text : List Char) (s : String) (l : Loc), Interp.Safe st →
    site.isPrefixOf s = true → (Interp.evalText fuel st text).1 ≠ .error (.panic s, l)

end Ruschm

#!/usr/bin/env python3
"""tools/seedtest.py confirm <dir>     re-confirm a seeded change in a scratch worktree
   tools/seedtest.py detect <dir> Cnn [Cmm...]   apply it to /repo, run the checks, undo it
<dir> holds patch.diff, a demonstration (*.rs integration test, or demo.sh) and meta.json."""
import glob, json, os, shutil, subprocess, sys

def sh(cmd, cwd=None, timeout=3600):
    p = subprocess.run(cmd, cwd=cwd, shell=isinstance(cmd, str), stdout=subprocess.PIPE, stderr=subprocess.STDOUT, text=True, timeout=timeout)
    return p.returncode, p.stdout

def suite(wt, extra=""):
    rc, out = sh("CARGO_NET_OFFLINE=true cargo test --offline --target-dir %s/target %s 2>&1" % (wt, extra), cwd=wt)
    lines = [l for l in out.splitlines() if l.startswith("test result") or "FAILED" in l or "failed" in l or l.startswith("error")]
    return rc, lines

def confirm(d):
    d = os.path.abspath(d)
    name = os.path.basename(d.rstrip("/"))
    wt = "/tmp/confirm-" + name
    sh(["git", "-C", "/repo", "worktree", "remove", "--force", wt]); shutil.rmtree(wt, ignore_errors=True)
    rc, out = sh(["git", "-C", "/repo", "worktree", "add", "--detach", wt, "HEAD"])
    res = {}
    try:
        demos = glob.glob(os.path.join(d, "*.rs"))
        for f in demos:
            shutil.copy(f, os.path.join(wt, "tests", os.path.basename(f)))
        for f in glob.glob(os.path.join(d, "*")):
            if not f.endswith((".rs", ".diff", ".json")):
                if os.path.isdir(f): shutil.copytree(f, os.path.join(wt, os.path.basename(f)), dirs_exist_ok=True)
                else: shutil.copy(f, wt)
        tests = " ".join("--test " + os.path.basename(f)[:-3] for f in demos)
        script = os.path.join(wt, "demo.sh")
        def demo():
            if demos:
                return suite(wt, tests)
            if os.path.exists(script):
                sh("CARGO_NET_OFFLINE=true cargo build --offline --target-dir %s/target 2>&1" % wt, cwd=wt)
                return sh("bash demo.sh %s/target/debug/ruschm" % wt, cwd=wt)
            return (None, ["no demo"])
        rc0, l0 = demo()
        res["demo_without_change"] = "pass" if rc0 == 0 else "FAIL"
        rc, out = sh(["git", "-C", wt, "apply", os.path.join(d, "patch.diff")])
        if rc != 0:
            rc, out = sh("patch -p1 -s --no-backup-if-mismatch -F3 < %s" % os.path.join(d, "patch.diff"), cwd=wt)
        res["patch_applies"] = rc == 0
        rc1, l1 = demo()
        res["demo_with_change"] = "fail" if rc1 != 0 else "PASS"
        # existing suite only (remove the demo tests)
        for f in demos:
            os.remove(os.path.join(wt, "tests", os.path.basename(f)))
        rc2, l2 = suite(wt)
        res["existing_suite_with_change"] = "pass" if rc2 == 0 else "FAIL"
        res["existing_suite_lines"] = l2[:8]
    finally:
        sh(["git", "-C", "/repo", "worktree", "remove", "--force", wt]); shutil.rmtree(wt, ignore_errors=True)
    res["confirmed"] = (res.get("demo_without_change") == "pass" and res.get("demo_with_change") == "fail"
                        and res.get("existing_suite_with_change") == "pass" and res.get("patch_applies"))
    print(json.dumps(res, indent=1))
    return res

def detect(d, props):
    d = os.path.abspath(d)
    rc, out = sh(["git", "-C", "/repo", "status", "--porcelain", "--", "src"])
    if out.strip():
        print("refusing: /repo/src has local changes"); return
    rc, out = sh(["git", "-C", "/repo", "apply", os.path.join(d, "patch.diff")])
    if rc != 0:
        # the tree has moved on since the change was written (a later fix: commit touched neighbouring lines): apply it as `patch`
        # does, by context with a little fuzz
        rc, out = sh("patch -p1 -s --no-backup-if-mismatch -F3 < %s" % os.path.join(d, "patch.diff"), cwd="/repo")
        if rc != 0:
            sh(["git", "-C", "/repo", "checkout", "--", "."])
            sh("find src -name '*.rej' -delete -o -name '*.orig' -delete", cwd="/repo")
            print(json.dumps({p: {"exit": None, "lines": [], "what": "patch does not apply to the current tree"} for p in props})); return
    res = {}
    try:
        for p in props:
            rc, out = sh(["./check", p], cwd="/verif")
            lines = [l for l in out.splitlines() if l.startswith("VIOLATION") or l.startswith("KNOWN-FINDING")]
            res[p] = {"exit": rc, "lines": lines[:4]}
            for l in lines:
                if l.startswith("VIOLATION") and "replay=" in l:
                    path = l.split("replay=")[1].split()[0]
                    try:
                        rp = json.load(open(path))
                        res[p]["what"] = rp.get("what") or rp.get("broken")
                        res[p]["replay_excerpt"] = {k: str(v)[:200] for k, v in rp.items() if k in ("form", "text", "program", "forms", "definition", "use", "declaration", "graph", "problem", "expected", "implementation", "errors")}
                    except Exception as e:
                        pass
                    break
    finally:
        sh(["git", "-C", "/repo", "checkout", "--", "."])
        # the generated constants were re-derived from the changed tree by the check: derive them from the restored tree again
        sh([sys.executable, os.path.join(os.path.dirname(os.path.abspath(__file__)), "sld2lean.py")])
    print(json.dumps(res, indent=1))
    return res

if __name__ == "__main__":
    if sys.argv[1] == "confirm":
        confirm(sys.argv[2])
    else:
        detect(sys.argv[2], sys.argv[3:])

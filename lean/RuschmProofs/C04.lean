/-
Property C04 — syntax-rules expansion selects the first matching rule and fills its template.

"A use of a syntax-rules macro is rewritten by the first rule, in textual order, whose pattern
matches the use: pattern variables and _ match any form, literal identifiers match only
themselves, literal data match only equal data, sub-lists and vectors match element-wise, and a
sub-pattern followed by an ellipsis matches a run of forms. The result is that rule's template
with every pattern variable replaced by what it matched and every ellipsis sub-template repeated
once per matched item, in order; a use that matches no rule is a syntax error, never a silent
mis-expansion."

Only property theorems live here (each is audited with `#print axioms`); the model is
`RuschmModel/Macro.lean`, the specification vocabulary (`Supported`, `specMatch`, `specInst`,
`specTransform`) is `RuschmSpec/Macro.lean`, helper lemmas are in
`RuschmProofs/Macro{Lemmas,Match,Subst}.lean`.
-/
import RuschmProofs.MacroFuel

namespace Ruschm.C04
open Ruschm Ruschm.Macro Ruschm.Macro.Ex

/-! ## 1. The first matching rule, in textual order (decision logic, no class hypothesis)

`Macro.fill fuel t σ loc` (in `MacroSubst.lean`) is what `transform` does with the template of the
rule that matched with table `σ`: if some sub-template followed by an ellipsis mentions no pattern
variable (`ellipsisOk σ t = false`) it is a syntax error (`UnexpectedTemplate`), else the template
is filled (`subst`). -/

/-- the rule `(p, t)` is the first whose pattern matches: every earlier rule fails (`ok false`),
`p` succeeds with table `σ` -/
def FirstMatch (fuel : Nat) (lits : List String) (rules : List (Pat × Tmpl)) (use : Datum)
    (t : Tmpl) (σ : Subst) : Prop :=
  ∃ pre p post, rules = pre ++ (p, t) :: post ∧
    (∀ r ∈ pre, ∃ σ', matchDatum fuel lits r.1 use [] = .ok (false, σ')) ∧
    matchDatum fuel lits p use [] = .ok (true, σ)

/-- no rule matches -/
def NoMatch (fuel : Nat) (lits : List String) (rules : List (Pat × Tmpl)) (use : Datum) : Prop :=
  ∀ r ∈ rules, ∃ σ', matchDatum fuel lits r.1 use [] = .ok (false, σ')

/-- A use is rewritten by the FIRST rule, in textual order, whose pattern matches it: the result
is that rule's template filled with the table of that match (after the ellipsis test). -/
theorem transform_first_match {fuel lits rules use t σ}
    (h : FirstMatch fuel lits rules use t σ) :
    transformRules fuel lits rules use = fill fuel t σ use.loc := by
  obtain ⟨pre, p, post, rfl, hpre, hp⟩ := h
  induction pre with
  | nil => rw [List.nil_append, transformRules_cons, hp]
  | cons r pre ih =>
    obtain ⟨σ', h1⟩ := hpre r (by simp)
    obtain ⟨q, u⟩ := r
    rw [List.cons_append, transformRules_cons, h1]
    exact ih (fun r hr => hpre r (by simp [hr]))

example : FirstMatch 20 [] [(plist [.prim (.int 1)], .ident "one"), (plist [.ident "x"], .ident "x"),
      (plist [.underscore], .ident "other")] (lst [num 2]) (.ident "x") [("x", num 2, [])] ∧
    transformRules 20 [] [(plist [.prim (.int 1)], .ident "one"), (plist [.ident "x"], .ident "x"),
      (plist [.underscore], .ident "other")] (lst [num 2]) = .ok (num 2) :=
  ⟨⟨[_], _, [_], rfl, fun r hr => by cases List.mem_singleton.1 hr; exact ⟨_, rfl⟩, rfl⟩, rfl⟩

/-- When the first matching rule's template passes the ellipsis test, the result is `subst` of
that template (or the model's fuel error if the fuel is too small for the copy loop). -/
theorem transform_first_match_ok {fuel lits rules use t σ}
    (h : FirstMatch fuel lits rules use t σ) (he : ellipsisOk σ t = true) :
    transformRules fuel lits rules use =
      match subst fuel t σ use.loc with
      | some d => .ok d
      | none => .error (.fuel, none) := by
  rw [transform_first_match h, fill, he]; rfl

example : ellipsisOk [("x", num 2, [num 3])] (.list [(.ident "x", true)]) = true ∧
    transformRules 20 [] [(plist [.ident "x", .ellipsis], .list [(.ident "x", true)])]
      (lst [num 2, num 3]) = .ok (lst [num 2, num 3]) := ⟨rfl, rfl⟩

/-- **An ellipsis after a sub-template that mentions no pattern variable is a syntax error**
(`UnexpectedTemplate`), not an endless repetition: if the first matching rule's template fails
the ellipsis test, the expansion is `.error (.syntax, none)`. -/
theorem ellipsis_without_variable_is_error {fuel lits rules use t σ}
    (h : FirstMatch fuel lits rules use t σ) (he : ellipsisOk σ t = false) :
    transformRules fuel lits rules use = .error (.syntax, none) := by
  rw [transform_first_match h, fill, he]; rfl

example : ellipsisOk [("x", num 1, [])] (.list [(.prim (.int 5), true)]) = false ∧
    transformRules 20 [] [(plist [.ident "x"], .list [(.prim (.int 5), true)])] (lst [num 1]) =
      .error (.syntax, none) := ⟨rfl, rfl⟩

/-- A use that matches no rule is a syntax error (`MacroMissMatch`). -/
theorem transform_no_match {fuel lits rules use} (h : NoMatch fuel lits rules use) :
    transformRules fuel lits rules use = .error (.syntax, none) := by
  induction rules with
  | nil => rfl
  | cons r rules ih =>
    obtain ⟨σ', h1⟩ := h r (by simp)
    obtain ⟨q, u⟩ := r
    rw [transformRules_cons, h1]
    exact ih (fun r hr => h r (by simp [hr]))

example : NoMatch 20 [] [(plist [.prim (.int 1)], .ident "one")] (lst [num 2]) ∧
    transformRules 20 [] [(plist [.prim (.int 1)], .ident "one")] (lst [num 2]) =
      .error (.syntax, none) :=
  ⟨fun r hr => by cases List.mem_singleton.1 hr; exact ⟨_, rfl⟩, rfl⟩

/-- the outcome of `transformRules` is that of the first rule whose match attempt is not
`ok false`: an error of the matcher, or `fill` of the first matching rule, or — when all fail —
the syntax error -/
theorem transform_cases (fuel : Nat) (lits : List String) (rules : List (Pat × Tmpl))
    (use : Datum) :
    (∃ t σ, FirstMatch fuel lits rules use t σ ∧
      transformRules fuel lits rules use = fill fuel t σ use.loc) ∨
    (NoMatch fuel lits rules use ∧ transformRules fuel lits rules use = .error (.syntax, none)) ∨
    (∃ r ∈ rules, ∃ e, matchDatum fuel lits r.1 use [] = .error e ∧
      transformRules fuel lits rules use = .error e) := by
  induction rules with
  | nil => exact .inr (.inl ⟨fun _ h => (by cases h), rfl⟩)
  | cons r rules ih =>
    obtain ⟨q, u⟩ := r
    rw [transformRules_cons]
    cases hm : matchDatum fuel lits q use [] with
    | error e => exact .inr (.inr ⟨(q, u), by simp, e, hm, rfl⟩)
    | ok bσ =>
      obtain ⟨b, σ⟩ := bσ
      cases b with
      | true => exact .inl ⟨u, σ, ⟨[], q, rules, rfl, by simp, hm⟩, rfl⟩
      | false =>
        simp only
        rcases ih with ⟨t, σ', ⟨pre, p, post, hr, hpre, hp⟩, h2⟩ | ⟨h1, h2⟩ | ⟨r, hr, e, h1, h2⟩
        · refine .inl ⟨t, σ', ⟨(q, u) :: pre, p, post, by simp [hr], ?_, hp⟩, h2⟩
          intro r hr'
          simp only [List.mem_cons] at hr'
          rcases hr' with rfl | hr'
          · exact ⟨σ, hm⟩
          · exact hpre r hr'
        · refine .inr (.inl ⟨?_, h2⟩)
          intro r hr
          simp only [List.mem_cons] at hr
          rcases hr with rfl | hr
          · exact ⟨σ, hm⟩
          · exact h1 r hr
        · exact .inr (.inr ⟨r, by simp [hr], e, h1, h2⟩)

example : ∃ e, matchDatum 20 ["k"] (plist [.ident "k", .ellipsis]) (lst [sy "k", sy "k"]) [] = .error e :=
  ⟨_, rfl⟩

/-- Never a value unless a rule matched: an `ok` result is the filled template of the first
matching rule, which passed the ellipsis test. -/
theorem transform_ok_inv {fuel lits rules use d}
    (h : transformRules fuel lits rules use = .ok d) :
    ∃ t σ, FirstMatch fuel lits rules use t σ ∧ ellipsisOk σ t = true ∧
      subst fuel t σ use.loc = some d := by
  rcases transform_cases fuel lits rules use with ⟨t, σ, hfm, h2⟩ | ⟨-, h2⟩ | ⟨r, -, e, -, h2⟩
  · refine ⟨t, σ, hfm, ?_⟩
    rw [h2, fill] at h
    cases he : ellipsisOk σ t
    · simp [he] at h
    · simp only [he, if_true] at h
      cases hs : subst fuel t σ use.loc with
      | none => simp [hs] at h
      | some d' => simp only [hs, Except.ok.injEq] at h; subst h; exact ⟨rfl, rfl⟩
  · rw [h2] at h; cases h
  · rw [h2] at h; cases h

example : transformRules 20 [] [(plist [.ident "x"], .ident "x")] (lst [num 2]) = .ok (num 2) := rfl

/-- When every match attempt terminates normally (as it does for supported patterns with enough
fuel), the syntax error arises if AND ONLY IF no rule matches or the first matching rule's
template fails the ellipsis test. -/
theorem transform_syntax_error_iff {fuel lits rules use}
    (hok : ∀ r ∈ rules, ∃ b σ, matchDatum fuel lits r.1 use [] = .ok (b, σ)) :
    (∃ l, transformRules fuel lits rules use = .error (.syntax, l)) ↔
      (NoMatch fuel lits rules use ∨
        ∃ t σ, FirstMatch fuel lits rules use t σ ∧ ellipsisOk σ t = false) := by
  constructor
  · intro ⟨l, h⟩
    rcases transform_cases fuel lits rules use with ⟨t, σ, hfm, h2⟩ | ⟨h1, -⟩ | ⟨r, hr, e, h1, -⟩
    · refine .inr ⟨t, σ, hfm, ?_⟩
      rw [h2, fill] at h
      cases he : ellipsisOk σ t
      · rfl
      · simp only [he, if_true] at h
        cases hs : subst fuel t σ use.loc <;> simp [hs] at h
    · exact .inl h1
    · obtain ⟨b, σ, h'⟩ := hok r hr
      rw [h'] at h1; cases h1
  · rintro (h | ⟨t, σ, hfm, he⟩)
    · exact ⟨none, transform_no_match h⟩
    · exact ⟨none, ellipsis_without_variable_is_error hfm he⟩

example : ¬ NoMatch 20 [] [(plist [.ident "x"], .ident "x")] (lst [num 2]) := by
  intro h; obtain ⟨σ, hσ⟩ := h _ (List.mem_singleton.2 rfl); cases hσ

/-- **The expander is total** — for ALL rule sets, no class hypothesis: with enough fuel for
matching (`p.size + use.size` for every pattern) and more fuel than the longest sequence of
further matches in the table of any matching rule, `transformRules` never reports the model's
fuel error: since the ellipsis test, every copy loop that is entered ends. -/
theorem transform_terminates {fuel lits rules use}
    (hm : ∀ r ∈ rules, r.1.size + use.size ≤ fuel)
    (hs : ∀ r ∈ rules, ∀ σ, matchDatum fuel lits r.1 use [] = .ok (true, σ) →
      ∀ e ∈ σ, e.2.2.length < fuel) :
    ∀ l, transformRules fuel lits rules use ≠ .error (.fuel, l) := by
  intro l h
  rcases transform_cases fuel lits rules use with ⟨t, σ, hfm, h2⟩ | ⟨-, h2⟩ | ⟨r, hr, e, h1, h2⟩
  · obtain ⟨pre, p, post, hrules, -, hp⟩ := hfm
    have hmem : (p, t) ∈ rules := by rw [hrules]; simp
    rw [h2, fill] at h
    cases he : ellipsisOk σ t
    · simp [he] at h
    · have := (subst_isSome σ use.loc fuel (hs (p, t) hmem σ hp)).1 t he
      cases hsb : subst fuel t σ use.loc with
      | none => rw [hsb] at this; cases this
      | some d => simp [he, hsb] at h
  · rw [h2] at h; cases h
  · rw [h2] at h; cases h
    exact matchDatum_fuel (hm r hr) h1

example : transformRules 30 [] [(plist [.ident "a", .ellipsis, .ident "z"],
      .list [(.list [(.ident "a", true)], true), (.prim (.int 5), false)])]
    (lst [num 1, num 2, num 3]) =
    .ok (lst [lst [num 1, num 2, num 3], lst [num 2], lst [num 3], num 5]) := rfl

/-! ## 5. The matcher terminates -/

/-- With `p.size + d.size` units of fuel matching never runs out of fuel — for ALL patterns, data,
literal lists and tables. -/
theorem match_terminates {lits fuel p d σ l} (h : p.size + d.size ≤ fuel) :
    matchDatum fuel lits p d σ ≠ .error (.fuel, l) :=
  matchDatum_fuel h

example : matchDatum 8 [] (plist [.ident "a", .ellipsis]) (lst [num 1]) [] =
    .ok (true, [("a", num 1, [])]) ∧ (plist [.ident "a", .ellipsis]).size + (lst [num 1]).size = 8 :=
  ⟨rfl, by decide⟩

/-- The model's `matchFuel d` (which looks at the datum only) suffices for every pattern of size
`≤ 3 * d.size + 64`, in particular for every bundled rule. -/
theorem match_terminates_matchFuel {lits fuel p d σ l} (hp : p.size ≤ 3 * d.size + 64)
    (h : matchFuel d ≤ fuel) : matchDatum fuel lits p d σ ≠ .error (.fuel, l) :=
  matchDatum_fuel (by unfold matchBound; unfold matchFuel at h; omega)

example : matchFuel (lst [num 1]) = 76 ∧ (plist [.ident "a", .ellipsis]).size = 5 :=
  ⟨by decide, by decide⟩

/-- For SUPPORTED patterns (shape only; no condition on the variables) the fuel need depends on the
datum only: the model's own `matchFuel d` suffices whatever the size of the pattern. -/
theorem match_terminates_supported {lits fuel p d σ l} (hok : Pat.ok lits p = true)
    (h : matchFuel d ≤ fuel) : matchDatum fuel lits p d σ ≠ .error (.fuel, l) :=
  matchDatum_fuel_supported hok (by unfold matchFuel at h; omega)

example : Pat.ok [] (plist [plist [.ident "a", .ident "b"], .ellipsis]) = true ∧
    matchDatum (matchFuel (lst [lst [num 1, num 2]])) [] (plist [plist [.ident "a", .ident "b"], .ellipsis])
      (lst [lst [num 1, num 2]]) [] = .ok (true, [("a", num 1, []), ("b", num 2, [])]) := ⟨rfl, rfl⟩

/-- full-strength statement with the model's own `matchFuel`: FALSE -/
def match_terminates_full : Prop :=
  ∀ (lits : List String) (fuel : Nat) (p : Pat) (d : Datum) (σ : Subst) (l : Loc),
    matchFuel d ≤ fuel → matchDatum fuel lits p d σ ≠ .error (.fuel, l)

/-- `matchFuel d` does not bound the need of every pattern: each `...` that is stepped over at
the end of the data costs a unit. Witness: `(a ... ... …)` with 80 ellipses against `(1)`. (The
Rust code has no fuel; this only says that the model's fuel has to grow with the pattern.) -/
theorem match_terminates_full_fails : ¬ match_terminates_full := fun h =>
  h [] (matchFuel (lst [num 1])) (plist (.ident "a" :: List.replicate 80 .ellipsis)) (lst [num 1])
    [] none (Nat.le_refl _) rfl

/-! ## 4. The `get_mut(var).unwrap()` of the ellipsis branch cannot fail -/

/-- `matchDatum` never panics — for ALL patterns (any ellipsis position and depth, dotted
patterns, repeated variables), data, literal lists, tables and fuel: the variables pushed by the
ellipsis branch are those of a sub-pattern that was matched successfully against the previous
item into the same table, and the table never loses a key (failed attempts are not undone, but
they only add keys). -/
theorem match_no_panic {lits fuel p d σ s l} :
    matchDatum fuel lits p d σ ≠ .error (.panic s, l) :=
  matchDatum_no_panic

/-- the same for `matchStream`, entered as `matchDatum` enters it (no pending sub-pattern) -/
theorem matchStream_no_panic {lits fuel ps ds σ s l} :
    matchStream fuel lits ps ds none σ ≠ .error (.panic s, l) :=
  Macro.matchStream_no_panic (fun _ h => by cases h)

example : matchDatum 30 [] (plist [.ident "a", .ellipsis, .ident "z"]) (lst [num 1, num 2, num 3]) [] =
    .ok (true, [("a", num 1, [num 2, num 3]), ("z", num 3, [])]) := rfl

/-! ## 2. The matcher is the declarative matcher on the supported class -/

/-- For `Supported` patterns, ALL literal lists and ALL data, with fuel `≥ p.size + d.size`: the
model matcher (started, as `transform` starts it, with the empty table) succeeds exactly when the
declarative matcher does, and then its table represents the same bindings
(`var ↦ (first, further)` is the item sequence `first :: further`). -/
theorem match_eq_spec {lits fuel p d} (hs : Supported lits p = true)
    (hf : p.size + d.size ≤ fuel) :
    (∀ β, specMatch lits p d = some β →
      matchDatum fuel lits p d [] = .ok (true, β.toSubst) ∧ β.toSubst.toBindings = β) ∧
    (specMatch lits p d = none → ∃ σ', matchDatum fuel lits p d [] = .ok (false, σ')) := by
  have := matchDatum_eq_spec (n := fuel) (d := d) hs hf
  constructor
  · intro β hβ
    rw [hβ] at this
    exact ⟨this, Bindings.toBindings_toSubst (specMatch_nonEmpty hβ)⟩
  · intro h; rw [h] at this; exact this

example : Supported [] (plist [.ident "a", plist [.ident "b", .ellipsis]]) = true ∧
    specMatch [] (plist [.ident "a", plist [.ident "b", .ellipsis]]) (lst [num 1, lst [num 2, num 3]]) =
      some [("a", [num 1]), ("b", [num 2, num 3])] := ⟨rfl, rfl⟩

/-- the same with the success flag and the represented bindings in one equation -/
theorem match_eq_spec' {lits fuel p d} (hs : Supported lits p = true)
    (hf : p.size + d.size ≤ fuel) :
    ∃ σ, matchDatum fuel lits p d [] = .ok ((specMatch lits p d).isSome, σ) ∧
      ∀ β, specMatch lits p d = some β → σ.toBindings = β := by
  obtain ⟨h1, h2⟩ := match_eq_spec (fuel := fuel) (d := d) hs hf
  cases h : specMatch lits p d with
  | some β => exact ⟨_, (h1 β h).1, fun β' hβ' => by cases hβ'; exact (h1 β h).2⟩
  | none => obtain ⟨σ', h'⟩ := h2 h; exact ⟨σ', h', fun β hβ => by cases hβ⟩

example : ∃ σ, matchDatum 20 [] (plist [.ident "a"]) (lst [num 1]) [] = .ok (true, σ) ∧
    σ.toBindings = [("a", [num 1])] := ⟨_, rfl, rfl⟩

/-- `match_eq_spec` with the model's own `matchFuel d` (what `transform` is run with) -/
theorem match_eq_spec_matchFuel {lits fuel p d} (hs : Supported lits p = true)
    (hf : matchFuel d ≤ fuel) :
    (∀ β, specMatch lits p d = some β →
      matchDatum fuel lits p d [] = .ok (true, β.toSubst) ∧ β.toSubst.toBindings = β) ∧
    (specMatch lits p d = none → ∃ σ', matchDatum fuel lits p d [] = .ok (false, σ')) := by
  have hok : Pat.ok lits p = true := by
    simp only [Supported, Bool.and_eq_true] at hs; exact hs.1
  have := matchDatum_eq_spec_of_no_fuel (n := fuel) (d := d) hs (match_terminates_supported hok hf)
  constructor
  · intro β hβ
    rw [hβ] at this
    exact ⟨this, Bindings.toBindings_toSubst (specMatch_nonEmpty hβ)⟩
  · intro h; rw [h] at this; exact this

example : Supported ["=>"] (plist [.ident "t", .ident "=>", .ident "r"]) = true ∧
    specMatch ["=>"] (plist [.ident "t", .ident "=>", .ident "r"]) (lst [num 1, sy "=>", sy "f"]) =
      some [("t", [num 1]), ("r", [sy "f"])] := ⟨rfl, rfl⟩

/-- full-strength statement (all patterns): FALSE -/
def match_eq_spec_full : Prop :=
  ∀ (lits : List String) (fuel : Nat) (p : Pat) (d : Datum), p.size + d.size ≤ fuel →
    ∃ σ, matchDatum fuel lits p d [] = .ok ((specMatch lits p d).isSome, σ)

/-- Outside the class the matcher mis-binds: the non-final ellipsis `(a ... z)` matches `(1 2 3)`
with `a ↦ 1 2 3` and `z ↦ 3` (R7RS: `a ↦ 1 2`, `z ↦ 3`; the declarative matcher of the class: no
match). -/
theorem match_eq_spec_full_fails : ¬ match_eq_spec_full := fun h => by
  obtain ⟨σ, hσ⟩ := h [] 30 (plist [.ident "a", .ellipsis, .ident "z"]) (lst [num 1, num 2, num 3])
    (by decide)
  cases hσ

/-- Why the class excludes a LITERAL identifier followed by an ellipsis: `(k ...)` with `k` a
literal does not match `(k)` and raises a syntax error (`UnexpectedPattern`) at USE time on
`(k k)` — where the declarative matcher (and R7RS) match. -/
theorem literal_before_ellipsis_out_of_class :
    Supported ["k"] (plist [.ident "k", .ellipsis]) = false ∧
    matchDatum 20 ["k"] (plist [.ident "k", .ellipsis]) (lst [sy "k", sy "k"]) [] =
      .error (.syntax, none) ∧
    matchDatum 20 ["k"] (plist [.ident "k", .ellipsis]) (lst [sy "k"]) [] = .ok (false, []) ∧
    specMatch ["k"] (plist [.ident "k", .ellipsis]) (lst [sy "k", sy "k"]) = some [] :=
  ⟨rfl, rfl, rfl, rfl⟩

/-- Documented limit (not a refutation of the class statement): an ellipsis stands for ONE OR
MORE items, so `(m)` does not match `(m a ...)` — R7RS says it does, with `a` bound to nothing. -/
theorem zero_item_ellipsis_no_match {fuel} (hf : 6 ≤ fuel) :
    specMatch [] (plist [.ident "a", .ellipsis]) (lst []) = none ∧
    ∃ σ', matchDatum fuel [] (plist [.ident "a", .ellipsis]) (lst []) [] = .ok (false, σ') :=
  ⟨rfl, (match_eq_spec (by rfl) (Nat.le_trans (by decide) hf)).2 rfl⟩

example : transformRules 20 [] [(plist [.ident "a", .ellipsis], .ident "a")] (lst []) =
    .error (.syntax, none) := rfl

/-! ### the named clauses of the property -/

/-- pattern variables match any form (and bind it) -/
theorem var_matches_anything {lits fuel v} (d : Datum) (hv : lits.contains v = false)
    (hf : 1 ≤ fuel) :
    matchDatum fuel lits (.ident v) d [] = .ok (true, [(v, d, [])]) ∧
    specMatch lits (.ident v) d = some [(v, [d])] := by
  obtain ⟨n, rfl⟩ : ∃ n, fuel = n + 1 := ⟨fuel - 1, by omega⟩
  exact ⟨matchDatum_var hv, by simp only [specMatch, hv, Bool.false_eq_true, if_false]⟩

example : matchDatum 1 ["else"] (.ident "x") (lst [num 1, sy "else"]) [] =
    .ok (true, [("x", lst [num 1, sy "else"], [])]) := rfl

/-- `_` matches any form (and binds nothing) -/
theorem underscore_matches_anything {lits fuel} (d : Datum) (σ : Subst) (hf : 1 ≤ fuel) :
    matchDatum fuel lits .underscore d σ = .ok (true, σ) ∧ specMatch lits .underscore d = some [] := by
  obtain ⟨n, rfl⟩ : ∃ n, fuel = n + 1 := ⟨fuel - 1, by omega⟩
  exact ⟨matchDatum_underscore, rfl⟩

example : matchDatum 1 [] .underscore (lst [num 1]) [] = .ok (true, []) := rfl

/-- a literal identifier matches only the same symbol (and binds nothing) -/
theorem literal_ident_matches_only_itself {lits fuel v} (d : Datum) (σ : Subst)
    (hv : lits.contains v = true) (hf : 1 ≤ fuel) :
    ∃ b, matchDatum fuel lits (.ident v) d σ = .ok (b, σ) ∧ (b = true ↔ ∃ l, d = .sym v l) ∧
      ((specMatch lits (.ident v) d).isSome = b) := by
  obtain ⟨n, rfl⟩ : ∃ n, fuel = n + 1 := ⟨fuel - 1, by omega⟩
  refine ⟨_, matchDatum_lit hv, ?_, ?_⟩
  · cases d <;> simp
  · cases d <;> simp only [specMatch, hv, if_true, Option.isSome_none]
    rename_i s l
    by_cases hs : s = v <;> simp [hs]

example : matchDatum 1 ["else"] (.ident "else") (sy "else") [] = .ok (true, []) ∧
    matchDatum 1 ["else"] (.ident "else") (sy "other") [] = .ok (false, []) ∧
    matchDatum 1 ["else"] (.ident "else") (num 1) [] = .ok (false, []) := ⟨rfl, rfl, rfl⟩

/-- a literal datum matches only an equal datum (and binds nothing) -/
theorem literal_datum_matches_only_equal {lits fuel a} (d : Datum) (σ : Subst) (hf : 1 ≤ fuel) :
    ∃ b, matchDatum fuel lits (.prim a) d σ = .ok (b, σ) ∧ (b = true ↔ ∃ l, d = .prim a l) ∧
      ((specMatch lits (.prim a) d).isSome = b) := by
  obtain ⟨n, rfl⟩ : ∃ n, fuel = n + 1 := ⟨fuel - 1, by omega⟩
  refine ⟨_, matchDatum_prim, ?_, ?_⟩
  · cases d <;> simp
    exact ⟨fun h => h.symm, fun h => h.symm⟩
  · cases d <;> simp only [specMatch, Option.isSome_none]
    rename_i b l
    by_cases hs : a = b <;> simp [hs]

example : matchDatum 1 [] (.prim (.int 1)) (num 1) [] = .ok (true, []) ∧
    matchDatum 1 [] (.prim (.int 1)) (num 2) [] = .ok (false, []) ∧
    matchDatum 1 [] (.prim (.int 1)) (sy "x") [] = .ok (false, []) := ⟨rfl, rfl, rfl⟩

/-- a (sub-)list pattern without ellipsis matches exactly the proper lists of the same length
whose elements match element-wise; the bindings are those of the elements, in order -/
theorem list_matches_elementwise {lits fuel ps} (d : Datum)
    (hs : Supported lits (Pat.ofList ps) = true) (hne : ∀ p ∈ ps, p.isEllipsis = false)
    (hf : (Pat.ofList ps).size + d.size ≤ fuel) :
    match (properElems d).bind (elementwise (specMatch lits) ps) with
    | some β => matchDatum fuel lits (Pat.ofList ps) d [] = .ok (true, β.toSubst) ∧
        β.toSubst.toBindings = β
    | none => ∃ σ', matchDatum fuel lits (Pat.ofList ps) d [] = .ok (false, σ') := by
  have hok : Pat.ok lits (Pat.ofList ps) = true := by
    simp only [Supported, Bool.and_eq_true] at hs; exact hs.1
  have hsp : specMatch lits (Pat.ofList ps) d =
      (properElems d).bind (elementwise (specMatch lits) ps) := by
    rw [specMatch_ofList hok]
    cases properElems d with
    | none => rfl
    | some ds => simp [specMatchList_elementwise hne]
  obtain ⟨h1, h2⟩ := match_eq_spec (fuel := fuel) (d := d) hs hf
  rw [← hsp]
  cases h : specMatch lits (Pat.ofList ps) d with
  | some β => exact h1 β h
  | none => exact h2 h

example : (properElems (lst [num 1, sy "k"])).bind
      (elementwise (specMatch ["k"]) [.ident "a", .ident "k"]) = some [("a", [num 1])] ∧
    (properElems (lst [num 1])).bind (elementwise (specMatch ["k"]) [.ident "a", .ident "k"]) = none ∧
    (properElems (.pair (num 1) (sy "k") none)).bind
      (elementwise (specMatch ["k"]) [.ident "a", .ident "k"]) = none := ⟨rfl, rfl, rfl⟩

/-- a vector pattern without ellipsis matches exactly the vectors of the same length whose
elements match element-wise -/
theorem vector_matches_elementwise {lits fuel ps} (d : Datum)
    (hs : Supported lits (.vec ps) = true) (hne : ∀ p ∈ ps, p.isEllipsis = false)
    (hf : (Pat.vec ps).size + d.size ≤ fuel) :
    match (vecElems d).bind (elementwise (specMatch lits) ps) with
    | some β => matchDatum fuel lits (.vec ps) d [] = .ok (true, β.toSubst) ∧
        β.toSubst.toBindings = β
    | none => ∃ σ', matchDatum fuel lits (.vec ps) d [] = .ok (false, σ') := by
  have hsp : specMatch lits (.vec ps) d = (vecElems d).bind (elementwise (specMatch lits) ps) := by
    cases d <;> simp [specMatch, vecElems, specMatchList_elementwise hne]
  obtain ⟨h1, h2⟩ := match_eq_spec (fuel := fuel) (d := d) hs hf
  rw [← hsp]
  cases h : specMatch lits (.vec ps) d with
  | some β => exact h1 β h
  | none => exact h2 h

example : matchDatum 20 [] (.vec [.ident "a", .prim (.int 2)]) (.vec [num 1, num 2] none) [] =
      .ok (true, [("a", num 1, [])]) ∧
    matchDatum 20 [] (.vec [.ident "a", .prim (.int 2)]) (lst [num 1, num 2]) [] = .ok (false, []) :=
  ⟨rfl, rfl⟩

/-- a sub-pattern followed by an ellipsis matches a run of forms: `(q ...)` against `d₁ … dₙ`
matches iff `n ≥ 1` and every `dᵢ` matches `q`; each variable of `q` is then bound to the sequence
of its matches (`combine`: the bindings of `d₁`, extended item by item, variable by variable) -/
theorem ellipsis_matches_run {lits fuel q} (d : Datum)
    (hs : Supported lits (Pat.ofList [q, .ellipsis]) = true)
    (hf : (Pat.ofList [q, .ellipsis]).size + d.size ≤ fuel) :
    match (properElems d).bind fun ds => (mapOpt (specMatch lits q) ds).bind combine with
    | some β => matchDatum fuel lits (Pat.ofList [q, .ellipsis]) d [] = .ok (true, β.toSubst) ∧
        β.toSubst.toBindings = β
    | none => ∃ σ', matchDatum fuel lits (Pat.ofList [q, .ellipsis]) d [] = .ok (false, σ') := by
  have hsp : specMatch lits (Pat.ofList [q, .ellipsis]) d =
      (properElems d).bind fun ds => (mapOpt (specMatch lits q) ds).bind combine := by
    simp only [Pat.ofList, specMatch, Pat.isEllTail, if_true, specRun]
    cases properElems d <;> rfl
  obtain ⟨h1, h2⟩ := match_eq_spec (fuel := fuel) (d := d) hs hf
  rw [← hsp]
  cases h : specMatch lits (Pat.ofList [q, .ellipsis]) d with
  | some β => exact h1 β h
  | none => exact h2 h

example : (properElems (lst [lst [sy "x", num 1], lst [sy "y", num 2]])).bind
      (fun ds => (mapOpt (specMatch [] (plist [.ident "name", .ident "val"])) ds).bind combine) =
      some [("name", [sy "x", sy "y"]), ("val", [num 1, num 2])] ∧
    (properElems (lst [lst [sy "x", num 1], num 2])).bind
      (fun ds => (mapOpt (specMatch [] (plist [.ident "name", .ident "val"])) ds).bind combine) = none ∧
    (properElems (lst [])).bind
      (fun ds => (mapOpt (specMatch [] (plist [.ident "name", .ident "val"])) ds).bind combine) = none :=
  ⟨rfl, rfl, rfl⟩

/-- what `combine` is: when the items `ds` all match `q`, with bindings `βs` (one per item), the
run binds EACH variable of `q` to the SEQUENCE of its matches in `d₁ … dₙ`, in order -/
theorem ellipsis_binds_sequences {lits q ds βs β}
    (hm : mapOpt (specMatch lits q) ds = some βs) (hc : combine βs = some β) :
    β.map Prod.fst = q.vars lits ∧
    ∀ v ∈ q.vars lits, β.lookup v = some (βs.flatMap fun b => (b.lookup v).getD []) := by
  obtain ⟨β1, rest, rfl, hk, hl⟩ := combine_lookup hc
  cases ds with
  | nil => simp [mapOpt] at hm
  | cons d ds =>
    obtain ⟨y, ys, hy, -, hys⟩ := mapOpt_cons_some.1 hm
    cases hys
    have := specMatch_keys hy
    exact ⟨hk.trans this, fun v hv => hl v (this ▸ hv)⟩

example : combine [[("a", [num 1]), ("b", [num 2])], [("a", [num 3]), ("b", [num 4])],
    [("a", [num 5]), ("b", [num 6])]] = some [("a", [num 1, num 3, num 5]), ("b", [num 2, num 4, num 6])] :=
  rfl

/-! ## 3. The template is filled as the declarative instantiation says -/

/-- For a supported rule and the bindings of a successful match of its pattern against `d`, with
fuel `≥ d.size`: `subst` yields the declarative instantiation — every variable replaced by what
it matched, every ellipsis sub-template repeated once per matched item, in order. -/
theorem subst_eq_spec {lits p t d β fuel loc} (hr : SupportedRule lits (p, t) = true)
    (hm : specMatch lits p d = some β) (hfu : d.size ≤ fuel) :
    subst fuel t β.toSubst loc = some (specInst t β loc) :=
  subst_of_match hr hm hfu

example : SupportedRule [] (plist [plist [plist [.ident "name", .ident "val"], .ellipsis],
        .ident "body", .ellipsis],
      .list [(.list [(.ident "lambda", false), (.list [(.ident "name", true)], false),
        (.ident "body", true)], false), (.ident "val", true)]) = true ∧
    specInst (.list [(.list [(.ident "lambda", false), (.list [(.ident "name", true)], false),
        (.ident "body", true)], false), (.ident "val", true)])
      [("name", [sy "x", sy "y"]), ("val", [num 1, num 2]), ("body", [sy "x"])] none =
      lst [lst [sy "lambda", lst [sy "x", sy "y"], sy "x"], num 1, num 2] := ⟨rfl, rfl⟩

/-- The general form, for ANY table: on a well-formed template (`Tmpl.wf`: every element followed
by an ellipsis has no nested ellipsis and mentions a variable of the table) and with more fuel
than the longest sequence of further matches, `subst` is the declarative instantiation under the
bindings the table represents. (Plain elements may mention ellipsis variables: they get the first
match; sub-templates mixing ellipses of different lengths stop at the shortest — both excluded
from `SupportedTmpl`, which is what R7RS allows.) -/
theorem subst_eq_spec_table {t σ fuel loc} (hwf : t.wf (Subst.keys σ) = true)
    (hfu : ∀ e ∈ σ, e.2.2.length < fuel) :
    subst fuel t σ loc = some (specInst t σ.toBindings loc) :=
  (subst_spec σ loc fuel hfu).1 t hwf

example : (Tmpl.list [(.ident "a", true), (.ident "a", false)]).wf
      (Subst.keys [("a", num 1, [num 2, num 3])]) = true ∧
    subst 3 (Tmpl.list [(.ident "a", true), (.ident "a", false)]) [("a", num 1, [num 2, num 3])] none =
      some (lst [num 1, num 2, num 3, num 1]) := ⟨rfl, rfl⟩

/-- "Repeated once per matched item" is unambiguous in the class: every pattern variable that an
ellipsis sub-template of a supported rule mentions matched exactly `copies β u` items (the
definition of `copies` — the least sequence length — is only a device to make `specInst` total
outside the class). -/
theorem copies_unambiguous {lits p d β u} (hs : Supported lits p = true)
    (hm : specMatch lits p d = some β)
    (hu : Tmpl.ellOk (p.vars lits) (p.ellGroups lits) u = true) :
    ∀ v ∈ u.vars, ∀ ms, β.lookup v = some ms → ms.length = copies β u :=
  copies_eq_length hs hm hu

example : Tmpl.ellOk ["name", "val", "body"] [["name", "val"], ["body"]]
      (.list [(.ident "name", false), (.ident "val", false)]) = true ∧
    Tmpl.ellOk ["name", "val", "body"] [["name", "val"], ["body"]]
      (.list [(.ident "name", false), (.ident "body", false)]) = false ∧
    copies [("name", [sy "x", sy "y"]), ("val", [num 1, num 2]), ("body", [sy "x"])]
      (.list [(.ident "name", false), (.ident "val", false)]) = 2 := ⟨rfl, rfl, rfl⟩

/-- In the class `subst` does not run out of fuel: `d.size` units suffice after a match against
`d` (the copy loop makes at most as many copies as `d` has items). -/
theorem subst_terminates {lits p t d β fuel loc} (hr : SupportedRule lits (p, t) = true)
    (hm : specMatch lits p d = some β) (hfu : d.size ≤ fuel) :
    (subst fuel t β.toSubst loc).isSome = true := by
  rw [subst_eq_spec hr hm hfu]; rfl

example : (subst 2 (Tmpl.list [(.ident "a", true)]) [("a", num 1, [num 2, num 3])] none).isSome = false ∧
    (subst 3 (Tmpl.list [(.ident "a", true)]) [("a", num 1, [num 2, num 3])] none).isSome = true :=
  ⟨rfl, rfl⟩

/-- full-strength statement (all templates): FALSE -/
def subst_terminates_full : Prop :=
  ∀ (t : Tmpl) (σ : Subst) (loc : Loc), ∃ fuel, (subst fuel t σ loc).isSome = true

/-- `subst` ALONE on a sub-template without pattern variable followed by an ellipsis, `(5 ...)`:
the copy loop never ends (the model runs out of any amount of fuel). `transform` no longer calls
`subst` on such a template: see `ellipsis_without_variable_is_error` and `transform_terminates`. -/
theorem subst_terminates_full_fails : ¬ subst_terminates_full := fun h => by
  obtain ⟨fuel, hf⟩ := h (.list [(.prim (.int 5), true)]) [] none
  simp [subst, substElems, substItemLoop_prim] at hf

/-- full-strength statement (all templates, some fuel): FALSE, same witness -/
def subst_eq_spec_full : Prop :=
  ∀ (t : Tmpl) (σ : Subst) (loc : Loc), ∃ fuel,
    subst fuel t σ loc = some (specInst t σ.toBindings loc)

theorem subst_eq_spec_full_fails : ¬ subst_eq_spec_full := fun h =>
  subst_terminates_full_fails fun t σ loc => by
    obtain ⟨fuel, hf⟩ := h t σ loc
    exact ⟨fuel, by rw [hf]; rfl⟩

/-! ## 6. No silent mis-expansion -/

/-- For a supported rule set and enough fuel (`p.size + use.size` for every pattern `p`), the
expander IS the declarative expander: … -/
theorem transform_eq_spec {fuel r use} (hs : SupportedRules r = true)
    (hf : ∀ rule ∈ r.rules, rule.1.size + use.size ≤ fuel) :
    transform fuel r use = specTransform r.literals r.rules use :=
  transformRules_eq_spec r.rules (by simpa [SupportedRules] using hs) hf

example : SupportedRules ⟨["k"], [(plist [.ident "k", .ident "x"], .ident "x"),
      (plist [.ident "x", .ellipsis], .list [(.ident "x", true)])]⟩ = true ∧
    specTransform ["k"] [(plist [.ident "k", .ident "x"], .ident "x"),
      (plist [.ident "x", .ellipsis], .list [(.ident "x", true)])] (lst [sy "k", num 1]) = .ok (num 1) ∧
    specTransform ["k"] [(plist [.ident "k", .ident "x"], .ident "x"),
      (plist [.ident "x", .ellipsis], .list [(.ident "x", true)])] (lst [sy "j", num 1]) =
      .ok (lst [sy "j", num 1]) := ⟨rfl, rfl, rfl⟩

/-- … so the result is either the declarative instantiation of the FIRST rule (in textual order)
whose pattern declaratively matches the use, or — exactly when no rule matches — the syntax
error; never anything else. -/
theorem no_silent_misexpansion {fuel r use} (hs : SupportedRules r = true)
    (hf : ∀ rule ∈ r.rules, rule.1.size + use.size ≤ fuel) :
    (∃ pre p t post β, r.rules = pre ++ (p, t) :: post ∧
      (∀ q ∈ pre, specMatch r.literals q.1 use = none) ∧ specMatch r.literals p use = some β ∧
      transform fuel r use = .ok (specInst t β use.loc)) ∨
    ((∀ q ∈ r.rules, specMatch r.literals q.1 use = none) ∧
      transform fuel r use = .error (.syntax, none)) := by
  rw [transform_eq_spec hs hf]
  exact specTransform_cases r.literals r.rules use

example : transform 20 ⟨[], [(plist [.prim (.int 1)], .ident "one")]⟩ (lst [num 2]) =
    .error (.syntax, none) := rfl

/-- `transform_eq_spec` with the fuel the expander is actually run with: `matchFuel use` (or more)
suffices for every supported rule set, whatever the size of its patterns -/
theorem transform_eq_spec_matchFuel {fuel r use} (hs : SupportedRules r = true)
    (hf : matchFuel use ≤ fuel) :
    transform fuel r use = specTransform r.literals r.rules use :=
  transformRules_eq_spec_matchFuel hf r.rules (by simpa [SupportedRules] using hs)

example : transform (matchFuel (lst [num 1, num 2])) ⟨[], [(plist [.ident "x", .ellipsis],
      .list [(.ident "x", true), (.ident "x", true)])]⟩ (lst [num 1, num 2]) =
    .ok (lst [num 1, num 2, num 1, num 2]) := rfl

/-- `no_silent_misexpansion` with `matchFuel use` -/
theorem no_silent_misexpansion_matchFuel {fuel r use} (hs : SupportedRules r = true)
    (hf : matchFuel use ≤ fuel) :
    (∃ pre p t post β, r.rules = pre ++ (p, t) :: post ∧
      (∀ q ∈ pre, specMatch r.literals q.1 use = none) ∧ specMatch r.literals p use = some β ∧
      transform fuel r use = .ok (specInst t β use.loc)) ∨
    ((∀ q ∈ r.rules, specMatch r.literals q.1 use = none) ∧
      transform fuel r use = .error (.syntax, none)) := by
  rw [transform_eq_spec_matchFuel hs hf]
  exact specTransform_cases r.literals r.rules use

example : transform (matchFuel (lst [])) ⟨[], [(plist [.ident "x", .ellipsis],
      .list [(.ident "x", true)])]⟩ (lst []) = .error (.syntax, none) := rfl

/-- for supported rule sets the expander is total with the fuel it is actually run with -/
theorem transform_terminates_supported {fuel r use} (hs : SupportedRules r = true)
    (hf : matchFuel use ≤ fuel) : ∀ l, transform fuel r use ≠ .error (.fuel, l) := by
  intro l h
  rcases no_silent_misexpansion_matchFuel hs hf with ⟨_, _, _, _, _, _, _, _, h'⟩ | ⟨_, h'⟩ <;>
  · rw [h'] at h; cases h

example : SupportedRules ⟨[], [(plist [.ident "x", .ellipsis], .list [(.ident "x", true)])]⟩ = true :=
  rfl

/-- full-strength statement (all rule sets): FALSE -/
def no_silent_misexpansion_full : Prop :=
  ∀ (fuel : Nat) (r : Rules) (use : Datum),
    (∀ rule ∈ r.rules, rule.1.size + use.size ≤ fuel) →
    transform fuel r use = specTransform r.literals r.rules use

/-- Outside the class there are silent mis-expansions: with the rule
`((m a ... z) '(a ... z))`-like `(a ... z) ⇒ (a ... z)`, the use `(1 2 3)` expands to
`(1 2 3 3)`. -/
theorem no_silent_misexpansion_full_fails : ¬ no_silent_misexpansion_full := fun h => by
  have := h 30 ⟨[], [(plist [.ident "a", .ellipsis, .ident "z"],
    .list [(.ident "a", true), (.ident "z", false)])]⟩ (lst [num 1, num 2, num 3]) (by decide)
  cases this

example : transform 30 ⟨[], [(plist [.ident "a", .ellipsis, .ident "z"],
    .list [(.ident "a", true), (.ident "z", false)])]⟩ (lst [num 1, num 2, num 3]) =
    .ok (lst [num 1, num 2, num 3, num 3]) := rfl

end Ruschm.C04

/- Audit: axioms used by every theorem of C04More. -/
import RuschmProofs.C04More
#print axioms Ruschm.C04More.supportedRule_imp'
#print axioms Ruschm.C04More.equal_runs_repeat
#print axioms Ruschm.C04More.subst_eq_spec'
#print axioms Ruschm.C04More.subst_unequal_runs
#print axioms Ruschm.C04More.equalRuns_of_supportedRule
#print axioms Ruschm.C04More.transform_unequal_runs
#print axioms Ruschm.C04More.transform_eq_spec'
#print axioms Ruschm.C04More.toPat_atoms
#print axioms Ruschm.C04More.toPat_literal
#print axioms Ruschm.C04More.toPat_lists
#print axioms Ruschm.C04More.toTmpl_atoms
#print axioms Ruschm.C04More.collectElems_eq_tmplElems
#print axioms Ruschm.C04More.toTmpl_lists
#print axioms Ruschm.C04More.toRule_spec
#print axioms Ruschm.C04More.toRule_keyword_mismatch
#print axioms Ruschm.C04More.toRules_spec
#print axioms Ruschm.C04More.toRules_textual_order
#print axioms Ruschm.C04More.toRules_keyword_mismatch
#print axioms Ruschm.C04More.front_errors_are_syntax

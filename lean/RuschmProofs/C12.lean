/-
Property C12 — import sets bind exactly the names the algebra yields.

"After an import declaration the importing environment gains exactly the bindings obtained by
applying only, except, prefix and rename - nested in any order and depth - to the export set of the
named library, each bound to the value the library exports under the original name; several import
sets in one declaration contribute the union. The outcome is the same on every run."

Only property theorems live here (each is audited with `#print axioms`); helper lemmas are in
`RuschmProofs/LibLemmas.lean`, vocabulary (`S.denote`, `S.asMap`, `S.Admissible`,
`Interp.exportsOf`) in `RuschmSpec/Lib.lean`.
-/
import RuschmProofs.LibLemmas

namespace Ruschm.C12
open Ruschm Ruschm.Interp

/-- a two-export native library used by the non-vacuity examples -/
def demoLib : LibName := [.ident "m"]
def demoState : State :=
  { factories := [(demoLib, .native [("a", .num (.int 1)), ("b", .num (.int 2))])] }

/-! ## 1. the evaluator computes the denotation -/

/-- For every import-set term, of any nesting, whose library is instantiated already or has a
native factory (so that no library body has to be evaluated): with `fuelNeeded s` fuel or more,
`evalImportSet` returns exactly the bindings `S.denote` assigns to the term over the export lists
`exportsOf st`, and changes nothing in the state but, possibly, the instance cache (not even that
when the library was cached). The export lists themselves are the same afterwards. -/
theorem importSet_eq_spec (s : ImportSet) (fuel : Nat) (st : State) (bs : S.Bindings)
    (hfuel : S.fuelNeeded s ≤ fuel) (hip : S.leaf s ∉ st.inProgress)
    (hd : S.denote s (exportsOf st) = some bs) :
    ∃ st', evalImportSet fuel st s = (.ok bs, st') ∧ SameButInstances st st' ∧
      (∀ n, exportsOf st' n = exportsOf st n) ∧
      (∀ n d, libLookup st.instances n = some d → libLookup st'.instances n = some d) ∧
      ((libLookup st.instances (S.leaf s)).isSome → st' = st) := by
  obtain ⟨st', h⟩ := importSet_spec s fuel st bs hfuel hip hd
  exact ⟨st', h.eval, h.same, h.exports, h.grow, h.cached⟩

example : ∃ st', evalImportSet 4 demoState (.prefix (.only (.direct demoLib none) ["b"]) "p:") =
    (.ok [("p:b", .num (.int 2))], st') := by
  obtain ⟨st', h, -⟩ := importSet_eq_spec (.prefix (.only (.direct demoLib none) ["b"]) "p:") 4 demoState
    [("p:b", .num (.int 2))] (by simp [S.fuelNeeded]) (by simp [demoState])
    (by simp [S.denote, exportsOf, demoState, demoLib, libLookup])
  exact ⟨st', h⟩

/-! ## 2. rename is simultaneous; only sees the new names -/

/-- `(rename S (a b) (b a))` SWAPS the two names: every binding of `S` keeps its value, the one
named `a` is now named `b` and the one named `b` is now named `a` (a sequential reading would
send both to the same name). Stated for the spec and for the evaluator. -/
theorem rename_simultaneous (s : ImportSet) (a b : String) (fuel : Nat) (st : State) (bs : S.Bindings)
    (hfuel : S.fuelNeeded s + 1 ≤ fuel) (hip : S.leaf s ∉ st.inProgress)
    (hd : S.denote s (exportsOf st) = some bs) :
    S.denote (.rename s [(a, b), (b, a)]) (exportsOf st) =
        some (bs.map fun p => (S.swapName a b p.1, p.2)) ∧
    ∃ st', evalImportSet fuel st (.rename s [(a, b), (b, a)]) =
        (.ok (bs.map fun p => (S.swapName a b p.1, p.2)), st') := by
  have hd' : S.denote (.rename s [(a, b), (b, a)]) (exportsOf st) =
      some (bs.map fun p => (S.swapName a b p.1, p.2)) := by
    rw [S.denote_rename _ hd]; simp only [S.renameTarget_swap]
  refine ⟨hd', ?_⟩
  obtain ⟨st', h, -⟩ := importSet_eq_spec (.rename s [(a, b), (b, a)]) fuel st _
    (by simpa [S.fuelNeeded] using hfuel) hip hd'
  exact ⟨st', h⟩

example : ∃ st', evalImportSet 3 demoState (.rename (.direct demoLib none) [("a", "b"), ("b", "a")]) =
    (.ok [("b", .num (.int 1)), ("a", .num (.int 2))], st') := by
  obtain ⟨-, st', h⟩ := rename_simultaneous (.direct demoLib none) "a" "b" 3 demoState
    [("a", .num (.int 1)), ("b", .num (.int 2))] (by simp [S.fuelNeeded]) (by simp [demoState, S.leaf])
    (by simp [S.denote, exportsOf, demoState, demoLib, libLookup])
  exact ⟨st', by simpa [S.swapName] using h⟩

/-- `(only (rename S pairs) ids)` selects by the NEW names: a binding is in the result exactly
when it is a binding `(n₀, v)` of `S` whose renamed name `renameTarget pairs n₀` is listed in
`ids` — and it is bound under that new name. In particular the old name of a renamed binding
does not select it. -/
theorem only_after_rename_uses_new_names (s : ImportSet) (pairs : List (String × String))
    (ids : List String) (ex : LibName → Option S.Bindings) (bs : S.Bindings)
    (hd : S.denote s ex = some bs) :
    ∃ res, S.denote (.only (.rename s pairs) ids) ex = some res ∧
      (∀ n v, (n, v) ∈ res ↔ ∃ n₀, (n₀, v) ∈ bs ∧ S.renameTarget pairs n₀ = n ∧ n ∈ ids) ∧
      (∀ a b, pairs = [(a, b)] → a ≠ b →
        (∀ v, (a, v) ∉ res) ∧ (∀ v, (a, v) ∈ bs → b ∈ ids → (b, v) ∈ res)) := by
  refine ⟨_, S.denote_only ids (S.denote_rename pairs hd), ?_, ?_⟩
  · intro n v
    simp only [List.mem_filter, List.mem_map, List.contains_iff_mem, Prod.mk.injEq, Prod.exists]
    constructor
    · rintro ⟨⟨n₀, v₀, hm, rfl, rfl⟩, hn⟩; exact ⟨n₀, hm, rfl, hn⟩
    · rintro ⟨n₀, hm, rfl, hn⟩; exact ⟨⟨n₀, v, hm, rfl, rfl⟩, hn⟩
  · rintro a b rfl hab
    simp only [List.mem_filter, List.mem_map, List.contains_iff_mem, Prod.mk.injEq, Prod.exists,
      S.renameTarget_single]
    constructor
    · rintro v ⟨⟨n₀, v₀, hm, he, rfl⟩, -⟩
      by_cases h : n₀ = a
      · simp only [h, if_true] at he; exact hab he.symm
      · simp only [h, if_false] at he
    · intro v hav hb
      exact ⟨⟨a, v, hav, by simp, rfl⟩, hb⟩

example : S.denote (.only (.rename (.direct demoLib none) [("a", "c")]) ["a", "c"]) (exportsOf demoState) =
    some [("c", .num (.int 1))] := by
  simp [S.denote, exportsOf, demoState, demoLib, libLookup, S.renameTarget]

end Ruschm.C12

/-
Property C18, continued — "a REPL session equals evaluating its forms in sequence", composed with
C17More "a program text evaluates as its statements": A SESSION IN WHICH THE PRINTED TEXT OF STATEMENTS IS
TYPED EVALUATES THESE STATEMENTS.

Vocabulary (`RuschmProofs/SessionLemmas.lean`, namespace `Ruschm.Session`):
* `TLine` — a typed line: its tokens and the blanks/comments before, between and after them
  (`TLine.Valid`: `Text.ValidLayout`, a last comment may run to the end of the line; `TLine.Supp`: tokens
  the lexer can spell; `TLine.str`: the string `readline` returns);
* `TypedAs lines sts` — the tokens of the lines, in order, are the tokens of the printed forms
  (`ProgramText.printStmt`) of `sts`: ANY distribution of the tokens over lines (a form may span several
  lines, several forms may share a line), any valid layout inside each line, any number of empty lines
  and of lines holding only blanks or comments.  `joinLines lines` is the whole text (the lines joined
  by newlines); it is a valid layout of `programToks sts` (`typed_text_is_a_program_text`), i.e. one of
  the texts C17More speaks about, and the session's lines are that text split at the joining newlines;
* `tgroups lines` — the line groups computed on TOKENS: empty lines dropped, a group ends with the first
  line at whose end the group's tokens have nesting depth `≤ 0`;
* `submitStmts`/`sessionStmts` — chunks of statements submitted one after another: each chunk is run by
  `eval_ast` statement after statement from the state the previous submission left (`runStmts`, C17More),
  STOPPING AT THE FIRST ERROR INSIDE THE CHUNK, and the session goes on with the next chunk;
  `foldStmts` — the fold of `eval_ast` over all statements (every chunk one statement).

WHAT IS TRUE, PRECISELY.  `Interpreter::eval` stops at the first error of the text it is given, and the
REPL gives it a whole line group.  So "the session continues after a failing statement" holds BETWEEN
SUBMISSIONS: when two statements share a line (more precisely a line group) and the first fails, the
second is NOT evaluated.  Theorem (1) therefore says: the groups cut the statements into consecutive
chunks (`chunks.flatten = sts`, the chunk of a group being the statements whose tokens were typed in it),
and the session is `sessionStmts` of these chunks; when no two statements share a group
(`session_one_statement_per_line`) it is `foldStmts`, the fold of `eval_ast` over ALL statements.

LINES AND NEWLINES.  The theorems hold for every list of `TLine`s; a `TLine` is a line `readline` can return
when its text contains no newline (decidable: `'\n' ∉ L.text`; a token can contain one: `#\` + newline,
`|a` newline `b|`) — not needed as a hypothesis.  Not proved here: the converse of
`typed_text_is_a_program_text`, that every valid layout of `programToks sts` whose tokens contain no newline,
split at its newlines, is `lines.map TLine.str` for some `TypedAs lines sts`.

THE OUTPUT BUFFER.  As in C18 (`FrontSpec.submit`) the model's output buffer `Store.out` is emptied before
each submission, so that the output in it afterwards is that submission's.  `sessionStmts` does the same.

THE QUOTE MARK.  The REPL submits a line as soon as the bracket count is `≤ 0`; a line ending in a lone
`'` is therefore submitted at once, before its datum is typed (`lone_quote_is_submitted_at_once`).  The
decidable side condition is `endsInQuote L = false` for every line.  It is NOT a hypothesis of the
theorems below because it holds for every typing of PRINTED statements: `printStmt` writes `(quote x)` in
full (`Syn.ofDatum`), so no `'` token occurs, and every printed form is a `Tight` token list (depth `> 0`
at every proper cut, `Session.toks_tight`) — which is exactly what fails for `'` followed by a datum
(`quote_abbreviation_is_not_tight`).
-/
import RuschmProofs.SessionLemmas

set_option linter.unusedSimpArgs false
set_option linter.unusedVariables false

namespace Ruschm.C18More
open Ruschm Ruschm.Interp Ruschm.Front Ruschm.FrontSpec Ruschm.Text Ruschm.ProgramText Ruschm.Session

/-! ## sample session, used by the `example`s -/

/-- `(define x 1)  (display x)` -/
private def sampleSts : List Statement :=
  [.definition (.mk "x" (.prim (.int 1) none) none),
   .expr (.call (.sym "display" none) [.sym "x" none] none)]

/-- typed as `(define x` / `` / `  1) (display ;c` / `x)`: the first form spans two lines (with an empty
line between), the second starts on the line on which the first ends -/
private def sampleLines : List TLine :=
  [⟨[.lparen, .ident "define", .ident "x"], [[], [], [' '], []]⟩,
   ⟨[], [[]]⟩,
   ⟨[.prim (.int 1), .rparen, .lparen, .ident "display"], [[' ', ' '], [], [' '], [], " ;c".toList]⟩,
   ⟨[.ident "x", .rparen], [[], [], []]⟩]

/-- typed one statement per line: `(define x 1)` / ` (display x) ; shows 1` -/
private def sampleLines1 : List TLine :=
  [⟨[.lparen, .ident "define", .ident "x", .prim (.int 1), .rparen], [[], [], [' '], [' '], [], []]⟩,
   ⟨[.lparen, .ident "display", .ident "x", .rparen], [[' '], [], [' '], [], " ; shows 1".toList]⟩]

private theorem sample_strs : sampleLines.map TLine.str = ["(define x", "", "  1) (display ;c", "x)"] := by
  decide

private theorem supp_of {ts : List Token}
    (h : ∀ t ∈ ts, t = .lparen ∨ t = .rparen ∨ t = .ident "define" ∨ t = .ident "x" ∨ t = .ident "display" ∨
      t = .prim (.int 1)) : ∀ t ∈ ts, SupportedTok t := by
  intro t ht
  rcases h t ht with rfl | rfl | rfl | rfl | rfl | rfl
  · trivial
  · trivial
  · exact Or.inl (by decide)
  · exact Or.inl (by decide)
  · exact Or.inl (by decide)
  · exact (by decide : fitsI32 1 = true)

private theorem sample_typed : TypedAs sampleLines sampleSts := by
  refine ⟨?_, by decide⟩
  intro L hL
  simp only [sampleLines, List.mem_cons, List.not_mem_nil, or_false] at hL
  rcases hL with rfl | rfl | rfl | rfl
  · exact ⟨(by decide : ValidLayout _ _), supp_of (by decide)⟩
  · exact ⟨(by decide : ValidLayout _ _), supp_of (by decide)⟩
  · exact ⟨(by decide : ValidLayout _ _), supp_of (by decide)⟩
  · exact ⟨(by decide : ValidLayout _ _), supp_of (by decide)⟩

private theorem sample_oneEach : OneEach sampleLines1 sampleSts :=
  ⟨⟨(by decide : ValidLayout _ _), supp_of (by decide), by decide⟩,
    ⟨(by decide : ValidLayout _ _), supp_of (by decide), by decide⟩, trivial⟩

private theorem sample_ok : ∀ s ∈ sampleSts, okStmt C01More.isStdMacro s := by
  intro s hs
  simp only [sampleSts, List.mem_cons, List.not_mem_nil, or_false] at hs
  rcases hs with rfl | rfl
  · show CoreSyntax.coreStmt C01More.isStdMacro (.definition _) = true
    decide
  · show CoreSyntax.coreStmt C01More.isStdMacro (.expr _) = true
    decide

private theorem sample_sup : ∀ s ∈ sampleSts, SupportedD (printStmt s) := by
  intro s hs
  simp only [sampleSts, List.mem_cons, List.not_mem_nil, or_false] at hs
  rcases hs with rfl | rfl
  · exact ⟨.inl (by decide), .inl (by decide), (by decide : fitsI32 1 = true), trivial⟩
  · exact ⟨.inl (by decide), .inl (by decide), trivial⟩

private theorem stdlib_macros (fuel : Nat) :
    C01More.macroOf (withStdlib fuel false).syn = C01More.isStdMacro := by
  rw [withStdlib_syn]
  exact funext C01More.std_macros

/-! ## 0. the typed lines are a program text; the REPL's groups are the groups on tokens -/

/-- THE TYPED TEXT IS A PROGRAM TEXT.  The lines joined by newlines are `programText sts layout` for a
valid layout — one of the texts of C17More `program_text_evaluates_as_its_statements` — and the session's
lines are this text cut at the joining newlines (`Session.glue_text`: the text of two pieces is the first,
a newline, the second). -/
theorem typed_text_is_a_program_text (lines : List TLine) (sts : List Statement) (ht : TypedAs lines sts) :
    (joinLines lines).text = programText sts (joinLines lines).lay ∧
    ValidLayout (programToks sts) (joinLines lines).lay := by
  have hv := joinLines_valid lines (fun L h => (ht.1 L h).1)
  unfold TLine.Valid at hv
  rw [joinLines_toks, ht.2] at hv
  refine ⟨?_, hv⟩
  rw [programText_eq, ← ht.2, ← joinLines_toks]
  rfl

example : TypedAs sampleLines sampleSts := sample_typed
example : (joinLines sampleLines).str = "(define x\n\n  1) (display ;c\nx)" := by decide

/-- THE REPL'S LINE GROUPS ARE THE GROUPS ON TOKENS.  For lines that are valid layouts of supported
tokens the REPL — which counts brackets on characters — submits exactly the groups `tgroups lines`: empty
lines are dropped, a group ends with the first line at whose end its TOKENS have depth `≤ 0` (C18
`repl_groups` with C18 `bracket_of_rendered`); every group is again a valid layout of its tokens. -/
theorem typed_groups (lines : List TLine) (hl : ∀ L ∈ lines, L.Valid ∧ L.Supp) :
    groups (lines.map TLine.str) = (tgroups lines).map TLine.str ∧
    unfinished (lines.map TLine.str) = pendStr (gAux none lines).2 ∧
    ∀ G ∈ tgroups lines, G.Valid ∧ G.Supp := by
  have h := groupsAux_typed lines none hl (fun P h => by cases h)
  refine ⟨congrArg Prod.fst h, congrArg Prod.snd h, gAux_valid lines none hl (fun P h => by cases h)⟩

example : tgroups sampleLines = [(sampleLines[0].glue sampleLines[2]).glue sampleLines[3]] := by decide
example : groups (sampleLines.map TLine.str) = ["(define x\n  1) (display ;c\nx)"] := by decide

/-! ## 1. a session evaluates its statements -/

/-- (1) A SESSION EVALUATES AS ITS STATEMENTS.  Let `sts` be program statements (class `okStmt` for the
macro keywords of the nine bundled derived forms, literals the lexer can spell) and let `lines` be ANY way
of typing their printed text into the REPL (`TypedAs`).  Then there are consecutive chunks of the
statements, `chunks.flatten = sts`, one chunk per line group — the chunk of a group consists of the
statements whose tokens were typed in that group (`(tgroups lines).map toks = chunks.map programToks`); no
statement is ever split between two submissions; a chunk is empty for a line of blanks or comments —
such that:
* the REPL submits exactly these groups and nothing is left pending at the end;
* the submissions print, one by one, exactly what `sessionStmts` prints: for each chunk, evaluated by
  `eval_ast` statement after statement from the state the PREVIOUS SUBMISSION left — whether that one
  failed or not — and stopping at the first error inside the chunk: the output written, then the echo of
  the last statement's value (its `display` form; nothing for a definition, an import, the unspecified
  value, an empty chunk), or, on an error, the output before it and the error message (kind);
  hence the same transcript and the same error messages;
* the interpreter ends in the state `sessionStmts` ends in, up to the source positions recorded in the
  code of closures (the location erasure of C17More).
For every evaluation fuel, the same on both sides. -/
theorem session_evaluates_as_its_statements (fuel : Nat) (sts : List Statement) (lines : List TLine)
    (hok : ∀ s ∈ sts, okStmt C01More.isStdMacro s) (hsup : ∀ s ∈ sts, SupportedD (printStmt s))
    (ht : TypedAs lines sts) :
    ∃ chunks : List (List Statement), chunks.flatten = sts ∧
      (tgroups lines).map TLine.toks = chunks.map programToks ∧
      groups (lines.map TLine.str) = (tgroups lines).map TLine.str ∧
      (replRun fuel (lines.map TLine.str)).1.pending = "" ∧
      (replRun fuel (lines.map TLine.str)).2.filter (·.submitted) =
        (sessionStmts fuel (withStdlib fuel false) chunks).2 ∧
      transcript (replRun fuel (lines.map TLine.str)).2 =
        transcript (sessionStmts fuel (withStdlib fuel false) chunks).2 ∧
      errors (replRun fuel (lines.map TLine.str)).2 =
        errors (sessionStmts fuel (withStdlib fuel false) chunks).2 ∧
      (replRun fuel (lines.map TLine.str)).1.st.unloc =
        (sessionStmts fuel (withStdlib fuel false) chunks).1.unloc := by
  obtain ⟨hg, hu, hv⟩ := typed_groups lines ht.1
  obtain ⟨chunks, c1, c2, c3⟩ := gAux_chunks lines none sts (fun L h => (ht.1 L h).2) (fun P h => by cases h)
    (by simpa [pendToks] using ht.2)
  obtain ⟨r0, r1, _⟩ := C18.repl_groups fuel (lines.map TLine.str)
  obtain ⟨_, r2, r3⟩ := C18.repl_eq_sequential fuel (lines.map TLine.str)
  obtain ⟨s1, s2⟩ := session_chunks fuel (tgroups lines) chunks (withStdlib fuel false) (withStdlib fuel false)
    c2 (fun G h => (hv G h).1) (by rw [c1, stdlib_macros]; exact hok) (by rw [c1]; exact hsup) rfl
  refine ⟨chunks, c1, c2, hg, ?_, ?_, ?_, ?_, ?_⟩
  · rw [r0, hu, c3]; rfl
  · rw [r1, hg, s1]
  · rw [r2, hg, s1]
  · rw [r3, hg, s1]
  · rw [r0, hg]; exact s2

example : (∀ s ∈ sampleSts, okStmt C01More.isStdMacro s) ∧ (∀ s ∈ sampleSts, SupportedD (printStmt s)) ∧
    TypedAs sampleLines sampleSts :=
  ⟨sample_ok, sample_sup, sample_typed⟩

/-- (1, one statement per submission) THE SESSION IS THE FOLD OF `eval_ast` OVER ALL STATEMENTS.  When
line `i` holds the printed form of statement `i` alone, under any valid layout (`OneEach`), the REPL submits
every line by itself and the session is `foldStmts`: EVERY statement is evaluated by one `eval_ast`, in
order, from the state the previous statement left — the session CONTINUES AFTER A FAILING STATEMENT, unlike
a program file (C17More `statements_stop_at_first_error`) — and for each statement the REPL prints its
output and then the `display` form of its value (nothing for a definition, an import, the unspecified
value), or its output and the error message.  The final state is that of the fold, up to the source
positions recorded in code. -/
theorem session_one_statement_per_line (fuel : Nat) (sts : List Statement) (lines : List TLine)
    (hok : ∀ s ∈ sts, okStmt C01More.isStdMacro s) (hsup : ∀ s ∈ sts, SupportedD (printStmt s))
    (h1 : OneEach lines sts) :
    groups (lines.map TLine.str) = lines.map TLine.str ∧
    (replRun fuel (lines.map TLine.str)).1.pending = "" ∧
    (replRun fuel (lines.map TLine.str)).2.filter (·.submitted) = (foldStmts fuel (withStdlib fuel false) sts).2 ∧
    transcript (replRun fuel (lines.map TLine.str)).2 = transcript (foldStmts fuel (withStdlib fuel false) sts).2 ∧
    errors (replRun fuel (lines.map TLine.str)).2 = errors (foldStmts fuel (withStdlib fuel false) sts).2 ∧
    (replRun fuel (lines.map TLine.str)).1.st.unloc = (foldStmts fuel (withStdlib fuel false) sts).1.unloc := by
  obtain ⟨hl, htoks⟩ := oneEach_valid lines sts h1
  have hgA := oneEach_groups lines sts h1
  obtain ⟨hg, hu, _⟩ := typed_groups lines hl
  have hg' : groups (lines.map TLine.str) = lines.map TLine.str := by
    rw [hg]; unfold tgroups; rw [hgA]
  obtain ⟨r0, r1, _⟩ := C18.repl_groups fuel (lines.map TLine.str)
  obtain ⟨_, r2, r3⟩ := C18.repl_eq_sequential fuel (lines.map TLine.str)
  have hflat : (sts.map (fun s => [s])).flatten = sts := flatten_singletons sts
  obtain ⟨s1, s2⟩ := session_chunks fuel lines (sts.map (fun s => [s])) (withStdlib fuel false)
    (withStdlib fuel false) htoks (fun G h => (hl G h).1) (by rw [hflat, stdlib_macros]; exact hok)
    (by rw [hflat]; exact hsup) rfl
  rw [sessionStmts_singletons] at s1 s2
  refine ⟨hg', ?_, ?_, ?_, ?_, ?_⟩
  · rw [r0, hu, hgA]; rfl
  · rw [r1, hg', s1]
  · rw [r2, hg', s1]
  · rw [r3, hg', s1]
  · rw [r0, hg']; exact s2

example : (∀ s ∈ sampleSts, okStmt C01More.isStdMacro s) ∧ (∀ s ∈ sampleSts, SupportedD (printStmt s)) ∧
    OneEach sampleLines1 sampleSts :=
  ⟨sample_ok, sample_sup, sample_oneEach⟩

/-- WHY CHUNKS: statements sharing a line are ONE submission.  `1 2` on one line is one group, `1` and `2`
on two lines are two: the first session echoes once (the value of the last form), the second twice; and
were the first form of `1 2` to fail, `Interpreter::eval` would stop there and the second form would not be
evaluated (C17More `program_text_stops_at_first_failure` applied to the group). -/
theorem forms_sharing_a_line_are_one_submission (fuel : Nat) :
    ((replRun fuel ["1 2"]).2.filter (·.submitted)).length = 1 ∧
    ((replRun fuel ["1", "2"]).2.filter (·.submitted)).length = 2 := by
  have g1 : groups ["1 2"] = ["1 2"] := by decide
  have g2 : groups ["1", "2"] = ["1", "2"] := by decide
  rw [(C18.repl_groups fuel ["1 2"]).2.1, (C18.repl_groups fuel ["1", "2"]).2.1, g1, g2]
  exact ⟨rfl, rfl⟩

/-! ## 2. a session without errors and the same text as a program -/

/-- (2), FULL STATEMENT (not proved): as `session_equals_program_when_no_error_partial` below without the
hypothesis `OutBlind fuel sts`.  What is missing is a proof that the model's evaluator never READS the
output buffer (`∀ fuel sts, OutBlind fuel sts`): true by inspection — `Store.out` is only pushed to, by
`newline` and `display` (`RuschmModel/Prim.lean`) — but it needs an induction over all of
`RuschmModel/Eval.lean` and `Interp.lean` (imports, library bodies), of the size of `UnlocInterp.lean`. -/
def session_equals_program_when_no_error_full : Prop :=
  ∀ (fuel : Nat) (sts : List Statement) (lines : List TLine),
    (∀ s ∈ sts, okStmt C01More.isStdMacro s) → (∀ s ∈ sts, SupportedD (printStmt s)) → TypedAs lines sts →
    AllOk fuel (withStdlib fuel false) sts →
    (setOut (runStmts fuel (withStdlib fuel false) sts none).2.store.out
        (replRun fuel (lines.map TLine.str)).1.st).unloc =
      (runStmts fuel (withStdlib fuel false) sts none).2.unloc ∧
    errors (replRun fuel (lines.map TLine.str)).2 = []

/-- (2) A SESSION WITHOUT ERRORS IS THE PROGRAM RUN.  Let the statements `sts` be typed into the REPL in
any way (`TypedAs`), let EVERY statement succeed when they are run one after another as a program from the
REPL's initial interpreter (`AllOk`, i.e. `runStmts` ends in a value), and let the evaluator not read the
output buffer for these statements (`OutBlind` — the part that is assumed, see
`session_equals_program_when_no_error_full`).  Then, with `chunks` the portions in which the session
submits the statements:
* no submission prints an error message;
* the session's final interpreter state is the final state of the program run `runStmts` (C17More) but for
  the output buffer — which the session empties before each submission — up to recorded source positions;
* the program's output buffer is what the submissions wrote, accumulated (`sessionOut`: the buffers the
  submissions left, one on top of the other, on top of what the initial state held); the REPL prints each
  of these pieces followed by the echo of the submission's value (`Session.replOutcome`): the echoes are
  extra;
* and the program run is also `Interpreter::eval` on the session's whole text, the lines joined by
  newlines (C17More `program_text_evaluates_as_its_statements`): same state up to locations, same output. -/
theorem session_equals_program_when_no_error_partial (fuel : Nat) (sts : List Statement) (lines : List TLine)
    (hok : ∀ s ∈ sts, okStmt C01More.isStdMacro s) (hsup : ∀ s ∈ sts, SupportedD (printStmt s))
    (ht : TypedAs lines sts) (hblind : OutBlind fuel sts) (hall : AllOk fuel (withStdlib fuel false) sts) :
    ∃ chunks : List (List Statement), chunks.flatten = sts ∧
      (tgroups lines).map TLine.toks = chunks.map programToks ∧
      errors (replRun fuel (lines.map TLine.str)).2 = [] ∧
      (setOut (runStmts fuel (withStdlib fuel false) sts none).2.store.out
          (replRun fuel (lines.map TLine.str)).1.st).unloc =
        (runStmts fuel (withStdlib fuel false) sts none).2.unloc ∧
      (runStmts fuel (withStdlib fuel false) sts none).2.store.out =
        sessionOut fuel (withStdlib fuel false) chunks ++ (withStdlib fuel false).store.out ∧
      (evalText fuel (withStdlib fuel false) (joinLines lines).text).2.unloc =
        (runStmts fuel (withStdlib fuel false) sts none).2.unloc ∧
      (evalText fuel (withStdlib fuel false) (joinLines lines).text).2.store.out =
        (runStmts fuel (withStdlib fuel false) sts none).2.store.out := by
  obtain ⟨chunks, c1, c2, _, _, _, _, a3, a4⟩ := session_evaluates_as_its_statements fuel sts lines hok hsup ht
  have hrun : ∃ v, (runStmts fuel (pushOut [] (withStdlib fuel false)) chunks.flatten none).1 = .ok v := by
    rw [pushOut_nil, c1]
    exact (runStmts_ok_iff_allOk fuel sts _ none).2 hall
  obtain ⟨p1, p2⟩ := sessionStmts_program fuel chunks (withStdlib fuel false) [] none (by rw [c1]; exact hblind) hrun
  rw [pushOut_nil, c1, List.append_nil] at p1
  obtain ⟨t1, t2⟩ := typed_text_is_a_program_text lines sts ht
  obtain ⟨_, e2, e3⟩ := C17More.program_text_evaluates_as_its_statements fuel (withStdlib fuel false) sts
    (joinLines lines).lay (by rw [stdlib_macros]; exact hok) hsup t2
  refine ⟨chunks, c1, c2, ?_, ?_, ?_, ?_, ?_⟩
  · rw [a3]; exact errors_nil_of p2
  · rw [setOut_unloc, a4, ← setOut_unloc, p1]
    rfl
  · rw [p1]; rfl
  · rw [t1]; exact e2
  · rw [t1]; exact e3

/-- the statement `1`, typed on a line of its own: it succeeds from every state, and `eval_ast` on it does
not read the output buffer -/
private def one : Statement := .expr (.prim (.int 1) none)

private theorem one_eval (st : State) :
    evalAst 1 st one = (.ok (some (.num (.int 1))), { st with importEnd := true }) := by
  unfold evalAst one
  by_cases h : st.importEnd = true
  · simp [h, evalExprOrDef, Eval.evalExpr, Eval.evalPrim]
  · simp [h, evalExprOrDef, Eval.evalExpr, Eval.evalPrim]

example : (∀ s ∈ [one], okStmt C01More.isStdMacro s) ∧ (∀ s ∈ [one], SupportedD (printStmt s)) ∧
    TypedAs [⟨[.prim (.int 1)], [[], " ; one".toList]⟩] [one] ∧ OutBlind 1 [one] ∧
    AllOk 1 (withStdlib 1 false) [one] := by
  refine ⟨?_, ?_, ⟨?_, by decide⟩, ?_, ⟨_, _, one_eval _, trivial⟩⟩
  · intro s hs
    simp only [List.mem_cons, List.not_mem_nil, or_false] at hs
    subst hs
    show CoreSyntax.coreStmt C01More.isStdMacro (.expr _) = true
    decide
  · intro s hs
    simp only [List.mem_cons, List.not_mem_nil, or_false] at hs
    subst hs
    exact (by decide : fitsI32 1 = true)
  · intro L hL
    simp only [List.mem_cons, List.not_mem_nil, or_false] at hL
    subst hL
    exact ⟨(by decide : ValidLayout _ _), supp_of (by decide)⟩
  · intro s hs st o
    simp only [List.mem_cons, List.not_mem_nil, or_false] at hs
    subst hs
    rw [one_eval, one_eval]
    rfl

/-! ## 3. the way the statements are spread over lines does not matter -/

/-- (3) LINE SPLITTING AND LAYOUT ARE IRRELEVANT.  Two ways of typing the SAME STATEMENTS — different line
breaks inside the forms, different indentation, comments, empty lines — that send the statements to the
interpreter in the same portions (the token lists of their groups agree, `tgroups`) print the same thing
submission by submission (output, echo, error message), hence have the same transcript and error messages,
and end in the same interpreter state up to recorded source positions.  What is new w.r.t. C18
`repl_split_invariance` (same TOKENS in each group ⇒ same session): both sessions are moreover THE session
of the statement chunks (`session_evaluates_as_its_statements`), so the common transcript is determined by
the statements.  The side condition on the portions is needed: `forms_sharing_a_line_are_one_submission`. -/
theorem session_line_split_irrelevant (fuel : Nat) (sts : List Statement) (lines₁ lines₂ : List TLine)
    (hok : ∀ s ∈ sts, okStmt C01More.isStdMacro s) (hsup : ∀ s ∈ sts, SupportedD (printStmt s))
    (h₁ : TypedAs lines₁ sts) (h₂ : TypedAs lines₂ sts)
    (hsame : (tgroups lines₁).map TLine.toks = (tgroups lines₂).map TLine.toks) :
    (replRun fuel (lines₁.map TLine.str)).2.filter (·.submitted) =
      (replRun fuel (lines₂.map TLine.str)).2.filter (·.submitted) ∧
    transcript (replRun fuel (lines₁.map TLine.str)).2 = transcript (replRun fuel (lines₂.map TLine.str)).2 ∧
    errors (replRun fuel (lines₁.map TLine.str)).2 = errors (replRun fuel (lines₂.map TLine.str)).2 ∧
    (replRun fuel (lines₁.map TLine.str)).1.st.unloc = (replRun fuel (lines₂.map TLine.str)).1.st.unloc := by
  obtain ⟨chunks, c1, c2, _, _, a1, a2, a3, a4⟩ := session_evaluates_as_its_statements fuel sts lines₁ hok hsup h₁
  obtain ⟨hg, _, hv⟩ := typed_groups lines₂ h₂.1
  obtain ⟨r0, r1, _⟩ := C18.repl_groups fuel (lines₂.map TLine.str)
  obtain ⟨_, r2, r3⟩ := C18.repl_eq_sequential fuel (lines₂.map TLine.str)
  obtain ⟨s1, s2⟩ := session_chunks fuel (tgroups lines₂) chunks (withStdlib fuel false) (withStdlib fuel false)
    (hsame ▸ c2) (fun G h => (hv G h).1) (by rw [c1, stdlib_macros]; exact hok) (by rw [c1]; exact hsup) rfl
  refine ⟨?_, ?_, ?_, ?_⟩
  · rw [a1, r1, hg, s1]
  · rw [a2, r2, hg, s1]
  · rw [a3, r3, hg, s1]
  · rw [a4, r0, hg]; exact s2.symm

/-- the same statements typed with another layout inside the group: `(define x 1) (display` / `x)` -/
private def sampleLines2 : List TLine :=
  [⟨[.lparen, .ident "define", .ident "x", .prim (.int 1), .rparen, .lparen, .ident "display"],
      [[], [], [' '], [' '], [], [' '], [], []]⟩,
   ⟨[.ident "x", .rparen], [['\t'], [], []]⟩]

example : TypedAs sampleLines sampleSts ∧ TypedAs sampleLines2 sampleSts ∧
    (tgroups sampleLines).map TLine.toks = (tgroups sampleLines2).map TLine.toks := by
  refine ⟨sample_typed, ⟨?_, by decide⟩, by decide⟩
  intro L hL
  simp only [sampleLines2, List.mem_cons, List.not_mem_nil, or_false] at hL
  rcases hL with rfl | rfl
  · exact ⟨(by decide : ValidLayout _ _), supp_of (by decide)⟩
  · exact ⟨(by decide : ValidLayout _ _), supp_of (by decide)⟩

/-- … in particular, with one statement per line, ANY two layouts of the lines. -/
theorem session_layout_irrelevant_one_per_line (fuel : Nat) (sts : List Statement) (lines₁ lines₂ : List TLine)
    (hok : ∀ s ∈ sts, okStmt C01More.isStdMacro s) (hsup : ∀ s ∈ sts, SupportedD (printStmt s))
    (h₁ : OneEach lines₁ sts) (h₂ : OneEach lines₂ sts) :
    (replRun fuel (lines₁.map TLine.str)).2.filter (·.submitted) =
      (replRun fuel (lines₂.map TLine.str)).2.filter (·.submitted) ∧
    transcript (replRun fuel (lines₁.map TLine.str)).2 = transcript (replRun fuel (lines₂.map TLine.str)).2 ∧
    errors (replRun fuel (lines₁.map TLine.str)).2 = errors (replRun fuel (lines₂.map TLine.str)).2 ∧
    (replRun fuel (lines₁.map TLine.str)).1.st.unloc = (replRun fuel (lines₂.map TLine.str)).1.st.unloc := by
  obtain ⟨_, _, a1, a2, a3, a4⟩ := session_one_statement_per_line fuel sts lines₁ hok hsup h₁
  obtain ⟨_, _, b1, b2, b3, b4⟩ := session_one_statement_per_line fuel sts lines₂ hok hsup h₂
  exact ⟨a1.trans b1.symm, a2.trans b2.symm, a3.trans b3.symm, a4.trans b4.symm⟩

example : OneEach sampleLines1 sampleSts := sample_oneEach

/-! ## the quote mark -/

/-- the decidable side condition of the REPL's documented limit: the line's last token is a bare `'` -/
def endsInQuote (L : TLine) : Bool := L.toks.getLast? == some .quote

/-- A LINE ENDING IN A LONE QUOTE MARK IS SUBMITTED AT ONCE: `'` / `a` are two submissions (the first one
a reader error), `'a` is one. -/
theorem lone_quote_is_submitted_at_once :
    groups ["'", "a"] = ["'", "a"] ∧ groups ["'a"] = ["'a"] ∧ groups ["(quote", "a)"] = ["(quote\na)"] := by
  decide

/-- … because `'` followed by a datum is not `Tight`: after the quote mark the depth is 0.  Printed
statements never contain the abbreviation (`Syn.ofDatum` writes `(quote x)`), and `Session.toks_tight`
proves every printed form tight; this is why `endsInQuote L = false` is not a hypothesis above. -/
theorem quote_abbreviation_is_not_tight : ¬ Tight [.quote, .ident "a"] := by
  intro h
  have := h.2.2 [.quote] [.ident "a"] rfl (by simp) (by simp)
  simp [weight] at this

example : endsInQuote ⟨[.quote], [[], []]⟩ = true ∧ ∀ L ∈ sampleLines, endsInQuote L = false := by decide

end Ruschm.C18More

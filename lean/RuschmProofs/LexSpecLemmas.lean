/-
Helper lemmas for `RuschmProofs/C06More.lean`: the model lexer (`RuschmModel/Lex.lean`) computes
the declarative tokenizer of `RuschmSpec/LexSpec.lean`.
-/
import RuschmProofs.TextLemmas
import RuschmSpec.LexSpec

namespace Ruschm.LexSpecLemmas
open Ruschm Ruschm.Lex Ruschm.Text

/-! ## character classes -/

theorem isBlank_eq (c : Char) : LexSpec.isBlank c = isWs c := by
  simp [LexSpec.isBlank, LexSpec.blanks, isWs, Bool.or_assoc]

theorem isDelim_eq (c : Char) : LexSpec.isDelim c = isDelimiter c := by
  simp [LexSpec.isDelim, LexSpec.delimiters, isDelimiter, isWs, Bool.or_assoc]

theorem isAlpha_eq (c : Char) : c.isAlpha = isLetter c := by
  rw [Bool.eq_iff_iff, isLetter_iff]
  simp only [Char.isAlpha, Char.isUpper, Char.isLower, ge_iff_le, Bool.or_eq_true,
    Bool.and_eq_true, decide_eq_true_eq, UInt32.le_iff_toNat_le]
  constructor
  · rintro (h | h)
    · exact Or.inr h
    · exact Or.inl h
  · rintro (h | h)
    · exact Or.inr h
    · exact Or.inl h

theorem isInitial_eq (c : Char) : LexSpec.isInitial c = isInitial c := by
  simp only [LexSpec.isInitial, isAlpha_eq, LexSpec.specialInitials, isInitial]
  rw [Bool.eq_iff_iff]
  simp only [List.contains_cons, List.contains_nil, Bool.or_eq_true, beq_iff_eq,
    decide_eq_true_eq, Bool.or_false]
  grind

theorem isSubsequent_eq (c : Char) : LexSpec.isSubsequent c = isSubsequent c := by
  simp only [LexSpec.isSubsequent, isInitial_eq, Char_isDigit_eq, isSubsequent]
  rw [Bool.eq_iff_iff]
  simp only [List.contains_cons, List.contains_nil, Bool.or_eq_true, beq_iff_eq,
    decide_eq_true_eq, Bool.or_false]
  grind

theorem isAlphanum_eq (c : Char) : c.isAlphanum = isAsciiAlnum c := by
  simp [Char.isAlphanum, isAlpha_eq, Char_isDigit_eq, isAsciiAlnum]

theorem isDigit_fun : Char.isDigit = isDigit := funext Char_isDigit_eq
theorem isAlphanum_fun : Char.isAlphanum = isAsciiAlnum := funext isAlphanum_eq
theorem isSubsequent_fun : LexSpec.isSubsequent = isSubsequent := funext isSubsequent_eq


/-! ## forgetting the cursor -/

/-- the result of the model's `token` / `next` without positions -/
def forget : Except LexErr (Option (Token × List Char × Pos)) → LexSpec.Step
  | .error _ => .error
  | .ok none => .eof
  | .ok (some (t, r, _)) => .tok t r

/-- the result of one model scanner without positions -/
def forgetScan : Scan → LexSpec.Step
  | .error _ => .error
  | .ok (t, r, _) => .tok t r

theorem forget_map (x : Scan) : forget (x.map some) = forgetScan x := by
  cases x with
  | error e => rfl
  | ok r => obtain ⟨t, r, p⟩ := r; rfl

/-! ## atmosphere -/

theorem skipAtmos_eq (b : Bool) (cs : List Char) (p : Pos) :
    (skipAtmosphere b cs p).1 = LexSpec.skipAtmos b cs := by
  fun_induction skipAtmosphere b cs p with
  | case1 b p => cases b <;> rfl
  | case2 c cs p hw ih => simp [LexSpec.skipAtmos, isBlank_eq, hw, ih]
  | case3 cs p hw ih => simp [LexSpec.skipAtmos, isBlank_eq, hw, ih]
  | case4 c cs p hw hc => simp [LexSpec.skipAtmos, isBlank_eq, hw, hc]
  | case5 c cs p hn ih =>
    have hw : isWs c = true := by
      simp only [Bool.or_eq_true, decide_eq_true_eq] at hn
      rcases hn with rfl | rfl <;> decide
    rw [ih]
    simp [LexSpec.skipAtmos, isBlank_eq, hw, hn]
  | case6 c cs p hn ih => simp [LexSpec.skipAtmos, hn, ih]

/-! ## `takeWhile` / `dropWhile` on a chunk followed by a delimiter -/

/-- `f` holds for no delimiter -/
def AvoidsDelims (f : Char → Bool) : Prop := ∀ c, isDelimiter c = true → f c = false

theorem tw_append (f : Char → Bool) (hf : AvoidsDelims f) (w rest : List Char)
    (hr : startsDelim rest = true) :
    (w ++ rest).takeWhile f = w.takeWhile f ∧ (w ++ rest).dropWhile f = w.dropWhile f ++ rest := by
  induction w with
  | nil =>
    cases rest with
    | nil => simp
    | cons d r => simp [startsDelim] at hr; simp [List.takeWhile, List.dropWhile, hf d hr]
  | cons c w ih =>
    by_cases hc : f c = true
    · simp [List.takeWhile, List.dropWhile, hc, ih.1, ih.2]
    · simp [List.takeWhile, List.dropWhile, hc]

theorem avoids_digit : AvoidsDelims isDigit := by
  intro c hc; cases h : isDigit c with
  | false => rfl
  | true => exact absurd hc (by rw [isDelimiter_of_not_mem (isDigit_ns h)]; simp)
theorem avoids_subsequent : AvoidsDelims isSubsequent := by
  intro c hc; cases h : isSubsequent c with
  | false => rfl
  | true => exact absurd hc (by rw [isDelimiter_of_not_mem (isSubsequent_ns h)]; simp)
theorem avoids_alnum : AvoidsDelims isAsciiAlnum := by
  intro c hc; cases h : isAsciiAlnum c with
  | false => rfl
  | true => exact absurd hc (by rw [isDelimiter_of_not_mem (isAsciiAlnum_ns h)]; simp)

/-- the head of `dropWhile f` does not satisfy `f` -/
theorem dropWhile_head (f : Char → Bool) (w : List Char) {x : Char} {tl : List Char}
    (h : w.dropWhile f = x :: tl) : f x = false := by
  induction w with
  | nil => simp at h
  | cons c w ih =>
    by_cases hc : f c = true
    · simp [List.dropWhile, hc] at h; exact ih h
    · simp [List.dropWhile, hc] at h; obtain ⟨rfl, -⟩ := h; simpa using hc

theorem dropWhile_nil_iff (f : Char → Bool) (w : List Char) :
    w.dropWhile f = [] ↔ w.all f = true := by
  induction w with
  | nil => simp
  | cons c w ih =>
    by_cases hc : f c = true
    · simp [List.dropWhile, hc, ih]
    · simp [List.dropWhile, hc]

theorem takeWhile_of_all (f : Char → Bool) (w : List Char) (h : w.all f = true) :
    w.takeWhile f = w := by
  induction w with
  | nil => rfl
  | cons c w ih =>
    simp only [List.all_cons, Bool.and_eq_true] at h
    simp [List.takeWhile, h.1, ih h.2]

theorem dropWhile_mem (f : Char → Bool) (w : List Char) : ∀ x ∈ w.dropWhile f, x ∈ w := by
  intro x hx
  have := List.dropWhile_sublist f (l := w)
  exact this.subset hx

/-- all characters of the chunk are non-delimiters -/
def Chunk (w : List Char) : Prop := ∀ c ∈ w, isDelimiter c = false

theorem Chunk.tail {c w} (h : Chunk (c :: w)) : Chunk w := fun x hx => h x (by simp [hx])
theorem Chunk.head {c w} (h : Chunk (c :: w)) : isDelimiter c = false := h c (by simp)
theorem Chunk.dropWhile {w} (f : Char → Bool) (h : Chunk w) : Chunk (w.dropWhile f) :=
  fun x hx => h x (dropWhile_mem f w x hx)
theorem Chunk.append_left {a b} (h : Chunk (a ++ b)) : Chunk a := fun x hx => h x (by simp [hx])
theorem Chunk.append_right {a b} (h : Chunk (a ++ b)) : Chunk b := fun x hx => h x (by simp [hx])

/-- after a chunk that is followed by a delimiter, `endOfToken` succeeds iff the chunk is used up -/
theorem endOfToken_chunk (w rest : List Char) (p : Pos) (hw : Chunk w)
    (hr : startsDelim rest = true) :
    endOfToken (w ++ rest) p = if w = [] then .ok () else .error p := by
  cases w with
  | nil => simp [endOfToken_eq, hr]
  | cons c w => simp [endOfToken, testDelimiter, hw.head]

/-- the same for the test the scanners make after a run: the next character, if any, must be a
delimiter -/
theorem startsDelim_chunk (w rest : List Char) (hw : Chunk w) (hr : startsDelim rest = true) :
    startsDelim (w ++ rest) = decide (w = []) := by
  cases w with
  | nil => simp [hr]
  | cons c w => simp [startsDelim, hw.head]


/-! ## identifiers -/

theorem delim_not_subsequent {d : Char} (h : isDelimiter d = true) : isSubsequent d = false :=
  avoids_subsequent d h

/-- after a run over a chunk: either the chunk is used up (and the text continues with `rest`), or
the run stopped at a non-delimiter -/
theorem run_cases (f : Char → Bool) (w rest : List Char) (hw : Chunk w) :
    (w.all f = true ∧ w.takeWhile f = w ∧ w.dropWhile f ++ rest = rest) ∨
    (w.all f = false ∧ ∃ x tl, w.dropWhile f ++ rest = x :: tl ∧ isDelimiter x = false ∧
      f x = false) := by
  cases h : w.dropWhile f with
  | nil =>
    have hall := (dropWhile_nil_iff f w).mp h
    exact Or.inl ⟨hall, takeWhile_of_all f w hall, by simp⟩
  | cons x tl =>
    have hx := dropWhile_head f w h
    have hd : isDelimiter x = false := hw x (dropWhile_mem f w x (by simp [h]))
    have hall : w.all f = false := by
      cases ha : w.all f with
      | false => rfl
      | true => rw [(dropWhile_nil_iff f w).mpr ha] at h; cases h
    exact Or.inr ⟨hall, x, tl ++ rest, by simp, hd, hx⟩

theorem normalIdentifier_chunk (first : Char) (w rest : List Char) (p : Pos) (hw : Chunk w)
    (hr : startsDelim rest = true) :
    forgetScan (normalIdentifier first (w ++ rest) p)
      = if w.all isSubsequent then .tok (.ident (String.ofList (first :: w))) rest else .error := by
  unfold normalIdentifier
  rw [takeRun_spec]
  simp only [(tw_append isSubsequent avoids_subsequent w rest hr).1,
    (tw_append isSubsequent avoids_subsequent w rest hr).2, List.reverse_nil, List.nil_append]
  rcases run_cases isSubsequent w rest hw with ⟨h1, h2, h3⟩ | ⟨h1, x, tl, h3, h4, -⟩
  · rw [h3, h2]
    cases rest with
    | nil => simp [h1, forgetScan]
    | cons d r =>
      simp only [startsDelim] at hr
      simp [h1, forgetScan, testDelimiter, hr, bind, Except.bind, pure, Except.pure]
  · rw [h3]
    simp [h1, forgetScan, testDelimiter, h4, bind, Except.bind]

/-- may the chunk `w` follow the first character of a peculiar identifier? -/
def dotOK : List Char → Bool
  | [] => true
  | c :: r => (c = '+' || c = '-' || c = '.' || c = '@' || isInitial c) && (c :: r).all isSubsequent

/-- result of a sub-scanner without positions -/
def forget3 {α} : Except LexErr (α × List Char × Pos) → Option (α × List Char)
  | .error _ => none
  | .ok (a, r, _) => some (a, r)

theorem delim_not_dotsub {d : Char} (h : isDelimiter d = true) :
    (d = '+' || d = '-' || d = '.' || d = '@' || isInitial d) = false := by
  have : specials.all (fun c => !(c = '+' || c = '-' || c = '.' || c = '@' || isInitial c)) = true := by
    decide
  cases hx : (d = '+' || d = '-' || d = '.' || d = '@' || isInitial d) with
  | false => rfl
  | true =>
    have hm := not_mem_specials_of_class
      (fun c => (c = '+' || c = '-' || c = '.' || c = '@' || isInitial c)) this (c := d) hx
    rw [isDelimiter_of_not_mem hm] at h; cases h

theorem dotSubsequent_chunk (acc w rest : List Char) (p : Pos) (hw : Chunk w)
    (hr : startsDelim rest = true) :
    forget3 (dotSubsequent acc (w ++ rest) p)
      = if dotOK w then some (acc ++ w, rest) else none := by
  cases w with
  | nil =>
    cases rest with
    | nil => simp [dotSubsequent, dotOK, forget3]
    | cons d r =>
      simp only [startsDelim] at hr
      have := delim_not_dotsub hr
      simp only [List.nil_append, dotSubsequent, this]
      simp [testDelimiter, hr, bind, Except.bind, pure, Except.pure, forget3, dotOK]
  | cons c w =>
    have hc : isDelimiter c = false := hw.head
    simp only [List.cons_append, dotSubsequent]
    by_cases h : (c = '+' || c = '-' || c = '.' || c = '@' || isInitial c) = true
    · rw [if_pos h, takeRun_spec]
      have e := tw_append isSubsequent avoids_subsequent (c :: w) rest hr
      simp only [List.cons_append] at e
      simp only [e.1, e.2, List.reverse_nil, List.nil_append]
      rcases run_cases isSubsequent (c :: w) rest hw with ⟨h1, h2, h3⟩ | ⟨h1, x, tl, h3, h4, -⟩
      · rw [h3, h2]
        cases rest with
        | nil => simp [h1, forget3, dotOK, h]
        | cons d r =>
          simp only [startsDelim] at hr
          simp [h1, forget3, dotOK, h, testDelimiter, hr, bind, Except.bind, pure, Except.pure]
      · rw [h3]
        simp [h1, forget3, dotOK, testDelimiter, h4, bind, Except.bind]
    · rw [if_neg h]
      simp only [Bool.not_eq_true] at h
      simp [testDelimiter, hc, bind, Except.bind, forget3, dotOK, h]

theorem forgetScan_bind_ident (x : Except LexErr (List Char × List Char × Pos)) :
    forgetScan (x >>= fun r => pure (Token.ident (String.ofList r.1), r.2.1, r.2.2))
      = match forget3 x with
        | some (s, rest) => .tok (.ident (String.ofList s)) rest
        | none => .error := by
  cases x with
  | error e => rfl
  | ok r => obtain ⟨a, b, c⟩ := r; rfl

theorem peculiarIdentifier_chunk (first : Char) (w rest : List Char) (p : Pos) (hw : Chunk w)
    (hr : startsDelim rest = true)
    (hdot : (first = '+' ∨ first = '-') → w.head? ≠ some '.') :
    forgetScan (peculiarIdentifier first (w ++ rest) p)
      = if dotOK w then .tok (.ident (String.ofList (first :: w))) rest else .error := by
  have key : forgetScan (do
        let (s, cs2, p2) ← dotSubsequent [first] (w ++ rest) p
        pure (Token.ident (String.ofList s), cs2, p2))
      = if dotOK w then .tok (.ident (String.ofList (first :: w))) rest else .error := by
    have := forgetScan_bind_ident (dotSubsequent [first] (w ++ rest) p)
    rw [dotSubsequent_chunk [first] w rest p hw hr] at this
    rw [show (do
        let (s, cs2, p2) ← dotSubsequent [first] (w ++ rest) p
        pure (Token.ident (String.ofList s), cs2, p2))
        = (dotSubsequent [first] (w ++ rest) p >>= fun r =>
            pure (Token.ident (String.ofList r.1), r.2.1, r.2.2)) from rfl, this]
    cases dotOK w <;> simp
  unfold peculiarIdentifier
  by_cases hs : (first = '+' || first = '-') = true
  · rw [if_pos hs]
    have hs' : first = '+' ∨ first = '-' := by simpa using hs
    cases hcs : w ++ rest with
    | nil =>
      have : w = [] := by cases w <;> simp_all
      subst this
      simp only [List.nil_append] at hcs
      subst hcs
      simp [forgetScan, dotOK]
    | cons c cs1 =>
      have hc : c ≠ '.' := by
        intro e; subst e
        cases w with
        | nil =>
          simp only [List.nil_append] at hcs; subst hcs
          simp [startsDelim, isDelimiter, isWs] at hr
        | cons x w =>
          simp only [List.cons_append, List.cons.injEq] at hcs
          exact hdot hs' (by simp [hcs.1])
      simp only [hc, if_false]
      rw [← hcs]
      exact key
  · rw [if_neg hs]; exact key


/-! ## numbers: what the scanners do on a chunk -/

/-- the optional sign at the head -/
def signPart : List Char → List Char
  | [] => []
  | c :: _ => if c = '+' || c = '-' then [c] else []

theorem signPart_unsigned (r : List Char) : signPart r ++ LexSpec.unsigned r = r := by
  cases r with
  | nil => rfl
  | cons c r => simp only [signPart, LexSpec.unsigned]; split <;> simp

theorem delim_not_digit {d : Char} (h : isDelimiter d = true) : isDigit d = false := avoids_digit d h

theorem delim_not_sign {d : Char} (h : isDelimiter d = true) : (d = '+' || d = '-') = false := by
  have := delim_not_dotsub h
  simp only [Bool.or_eq_false_iff] at this ⊢
  exact ⟨this.1.1.1.1, this.1.1.1.2⟩

theorem numberSuffix_chunk (lit r rest : List Char) (p : Pos) (hr : Chunk r)
    (hd : startsDelim rest = true) :
    (numberSuffix lit ('e' :: (r ++ rest)) p).1
        = lit ++ 'e' :: (signPart r ++ (LexSpec.unsigned r).takeWhile isDigit) ∧
      (numberSuffix lit ('e' :: (r ++ rest)) p).2.1
        = (LexSpec.unsigned r).dropWhile isDigit ++ rest := by
  cases r with
  | nil =>
    cases rest with
    | nil => simp [numberSuffix, takeRun, signPart, LexSpec.unsigned]
    | cons d rest' =>
      simp only [startsDelim] at hd
      simp only [numberSuffix, List.nil_append, delim_not_sign hd]
      simp [signPart, LexSpec.unsigned, takeRun, delim_not_digit hd]
  | cons s r' =>
    by_cases hs : (s = '+' || s = '-') = true
    · simp only [numberSuffix, List.cons_append, hs, if_true, takeRun_spec,
        (tw_append isDigit avoids_digit r' rest hd).1, (tw_append isDigit avoids_digit r' rest hd).2,
        signPart, LexSpec.unsigned]
      simp
    · have e := tw_append isDigit avoids_digit (s :: r') rest hd
      simp only [List.cons_append] at e
      simp only [numberSuffix, List.cons_append, hs, takeRun_spec, signPart,
        LexSpec.unsigned]
      simp [e.1, e.2]

/-- the exponent part is scanned to the end of the chunk iff it is `e sign? digits*` -/
theorem suffix_forget (lit r rest : List Char) (p : Pos) (hr : Chunk r)
    (hd : startsDelim rest = true) :
    forget3 (match numberSuffix lit ('e' :: (r ++ rest)) p with
      | (lit', cs2, p2) => do endOfToken cs2 p2; pure (lit', cs2, p2))
      = if (LexSpec.unsigned r).all isDigit then some (lit ++ 'e' :: r, rest) else none := by
  obtain ⟨h1, h2⟩ := numberSuffix_chunk lit r rest p hr hd
  generalize numberSuffix lit ('e' :: (r ++ rest)) p = x at h1 h2
  obtain ⟨l', c', p2⟩ := x
  simp only at h1 h2
  subst h1 h2
  have hu : Chunk (LexSpec.unsigned r) := by
    intro x hx; apply hr x
    rw [← signPart_unsigned r]; simp [hx]
  simp only
  rw [endOfToken_chunk _ rest p2 (hu.dropWhile isDigit) hd]
  by_cases ha : (LexSpec.unsigned r).all isDigit = true
  · rw [(dropWhile_nil_iff isDigit _).mpr ha, takeWhile_of_all isDigit _ ha, signPart_unsigned]
    simp [ha, forget3, bind, Except.bind, pure, Except.pure]
  · have : List.dropWhile isDigit (LexSpec.unsigned r) ≠ [] := by
      intro e; exact ha ((dropWhile_nil_iff isDigit _).mp e)
    simp [ha, this, forget3, bind, Except.bind]


theorem delim_ne {d : Char} (h : isDelimiter d = true) : d ≠ 'e' ∧ d ≠ '.' ∧ d ≠ '/' := by
  refine ⟨?_, ?_, ?_⟩ <;> (rintro rfl; revert h; decide)

/-- what may follow the dot of a decimal inside a chunk: `digits* (e sign? digits*)?` -/
def realTailOK (r : List Char) : Bool :=
  match r.dropWhile isDigit with
  | [] => true
  | c :: r' => c = 'e' && (LexSpec.unsigned r').all isDigit

theorem real_forget (lit r rest : List Char) (p : Pos) (hr : Chunk r)
    (hd : startsDelim rest = true) :
    forget3 (real lit ('.' :: (r ++ rest)) p)
      = if realTailOK r then some (lit ++ '.' :: r, rest) else none := by
  unfold real
  cases r with
  | nil =>
    cases rest with
    | nil => simp [forget3, realTailOK]
    | cons d rest' =>
      simp only [startsDelim] at hd
      simp [forget3, realTailOK, (delim_ne hd).1, delim_not_digit hd, testDelimiter, hd, bind,
        Except.bind, pure, Except.pure]
  | cons c r' =>
    simp only [List.cons_append]
    by_cases hce : c = 'e'
    · subst hce
      simp only [if_true]
      have := suffix_forget (lit ++ ['.']) r' rest (adv '.' p) hr.tail hd
      rw [this]
      simp [realTailOK, List.dropWhile, isDigit]
    · simp only [hce, if_false]
      by_cases hcd : isDigit c = true
      · simp only [hcd, if_true, takeRun_spec, List.reverse_nil, List.nil_append]
        have e := tw_append isDigit avoids_digit (c :: r') rest hd
        simp only [List.cons_append] at e
        rw [e.1, e.2]
        have hsplit := List.takeWhile_append_dropWhile (p := isDigit) (l := c :: r')
        cases hex : (c :: r').dropWhile isDigit with
        | nil =>
          have hall := (dropWhile_nil_iff isDigit _).mp hex
          rw [takeWhile_of_all isDigit _ hall]
          simp only [List.nil_append]
          cases rest with
          | nil => simp [forget3, realTailOK, hex]
          | cons d rest' =>
            simp only [startsDelim] at hd
            simp [forget3, realTailOK, hex, (delim_ne hd).1, testDelimiter, hd, bind, Except.bind,
              pure, Except.pure]
        | cons x tl =>
          have hxc : Chunk (x :: tl) := by rw [← hex]; exact hr.dropWhile isDigit
          rw [hex] at hsplit
          simp only [List.cons_append]
          by_cases hxe : x = 'e'
          · subst hxe
            simp only [if_true]
            have := suffix_forget (lit ++ ['.'] ++ (c :: r').takeWhile isDigit) tl rest
              (advs ((c :: r').takeWhile isDigit) (adv '.' p)) hxc.tail hd
            rw [this]
            simp only [realTailOK, hex, decide_true, Bool.true_and]
            split
            · simp only [List.append_assoc, List.cons_append, List.nil_append]
              rw [hsplit]
            · rfl
          · simp [hxe, forget3, realTailOK, hex, testDelimiter, hxc.head, bind, Except.bind]
      · have hdc : isDelimiter c = false := hr.head
        have hdw : (c :: r').dropWhile isDigit = c :: r' := by simp [List.dropWhile, hcd]
        simp [hcd, forget3, realTailOK, hdw, hce, testDelimiter, hdc, bind, Except.bind]


/-- the outcome of `number` on a chunk `first :: w`, as a function of the chunk alone -/
def numModel (first : Char) (w : List Char) : Option Token :=
  match w.dropWhile isDigit with
  | [] => (parseI32? (first :: w)).map (fun i => .prim (.int i))
  | c :: r =>
    if c = 'e' then
      if (LexSpec.unsigned r).all isDigit && validReal (first :: w) then
        some (.prim (.real (String.ofList (first :: w)))) else none
    else if c = '.' then
      if realTailOK r && validReal (first :: w) then
        some (.prim (.real (String.ofList (first :: w)))) else none
    else if c = '/' then
      if r.all isDigit then
        match parseI32? (first :: w.takeWhile isDigit), parseU32? r with
        | some _, some 0 => none
        | some a, some b => some (.prim (.rat a b))
        | _, _ => none
      else none
    else none

def realOf (o : Option (List Char × List Char)) : LexSpec.Step :=
  match o with
  | some (l, c) => if validReal l then .tok (.prim (.real (String.ofList l))) c else .error
  | none => .error

theorem realToken_after_end (l c : List Char) (q : Pos) :
    forgetScan (do endOfToken c q; realToken l c q)
      = realOf (forget3 (do endOfToken c q; pure (l, c, q))) := by
  cases h : endOfToken c q with
  | error e => rfl
  | ok u =>
    simp only [bind, Except.bind, pure, Except.pure, forget3, realOf, realToken]
    split <;> rfl

theorem realToken_after_bind (y : Except LexErr (List Char × List Char × Pos)) :
    forgetScan (y >>= fun x => realToken x.1 x.2.1 x.2.2) = realOf (forget3 y) := by
  cases y with
  | error e => rfl
  | ok x =>
    obtain ⟨l, c, q⟩ := x
    simp only [bind, Except.bind, forget3, realOf, realToken]
    split <;> rfl

theorem integerToken_forget (lit cs : List Char) (p : Pos) :
    forgetScan (integerToken lit cs p)
      = LexSpec.ofClass ((parseI32? lit).map (fun i => .prim (.int i))) cs := by
  unfold integerToken
  cases parseI32? lit <;> rfl

theorem number_chunk (first : Char) (w rest : List Char) (p : Pos) (hw : Chunk w)
    (hd : startsDelim rest = true) :
    forgetScan (number first (w ++ rest) p) = LexSpec.ofClass (numModel first w) rest := by
  unfold number
  rw [takeRun_spec]
  simp only [(tw_append isDigit avoids_digit w rest hd).1,
    (tw_append isDigit avoids_digit w rest hd).2, List.reverse_nil, List.nil_append]
  have hsplit := List.takeWhile_append_dropWhile (p := isDigit) (l := w)
  cases hex : w.dropWhile isDigit with
  | nil =>
    have hall := (dropWhile_nil_iff isDigit _).mp hex
    rw [takeWhile_of_all isDigit _ hall]
    simp only [List.nil_append, numModel, hex]
    cases rest with
    | nil => simp only; exact integerToken_forget _ _ _
    | cons d rest' =>
      simp only [startsDelim] at hd
      simp only [(delim_ne hd).1, (delim_ne hd).2.1, (delim_ne hd).2.2, if_false, testDelimiter, hd,
        if_true]
      exact integerToken_forget _ _ _
  | cons x tl =>
    have hxc : Chunk (x :: tl) := by rw [← hex]; exact hw.dropWhile isDigit
    rw [hex] at hsplit
    simp only [List.cons_append, numModel, hex]
    by_cases hxe : x = 'e'
    · subst hxe
      simp only [if_true]
      have h1 := suffix_forget (first :: w.takeWhile isDigit) tl rest (advs (w.takeWhile isDigit) p)
        hxc.tail hd
      generalize numberSuffix (first :: w.takeWhile isDigit) ('e' :: (tl ++ rest))
        (advs (w.takeWhile isDigit) p) = y at h1
      obtain ⟨l, c, q⟩ := y
      simp only at h1 ⊢
      rw [realToken_after_end, h1]
      simp only [List.cons_append, hsplit]
      cases (LexSpec.unsigned tl).all isDigit <;> cases hv : validReal (first :: w) <;>
        simp [realOf, hv, LexSpec.ofClass]
    · simp only [hxe, if_false]
      by_cases hxd : x = '.'
      · subst hxd
        simp only [if_true]
        have h1 := real_forget (first :: w.takeWhile isDigit) tl rest (advs (w.takeWhile isDigit) p)
          hxc.tail hd
        rw [show (do
            let (lit, cs2, p2) ← real (first :: w.takeWhile isDigit) ('.' :: (tl ++ rest))
              (advs (w.takeWhile isDigit) p)
            realToken lit cs2 p2)
          = (real (first :: w.takeWhile isDigit) ('.' :: (tl ++ rest))
              (advs (w.takeWhile isDigit) p) >>= fun x => realToken x.1 x.2.1 x.2.2) from rfl,
          realToken_after_bind, h1]
        simp only [List.cons_append, hsplit]
        cases realTailOK tl <;> cases hv : validReal (first :: w) <;>
          simp [realOf, hv, LexSpec.ofClass]
      · simp only [hxd, if_false]
        by_cases hxs : x = '/'
        · subst hxs
          simp only [if_true, takeRun_spec, List.reverse_nil, List.nil_append,
            (tw_append isDigit avoids_digit tl rest hd).1,
            (tw_append isDigit avoids_digit tl rest hd).2]
          rw [endOfToken_chunk _ rest _ (hxc.tail.dropWhile isDigit) hd]
          by_cases ha : tl.all isDigit = true
          · rw [(dropWhile_nil_iff isDigit _).mpr ha, takeWhile_of_all isDigit _ ha]
            simp only [if_true, ha, bind, Except.bind, List.nil_append]
            split <;> simp_all [forgetScan, LexSpec.ofClass, pure, Except.pure]
          · have : List.dropWhile isDigit tl ≠ [] := by
              intro e; exact ha ((dropWhile_nil_iff isDigit _).mp e)
            simp [ha, this, forgetScan, LexSpec.ofClass, bind, Except.bind]
        · simp [hxs, forgetScan, LexSpec.ofClass, testDelimiter, hxc.head, bind, Except.bind]


/-! ## numbers: the chunk classification -/

theorem validReal_unsigned (t : List Char) : validReal t = validBody (LexSpec.unsigned t) := by
  rw [validReal_eq]
  congr 1
  cases t with
  | nil => rfl
  | cons c r =>
    simp only [LexSpec.unsigned]
    split
    · rename_i heq
      simp only [List.cons.injEq] at heq
      obtain ⟨rfl, rfl⟩ := heq
      simp
    · rename_i heq
      simp only [List.cons.injEq] at heq
      obtain ⟨rfl, rfl⟩ := heq
      simp
    · rename_i h1 h2
      have : ¬ (c = '+' || c = '-') = true := by
        simp only [Bool.or_eq_true, decide_eq_true_eq, not_or]
        exact ⟨fun e => h2 r (by rw [e]), fun e => h1 r (by rw [e])⟩
      simp [this]

theorem natVal_eq (ds : List Char) : LexSpec.natVal ds = digitsVal ds := rfl

theorem parseI32_unsigned (t : List Char) :
    parseI32? t =
      if (LexSpec.unsigned t).isEmpty || !((LexSpec.unsigned t).all isDigit) then none
      else if fitsI32 (LexSpec.signedVal (t.head? = some '-') (LexSpec.unsigned t)) then
        some (LexSpec.signedVal (t.head? = some '-') (LexSpec.unsigned t))
      else none := by
  cases t with
  | nil => rfl
  | cons c r =>
    unfold parseI32?
    split
    rename_i heq
    have key : ∀ (neg : Bool) (ds : List Char), neg = decide (c = '-') →
        ds = LexSpec.unsigned (c :: r) →
        (if (ds.isEmpty || !ds.all isDigit) = true then none
          else
            have v : Int := ↑(digitsVal ds);
            have v := if neg = true then -v else v;
            if fitsI32 v = true then some v else none) =
        if ((LexSpec.unsigned (c :: r)).isEmpty || !(LexSpec.unsigned (c :: r)).all isDigit) = true
        then none
        else
          if fitsI32 (LexSpec.signedVal (decide ((c :: r).head? = some '-'))
              (LexSpec.unsigned (c :: r))) = true then
            some (LexSpec.signedVal (decide ((c :: r).head? = some '-')) (LexSpec.unsigned (c :: r)))
          else none := by
      intro neg ds h1 h2
      subst h1 h2
      simp [LexSpec.signedVal, natVal_eq]
    split at heq
    · rename_i h
      simp only [List.cons.injEq] at h
      obtain ⟨rfl, rfl⟩ := h
      simp only [Prod.mk.injEq] at heq
      exact key _ _ (by simp [← heq.1]) (by simp [← heq.2, LexSpec.unsigned])
    · rename_i h
      simp only [List.cons.injEq] at h
      obtain ⟨rfl, rfl⟩ := h
      simp only [Prod.mk.injEq] at heq
      exact key _ _ (by simp [← heq.1]) (by simp [← heq.2, LexSpec.unsigned])
    · rename_i h1 h2
      have hm : c ≠ '-' := fun e => h1 r (by rw [e])
      have hp : c ≠ '+' := fun e => h2 r (by rw [e])
      simp only [Prod.mk.injEq] at heq
      exact key _ _ (by simp [← heq.1, hm]) (by simp [← heq.2, LexSpec.unsigned, hm, hp])

theorem parseU32_eq (r : List Char) :
    parseU32? r = if LexSpec.isDigits r && decide (LexSpec.natVal r ≤ 4294967295) then
      some (LexSpec.natVal r) else none := by
  unfold parseU32? LexSpec.isDigits
  rw [isDigit_fun]
  by_cases h1 : r.isEmpty = true <;> by_cases h2 : r.all isDigit = true <;>
    by_cases h3 : digitsVal r ≤ 4294967295 <;> simp [h1, h2, h3, natVal_eq]


/-- `e sign? digits+`, or nothing -/
def expOK : List Char → Bool
  | [] => true
  | c :: r => c = 'e' && !(LexSpec.unsigned r).isEmpty && (LexSpec.unsigned r).all isDigit

/-- `validBody` in terms of the integer part and what follows it -/
def vb2 (ip tl : List Char) : Bool :=
  match tl with
  | [] => !ip.isEmpty
  | c :: r =>
    if c = '.' then !(ip.isEmpty && (r.takeWhile isDigit).isEmpty) && expOK (r.dropWhile isDigit)
    else !ip.isEmpty && expOK (c :: r)

theorem vb_m1 (c : Char) (r : List Char) (hc : c ≠ '.') :
    validBody.match_1 (fun _ => List Char × List Char) (c :: r)
      (fun r => (List.takeWhile isDigit r, List.dropWhile isDigit r)) (fun r => ([], r))
      = ([], c :: r) := by
  split
  · rename_i h'; simp only [List.cons.injEq] at h'; exact absurd h'.1 hc
  · rfl

theorem vb_m4 (r : List Char) :
    validBody.match_4 (fun _ => List Char) r (fun r' => r') (fun r' => r') (fun r' => r')
      = LexSpec.unsigned r := by
  split
  · simp [LexSpec.unsigned]
  · simp [LexSpec.unsigned]
  · rename_i h1 h2
    cases r with
    | nil => simp [LexSpec.unsigned]
    | cons c r =>
      have hm : c ≠ '-' := fun e => h1 r (by rw [e])
      have hp : c ≠ '+' := fun e => h2 r (by rw [e])
      simp [LexSpec.unsigned, hm, hp]

theorem validBody_split (t : List Char) :
    validBody t = vb2 (t.takeWhile isDigit) (t.dropWhile isDigit) := by
  unfold validBody
  simp only [vb_m4]
  generalize t.takeWhile isDigit = ip
  generalize t.dropWhile isDigit = tl
  cases tl with
  | nil => simp [vb2]
  | cons c r =>
    by_cases hc : c = '.'
    · subst hc
      simp only [vb2, if_true]
      cases hex : r.dropWhile isDigit with
      | nil => simp [expOK]
      | cons x ex =>
        by_cases hx : x = 'e'
        · subst hx
          simp [expOK, Bool.and_assoc]
        · simp only [expOK, hx, decide_false, Bool.false_and, Bool.and_false]
          split
          · rename_i h; cases h
          · rename_i h; simp only [List.cons.injEq] at h; exact absurd h.1 hx
          · rfl
    · simp only [vb2, hc, if_false, vb_m1 c r hc]
      by_cases hce : c = 'e'
      · subst hce
        simp [expOK, Bool.and_assoc]
      · have hfalse : expOK (c :: r) = false := by simp [expOK, hce]
        rw [hfalse, Bool.and_false]
        split
        · rename_i h; cases h
        · rename_i h; simp only [List.cons.injEq] at h; exact absurd h.1 hce
        · rfl

theorem digit_not_sign {c : Char} (h : isDigit c = true) : c ≠ '+' ∧ c ≠ '-' := by
  constructor <;> (rintro rfl; revert h; decide)

theorem numModel_eq (first : Char) (w : List Char)
    (hfirst : isDigit first = true ∨ first = '+' ∨ first = '-') :
    numModel first w = LexSpec.classifyNumber (first :: w) := by
  obtain ⟨pre, hb, hpre, hsg⟩ : ∃ pre, (∀ t, LexSpec.unsigned (first :: t) = pre ++ t) ∧
      pre.all isDigit = true ∧ (LexSpec.isSigned (first :: w) = true ∨ pre ≠ []) := by
    rcases hfirst with h | h | h
    · refine ⟨[first], ?_, by simp [h], Or.inr (by simp)⟩
      intro t; simp [LexSpec.unsigned, (digit_not_sign h).1, (digit_not_sign h).2]
    · subst h; exact ⟨[], fun t => rfl, rfl, Or.inl rfl⟩
    · subst h; exact ⟨[], fun t => rfl, rfl, Or.inl rfl⟩
  have hpre' : ∀ a ∈ pre, isDigit a = true := by simpa using hpre
  have htw : ∀ t, (pre ++ t).takeWhile isDigit = pre ++ t.takeWhile isDigit :=
    fun t => List.takeWhile_append_of_pos hpre'
  have hdw : ∀ t, (pre ++ t).dropWhile isDigit = t.dropWhile isDigit :=
    fun t => List.dropWhile_append_of_pos hpre'
  unfold numModel LexSpec.classifyNumber
  simp only [isDigit_fun, hb, htw, hdw]
  cases hex : w.dropWhile isDigit with
  | nil =>
    have hall := (dropWhile_nil_iff isDigit _).mp hex
    simp only [takeWhile_of_all isDigit _ hall]
    rw [parseI32_unsigned, hb]
    simp only [List.all_append, hpre, hall, Bool.and_self, Bool.not_true, Bool.or_false]
    cases hemp : (pre ++ w).isEmpty <;> simp
  | cons c r =>
    simp only [validReal_unsigned, hb, validBody_split, htw, hdw, hex, parseI32_unsigned,
      parseU32_eq]
    have hne : (pre ++ List.takeWhile isDigit w).isEmpty = false ∨
        LexSpec.isSigned (first :: w) = true := by
      rcases hsg with h | h
      · exact Or.inr h
      · left; cases pre with
        | nil => exact absurd rfl h
        | cons a b => rfl
    by_cases hce : c = 'e'
    · subst hce
      simp [vb2, expOK, LexSpec.isExponent, LexSpec.isDigits, isDigit_fun]
      grind
    · by_cases hcd : c = '.'
      · subst hcd
        have hne' : (pre = [] → ¬List.takeWhile isDigit w = []) ∨
            LexSpec.isSigned (first :: w) = true := by
          rcases hne with h | h
          · left; simpa using h
          · exact Or.inr h
        cases hex2 : r.dropWhile isDigit with
        | nil =>
          simp [vb2, expOK, LexSpec.isDigits, isDigit_fun, realTailOK, hex2]
          grind
        | cons x ex =>
          simp [vb2, expOK, LexSpec.isExponent, LexSpec.isDigits, isDigit_fun, realTailOK, hex2]
          grind
      · by_cases hcs : c = '/'
        · subst hcs
          simp only [LexSpec.isDigits, isDigit_fun]
          have hx : ((pre ++ List.takeWhile isDigit w).all isDigit) = true := by
            simp only [List.all_append, hpre, Bool.true_and]
            simp
          simp only [hx, Bool.not_true, Bool.or_false]
          generalize hv0 : LexSpec.signedVal
            (decide ((first :: List.takeWhile isDigit w).head? = some '-'))
            (pre ++ List.takeWhile isDigit w) = v
          have hv : LexSpec.signedVal (decide ((first :: w).head? = some '-'))
              (pre ++ List.takeWhile isDigit w) = v := by
            rw [← hv0]; rfl
          rw [hv]
          generalize LexSpec.natVal r = n
          cases (pre ++ List.takeWhile isDigit w).isEmpty <;> cases r.isEmpty <;>
            cases r.all isDigit <;> cases fitsI32 v <;> rcases n with _ | n <;>
            simp
          by_cases hle : n ≤ 4294967294 <;> simp [hle]
        · simp [vb2, expOK, LexSpec.isExponent, LexSpec.isDigits, isDigit_fun, hce, hcd, hcs]


/-! ## word chunks: numbers, identifiers, the period -/

/-- a chunk whose unsigned part does not start with a digit or a dot is no number -/
theorem classifyNumber_none (t : List Char)
    (h : LexSpec.unsigned t = [] ∨ ∃ c r, LexSpec.unsigned t = c :: r ∧ isDigit c = false ∧ c ≠ '.') :
    LexSpec.classifyNumber t = none := by
  unfold LexSpec.classifyNumber
  simp only [isDigit_fun]
  rcases h with h | ⟨c, r, h, hd, hdot⟩
  · simp [h]
  · simp only [h, List.takeWhile, List.dropWhile, hd]
    by_cases hs : c = '/'
    · simp [hs]
    · simp [hs, hdot]

/-- a chunk that starts with the dot is no number -/
theorem classifyNumber_dot (w : List Char) : LexSpec.classifyNumber ('.' :: w) = none := by
  unfold LexSpec.classifyNumber
  simp [isDigit_fun, LexSpec.unsigned, List.takeWhile, List.dropWhile, isDigit, LexSpec.isSigned]

theorem isIdentStart_eq (c : Char) :
    LexSpec.isIdentStart c = !(isDigit c || isDelimiter c || c = '+' || c = '-' || c = '.' || c = '#'
      || c = '\'' || c = '`' || c = ',') := by
  simp [LexSpec.isIdentStart, Char_isDigit_eq, isDelim_eq, Bool.or_assoc]

theorem classifyIdent_dotOK (first : Char) (w : List Char)
    (hf : first = '+' ∨ first = '-' ∨ first = '.')
    (hdot : (first = '+' ∨ first = '-') → w.head? ≠ some '.')
    (hne : first = '.' → w ≠ []) :
    LexSpec.classifyIdent (first :: w)
      = if dotOK w then some (.ident (String.ofList (first :: w))) else none := by
  unfold LexSpec.classifyIdent
  simp only [isSubsequent_fun, LexSpec.isSignSubsequent, isInitial_eq]
  cases w with
  | nil =>
    rcases hf with rfl | rfl | rfl
    · simp [dotOK]
    · simp [dotOK]
    · exact absurd rfl (hne rfl)
  | cons d r =>
    rcases hf with rfl | rfl | rfl
    · have : d ≠ '.' := fun e => hdot (Or.inl rfl) (by simp [e])
      simp only [dotOK, this]
      simp
      grind
    · have : d ≠ '.' := fun e => hdot (Or.inr rfl) (by simp [e])
      simp only [dotOK, this]
      simp
      grind
    · simp only [dotOK]
      simp
      grind


theorem classify_word (c : Char) (w : List Char) (h5 : c ≠ '#') (hp : ¬ (c = '.' ∧ w = [])) :
    LexSpec.classify (c :: w)
      = (LexSpec.classifyNumber (c :: w)).orElse fun _ => LexSpec.classifyIdent (c :: w) := by
  unfold LexSpec.classify
  simp only [h5, if_false]
  have : (c = '.' && w.isEmpty) = false := by
    cases w with
    | nil => simp at hp; simp [hp]
    | cons x r => simp
  simp [this]

theorem word_eq (c : Char) (w' rest : List Char) (p : Pos) (hw : Chunk (c :: w'))
    (hd : startsDelim rest = true) (h1 : c ≠ '(') (h2 : c ≠ ')') (h3 : c ≠ '\'') (h4 : c ≠ '`')
    (h5 : c ≠ '#') (h6 : c ≠ ',') (h9 : c ≠ '"') (h11 : c ≠ '|') :
    forget (token (c :: (w' ++ rest)) p)
      = LexSpec.ofClass (LexSpec.classify (c :: w')) rest := by
  have hcd : isDelimiter c = false := hw.head
  rw [token.eq_def]
  simp only [h1, h2, h3, h4, h5, h6, if_false]
  by_cases h7 : c = '.'
  · subst h7
    simp only [if_true]
    cases w' with
    | nil =>
      simp only [List.nil_append]
      cases rest with
      | nil => simp [forget, LexSpec.classify, LexSpec.ofClass]
      | cons d r =>
        simp only [startsDelim] at hd
        simp [forget, hd, LexSpec.classify, LexSpec.ofClass]
    | cons x r =>
      have hx : isDelimiter x = false := hw.tail.head
      simp only [List.cons_append, hx, Bool.false_eq_true, if_false, forget_map]
      have := peculiarIdentifier_chunk '.' (x :: r) rest (adv '.' p) hw.tail hd (by simp)
      simp only [List.cons_append] at this
      rw [this, classify_word _ _ (by decide) (by simp), classifyNumber_dot,
        classifyIdent_dotOK '.' (x :: r) (by simp) (by simp) (by simp)]
      cases dotOK (x :: r) <;> rfl
  · simp only [h7, if_false]
    by_cases h8 : (c = '+' || c = '-') = true
    · simp only [h8, if_true]
      have hs : c = '+' ∨ c = '-' := by simpa using h8
      have hf3 : c = '+' ∨ c = '-' ∨ c = '.' := by rcases hs with h | h <;> simp [h]
      have hpec : ∀ (hdot : w'.head? ≠ some '.')
          (hnum : LexSpec.classifyNumber (c :: w') = none),
          forget ((peculiarIdentifier c (w' ++ rest) (adv c p)).map some)
            = LexSpec.ofClass (LexSpec.classify (c :: w')) rest := by
        intro hdot hnum
        rw [forget_map, peculiarIdentifier_chunk c w' rest (adv c p) hw.tail hd (fun _ => hdot),
          classify_word _ _ h5 (by simp [h7]), hnum,
          classifyIdent_dotOK c w' hf3 (fun _ => hdot) (fun e => absurd e h7)]
        cases dotOK w' <;> simp [LexSpec.ofClass, Option.orElse]
      cases w' with
      | nil =>
        have hnum : LexSpec.classifyNumber [c] = none :=
          classifyNumber_none _ (Or.inl (by simp [LexSpec.unsigned, h8]))
        cases rest with
        | nil => exact hpec (by simp) hnum
        | cons d r =>
          simp only [startsDelim] at hd
          simp only [List.nil_append, delim_not_digit hd, (delim_ne hd).2.1, decide_false,
            Bool.or_self, Bool.false_eq_true, if_false]
          exact hpec (by simp) hnum
      | cons x r =>
        simp only [List.cons_append]
        by_cases hx : (isDigit x || x = '.') = true
        · simp only [hx, if_true, forget_map]
          have := number_chunk c (x :: r) rest (adv c p) hw.tail hd
          simp only [List.cons_append] at this
          rw [this, numModel_eq c (x :: r) (Or.inr hs), classify_word _ _ h5 (by simp)]
          have hid : LexSpec.classifyIdent (c :: x :: r) = none := by
            have hss : LexSpec.isSignSubsequent x = false := by
              simp only [LexSpec.isSignSubsequent, isInitial_eq]
              simp only [Bool.or_eq_true, decide_eq_true_eq] at hx
              rcases hx with hx | hx
              · have h1 := isInitial_not_digit (c := x)
                have h2 := digit_not_sign hx
                cases hi : isInitial x with
                | true => rw [h1 hi] at hx; cases hx
                | false =>
                  have : x ≠ '@' := by rintro rfl; revert hx; decide
                  simp [h2.1, h2.2, this]
              · subst hx; decide
            unfold LexSpec.classifyIdent
            simp [h8, hss]
          cases LexSpec.classifyNumber (c :: x :: r) <;> simp [hid, LexSpec.ofClass, Option.orElse]
        · simp only [hx, if_false]
          have hx' : isDigit x = false ∧ x ≠ '.' := by
            simp only [Bool.or_eq_true, decide_eq_true_eq, not_or, Bool.not_eq_true] at hx
            exact hx
          exact hpec (by simp [hx'.2])
            (classifyNumber_none _ (Or.inr ⟨x, r, by simp [LexSpec.unsigned, h8], hx'.1, hx'.2⟩))
    · simp only [h8, Bool.false_eq_true, if_false, h9, h11]
      have hns : c ≠ '+' ∧ c ≠ '-' := by
        simp only [Bool.or_eq_true, decide_eq_true_eq, not_or] at h8; exact h8
      by_cases h10 : isDigit c = true
      · simp only [h10, if_true, forget_map]
        rw [number_chunk c w' rest (adv c p) hw.tail hd, numModel_eq c w' (Or.inl h10),
          classify_word _ _ h5 (by simp [h7])]
        have hid : LexSpec.classifyIdent (c :: w') = none := by
          unfold LexSpec.classifyIdent
          simp [h8, h7, isIdentStart_eq, h10]
        cases LexSpec.classifyNumber (c :: w') <;> simp [hid, LexSpec.ofClass, Option.orElse]
      · simp only [h10, Bool.false_eq_true, if_false, forget_map]
        have h10' : isDigit c = false := by simpa using h10
        rw [normalIdentifier_chunk c w' rest (adv c p) hw.tail hd,
          classify_word _ _ h5 (by simp [h7]),
          classifyNumber_none _ (Or.inr ⟨c, w', by simp [LexSpec.unsigned, h8], h10', h7⟩)]
        unfold LexSpec.classifyIdent
        simp only [h8, h7, isIdentStart_eq, h10', hcd, isSubsequent_fun]
        simp [hns.1, hns.2, h7, h5, h3, h4, h6, LexSpec.ofClass, Option.orElse]
        split <;> rfl


/-! ## `|…|` identifiers -/

theorem quotedIdentifier_eq (cs : List Char) (p : Pos) (acc : List Char) :
    forgetScan (quotedIdentifier cs p acc)
      = match cs.dropWhile (· != '|') with
        | [] => .error
        | _ :: rest => .tok (.ident (String.ofList (acc.reverse ++ cs.takeWhile (· != '|')))) rest := by
  induction cs generalizing p acc with
  | nil => rfl
  | cons c cs ih =>
    unfold quotedIdentifier
    by_cases hc : c = '|'
    · subst hc; simp [forgetScan, List.dropWhile, List.takeWhile]
    · simp only [hc, if_false]
      rw [ih]
      have hb : (c != '|') = true := by simp [hc]
      simp [List.dropWhile, List.takeWhile, hb]

/-! ## hex values -/

theorem hexNat_eq : LexSpec.hexNat? = Proto.hexVal := rfl

theorem hexScalar_eq (ds : List Char) :
    (if ds.isEmpty then none else
      match Proto.hexVal ds with
      | none => none
      | some n =>
        if n ≤ 4294967295 ∧ (n < 0xD800 ∨ (0xDFFF < n ∧ n ≤ 0x10FFFF)) then some (Char.ofNat n)
        else none) = LexSpec.hexScalar ds := by
  unfold LexSpec.hexScalar
  rw [hexNat_eq]
  split
  · rfl
  · cases Proto.hexVal ds with
    | none => rfl
    | some n =>
      simp only
      have : (n ≤ 4294967295 ∧ (n < 0xD800 ∨ (0xDFFF < n ∧ n ≤ 0x10FFFF)))
          ↔ (n < 0xD800 ∨ (0xDFFF < n ∧ n ≤ 0x10FFFF)) := by omega
      simp only [this]

theorem hexScalar_escape (ds : List Char) : hexScalar? ds = LexSpec.hexEscapeValue ds := by
  cases ds with
  | nil => rfl
  | cons c r =>
    by_cases hc : c = '+'
    · subst hc; exact hexScalar_eq r
    · have h1 : hexScalar? (c :: r) = (if (c :: r).isEmpty then none else
          match Proto.hexVal (c :: r) with
          | none => none
          | some n =>
            if n ≤ 4294967295 ∧ (n < 0xD800 ∨ (0xDFFF < n ∧ n ≤ 0x10FFFF)) then
              some (Char.ofNat n)
            else none) := by
        unfold hexScalar?
        split
        · rename_i heq; simp at heq; exact absurd heq.1 hc
        · rfl
      have h2 : LexSpec.hexEscapeValue (c :: r) = LexSpec.hexScalar (c :: r) := by
        unfold LexSpec.hexEscapeValue
        split
        · rename_i heq; simp at heq; exact absurd heq.1 hc
        · rfl
      rw [h1, h2]; exact hexScalar_eq _

theorem hexScalar_noplus (ds : List Char) (h : ds.head? ≠ some '+') :
    hexScalar? ds = LexSpec.hexScalar ds := by
  rw [hexScalar_escape]
  unfold LexSpec.hexEscapeValue
  split
  · simp at h
  · rfl


/-! ## string literals -/

theorem hexPhase (cs : List Char) (p : Pos) (ds out : List Char) :
    LexSpec.scanStr (.hex ds) cs out
      = match hexEscape cs p ds with
        | .error _ => none
        | .ok (hex, cs2, _) =>
          match hexScalar? hex with
          | some ch => LexSpec.scanStr .normal cs2 (ch :: out)
          | none => none := by
  induction cs generalizing p ds with
  | nil => rfl
  | cons c cs ih =>
    unfold hexEscape
    by_cases hc : c = ';'
    · subst hc
      simp only [LexSpec.scanStr, if_true, hexScalar_escape]
      rfl
    · simp only [LexSpec.scanStr, hc, if_false]
      exact ih _ _

theorem string_eq (cs : List Char) (p : Pos) (acc : List Char) :
    forgetScan (Lex.string cs p acc)
      = match LexSpec.scanStr .normal cs acc with
        | some (s, rest) => .tok (.prim (.str (String.ofList s))) rest
        | none => .error := by
  have e : ∀ tail acc, LexSpec.scanStr .normal ('\\' :: 'x' :: tail) acc
      = LexSpec.scanStr (.hex []) tail acc := by
    intro tail acc; simp [LexSpec.scanStr, LexSpec.escapes, List.lookup]
  fun_induction Lex.string cs p acc
  all_goals (try (simp [LexSpec.scanStr, LexSpec.escapes, List.lookup, *]; done))
  all_goals (try (simp [LexSpec.scanStr, LexSpec.escapes, List.lookup, forgetScan, *]; done))
  · rename_i p2 h
    rw [e, hexPhase _ p2, h]; rfl
  · rename_i p2 h ih
    rw [e, hexPhase _ p2, h]
    simp only [*]
  · rename_i p2 h
    rw [e, hexPhase _ p2, h]
    simp only [*]; rfl
  · rename_i c tail h10 h9 h8 h7 h6 h5 h4 h3 h2 h1 p1 h p2
    have hb : ∀ k : Char, ¬ c = k → (c == k) = false := fun k hk => by simp [hk]
    simp [LexSpec.scanStr, LexSpec.escapes, List.lookup, forgetScan, hb _ h10, hb _ h9, hb _ h8,
      hb _ h7, hb _ h6, hb _ h5, hb _ h4, hb _ h3, h2, h1]


/-! ## `#`-tokens -/

theorem nds_eq (c : Char) : LexSpec.nonDelimSharp c = (!isDelimiter c && c != '#') := by
  simp [LexSpec.nonDelimSharp, isDelim_eq]

theorem sharp_end (cs : List Char) :
    (startsDelim cs = true ∨ startsSharp cs = true) ↔ cs.takeWhile LexSpec.nonDelimSharp = [] := by
  cases cs with
  | nil => simp [startsDelim]
  | cons c r =>
    by_cases hc : c = '#'
    · subst hc; simp [startsSharp, List.takeWhile, nds_eq]
    · have : startsSharp (c :: r) = false := by
        unfold startsSharp; split
        · rename_i h; simp at h; exact absurd h.1 hc
        · rfl
      have hb : (c != '#') = true := by simp [hc]
      cases hd : isDelimiter c <;> simp [startsDelim, this, List.takeWhile, nds_eq, hd, hb]

theorem dropWhile_of_takeWhile_nil (f : Char → Bool) (cs : List Char)
    (h : cs.takeWhile f = []) : cs.dropWhile f = cs := by
  cases cs with
  | nil => rfl
  | cons c r =>
    by_cases hc : f c = true
    · simp [List.takeWhile, hc] at h
    · simp [List.dropWhile, hc]

/-- refining a run: if `f ⊆ g` and the `f`-run stops at the end or at a non-`g` character, the
`g`-run is the same run -/
theorem span_refine (f g : Char → Bool) (hfg : ∀ c, f c = true → g c = true) (cs : List Char) :
    ((cs.dropWhile f).takeWhile g = [] →
      cs.takeWhile g = cs.takeWhile f ∧ cs.dropWhile g = cs.dropWhile f) ∧
    ((cs.dropWhile f).takeWhile g ≠ [] →
      (cs.takeWhile g).all f = false) := by
  induction cs with
  | nil => simp
  | cons c r ih =>
    by_cases hc : f c = true
    · have hg := hfg c hc
      simp only [List.dropWhile, List.takeWhile, hc, hg, List.all_cons, Bool.true_and]
      constructor
      · intro h; have := ih.1 h; simp [this.1, this.2]
      · exact ih.2
    · simp only [List.dropWhile, hc]
      constructor
      · intro h
        have hgc : g c = false := by
          cases hg : g c with
          | false => rfl
          | true => simp [List.takeWhile, hg] at h
        simp [List.takeWhile, List.dropWhile, hc, hgc]
      · intro h
        have hgc : g c = true := by
          cases hg : g c with
          | true => rfl
          | false => simp [List.takeWhile, hg] at h
        simp [List.takeWhile, hgc, hc]

theorem charName_eq (l : List Char) :
    charName? l = LexSpec.charNames.lookup (String.ofList l) := by
  unfold charName?
  split
  all_goals (try (rename_i h; rw [h]; decide))
  rename_i h1 h2 h3 h4 h5 h6 h7 h8 h9
  have hb : ∀ k : String, ¬ String.ofList l = k → (String.ofList l == k) = false :=
    fun k hk => by simp [hk]
  simp [LexSpec.charNames, List.lookup, hb _ h1, hb _ h2, hb _ h3, hb _ h4, hb _ h5, hb _ h6,
    hb _ h7, hb _ h8, hb _ h9]


theorem alnum_sub_nds (c : Char) (h : isAsciiAlnum c = true) : LexSpec.nonDelimSharp c = true := by
  have hns := isAsciiAlnum_ns h
  rw [nds_eq, isDelimiter_of_not_mem hns]
  have : c ≠ '#' := by
    intro e; apply hns; rw [e]; decide
  simp [this]

theorem all_takeWhile (f : Char → Bool) (cs : List Char) : (cs.takeWhile f).all f = true := by
  induction cs with
  | nil => rfl
  | cons c r ih =>
    by_cases hc : f c = true
    · simp only [List.takeWhile, hc, List.all_cons, Bool.true_and]; exact ih
    · simp [List.takeWhile, hc]

theorem character_eq (first : Char) (cs : List Char) (p : Pos) :
    forgetScan (character first cs p)
      = LexSpec.ofClass (LexSpec.classifyChar first (cs.takeWhile LexSpec.nonDelimSharp))
          (cs.dropWhile LexSpec.nonDelimSharp) := by
  unfold character
  rw [takeRun_spec]
  simp only [List.reverse_nil, List.nil_append]
  have href := span_refine isAsciiAlnum LexSpec.nonDelimSharp alnum_sub_nds cs
  by_cases hend : (cs.dropWhile isAsciiAlnum).takeWhile LexSpec.nonDelimSharp = []
  · obtain ⟨e1, e2⟩ := href.1 hend
    have hok : endOfSharpToken (cs.dropWhile isAsciiAlnum) (advs (cs.takeWhile isAsciiAlnum) p)
        = .ok () := endOfSharpToken_ok.mpr ((sharp_end _).mpr hend)
    rw [e1, e2, hok]
    have hall := all_takeWhile isAsciiAlnum cs
    generalize cs.takeWhile isAsciiAlnum = run at hall ⊢
    generalize cs.dropWhile isAsciiAlnum = cs1
    simp only [bind, Except.bind, LexSpec.classifyChar, isAlphanum_fun, hall, Bool.not_true,
      Bool.false_eq_true, if_false, charName_eq]
    by_cases hemp : run.isEmpty = true
    · simp [hemp, forgetScan, pure, Except.pure, LexSpec.ofClass]
    · simp only [hemp, Bool.false_eq_true, if_false]
      cases hl : LexSpec.charNames.lookup (String.ofList (first :: run)) with
      | some ch => simp [forgetScan, pure, Except.pure, LexSpec.ofClass]
      | none =>
        simp only
        by_cases hx : first = 'x'
        · have hplus : run.head? ≠ some '+' := by
            cases run with
            | nil => simp
            | cons a b =>
              simp only [List.all_cons, Bool.and_eq_true] at hall
              intro e; simp at e; subst e; exact absurd hall.1 (by decide)
          simp only [hx, if_true, hexScalar_noplus run hplus]
          cases LexSpec.hexScalar run with
          | none => rfl
          | some ch => simp [hplus, forgetScan, pure, Except.pure, LexSpec.ofClass]
        · simp [hx, forgetScan, LexSpec.ofClass]
  · have hbad := href.2 hend
    have herr : ∃ e, endOfSharpToken (cs.dropWhile isAsciiAlnum)
        (advs (cs.takeWhile isAsciiAlnum) p) = .error e := by
      cases h : endOfSharpToken (cs.dropWhile isAsciiAlnum) (advs (cs.takeWhile isAsciiAlnum) p) with
      | error e => exact ⟨e, rfl⟩
      | ok u => exact absurd ((sharp_end _).mp (endOfSharpToken_ok.mp h)) hend
    obtain ⟨e, he⟩ := herr
    rw [he]
    have hne : (cs.takeWhile LexSpec.nonDelimSharp).isEmpty = false := by
      cases h : cs.takeWhile LexSpec.nonDelimSharp with
      | nil => rw [h] at hbad; simp at hbad
      | cons a b => rfl
    simp [bind, Except.bind, forgetScan, LexSpec.classifyChar, isAlphanum_fun, hbad, hne,
      LexSpec.ofClass]


/-! ## one token -/

theorem nonDelim_fun : LexSpec.nonDelim = fun c => !isDelimiter c := by
  funext c; simp [LexSpec.nonDelim, isDelim_eq]

theorem classifySharp_other (cn : Char) (run : List Char) (h1 : cn ≠ '\\') (h2 : cn ≠ 't')
    (h3 : cn ≠ 'f') : LexSpec.classifySharp (cn :: run) = none := by
  simp [LexSpec.classifySharp, h1, h2, h3]

theorem sharpChunk_other (cn : Char) (cs2 : List Char) (h1 : cn ≠ '\\') :
    LexSpec.sharpChunk (cn :: cs2)
      = ('#' :: (cn :: cs2).takeWhile LexSpec.nonDelimSharp,
          (cn :: cs2).dropWhile LexSpec.nonDelimSharp) := by
  simp [LexSpec.sharpChunk, h1]

theorem sharp_eq (cs1 : List Char) (p : Pos) :
    forget (token ('#' :: cs1) p) = LexSpec.sharpToken cs1 := by
  rw [token.eq_def]
  simp only [show ('#' : Char) ≠ '(' by decide, show ('#' : Char) ≠ ')' by decide,
    show ('#' : Char) ≠ '\'' by decide, show ('#' : Char) ≠ '`' by decide, if_false, if_true]
  cases cs1 with
  | nil =>
    simp [forget, LexSpec.sharpToken, LexSpec.sharpChunk, LexSpec.classify, LexSpec.classifySharp,
      LexSpec.ofClass]
  | cons cn cs2 =>
    simp only
    by_cases g1 : cn = '('
    · subst g1; simp [forget, LexSpec.sharpToken]
    · simp only [g1, if_false]
      by_cases g2 : (cn = 't' || cn = 'f') = true
      · simp only [g2, if_true]
        have hcn : cn = 't' ∨ cn = 'f' := by simpa using g2
        have hnds : LexSpec.nonDelimSharp cn = true := by
          rcases hcn with rfl | rfl <;> decide
        have hu : cn ≠ 'u' ∧ cn ≠ '\\' := by
          rcases hcn with rfl | rfl <;> decide
        simp only [LexSpec.sharpToken, List.isPrefixOf, beq_iff_eq, g1, hu.1, Bool.false_and,
          Bool.false_eq_true, if_false, sharpChunk_other cn cs2 hu.2, List.takeWhile,
          List.dropWhile, hnds, LexSpec.classify, LexSpec.classifySharp, hu.2]
        by_cases htw : cs2.takeWhile LexSpec.nonDelimSharp = []
        · have hok : endOfSharpToken cs2 (adv cn (adv '#' p)) = .ok () :=
            endOfSharpToken_ok.mpr ((sharp_end _).mpr htw)
          rw [hok, htw, dropWhile_of_takeWhile_nil _ _ htw]
          rcases hcn with rfl | rfl <;>
            simp [forget, bind, Except.bind, pure, Except.pure, LexSpec.ofClass]
        · have herr : ∃ e, endOfSharpToken cs2 (adv cn (adv '#' p)) = .error e := by
            cases h : endOfSharpToken cs2 (adv cn (adv '#' p)) with
            | error e => exact ⟨e, rfl⟩
            | ok u => exact absurd ((sharp_end _).mp (endOfSharpToken_ok.mp h)) htw
          obtain ⟨e, he⟩ := herr
          rw [he]
          have : (cs2.takeWhile LexSpec.nonDelimSharp).isEmpty = false := by
            cases h : cs2.takeWhile LexSpec.nonDelimSharp with
            | nil => exact absurd h htw
            | cons a b => rfl
          simp [forget, bind, Except.bind, this, LexSpec.ofClass]
          rw [if_neg (fun e => g1 e.symm), if_neg (fun h => hu.1 h.1.symm)]
      · simp only [g2, Bool.false_eq_true, if_false]
        have hntf : cn ≠ 't' ∧ cn ≠ 'f' := by
          simp only [Bool.or_eq_true, decide_eq_true_eq, not_or] at g2; exact g2
        by_cases g3 : cn = '\\'
        · subst g3
          simp only [if_true]
          cases cs2 with
          | nil =>
            simp [forget, LexSpec.sharpToken, LexSpec.sharpChunk, LexSpec.classify,
              LexSpec.classifySharp, LexSpec.ofClass, List.isPrefixOf]
          | cons cnn cs3 =>
            simp only [forget_map, character_eq]
            simp [LexSpec.sharpToken, LexSpec.sharpChunk, LexSpec.classify, LexSpec.classifySharp,
              List.isPrefixOf]
        · simp only [g3, if_false]
          have hspec : ¬ (['u', '8', '('].isPrefixOf (cn :: cs2) = true) →
              LexSpec.sharpToken (cn :: cs2) = .error := by
            intro hp
            simp only [LexSpec.sharpToken, hp, if_false, sharpChunk_other cn cs2 g3]
            have h1 : ['('].isPrefixOf (cn :: cs2) = false := by
              simp [List.isPrefixOf]; exact fun e => g1 e.symm
            simp only [h1, Bool.false_eq_true, if_false, LexSpec.classify, if_true]
            cases htw : (cn :: cs2).takeWhile LexSpec.nonDelimSharp with
            | nil => simp [LexSpec.classifySharp, LexSpec.ofClass]
            | cons a b =>
              have : a = cn := by
                by_cases hn : LexSpec.nonDelimSharp cn = true
                · simp [List.takeWhile, hn] at htw; exact htw.1.symm
                · simp [List.takeWhile, hn] at htw
              subst this
              simp [classifySharp_other a b g3 hntf.1 hntf.2, LexSpec.ofClass]
          by_cases g4 : cn = 'u'
          · subst g4
            simp only [if_true]
            cases cs2 with
            | nil => rw [hspec (by simp [List.isPrefixOf])]; rfl
            | cons c8 cs3 =>
              simp only
              by_cases g5 : c8 = '8'
              · subst g5
                simp only [if_true]
                cases cs3 with
                | nil => rw [hspec (by simp [List.isPrefixOf])]; rfl
                | cons cp cs4 =>
                  simp only
                  by_cases g6 : cp = '('
                  · subst g6; simp [forget, LexSpec.sharpToken, List.isPrefixOf]
                  · rw [hspec (by simp [List.isPrefixOf]; exact fun e => g6 e.symm)]
                    simp [g6, forget]
              · rw [hspec (by simp [List.isPrefixOf]; exact fun e => absurd e.symm g5)]
                simp [g5, forget]
          · rw [hspec (by simp [List.isPrefixOf]; exact fun e => absurd e.symm g4)]
            simp [g4, forget]


theorem token_eq (cs : List Char) (p : Pos) (hs : startsTok cs = true) :
    forget (token cs p) = LexSpec.token cs := by
  cases cs with
  | nil => rfl
  | cons c cs1 =>
    by_cases h5 : c = '#'
    · subst h5; rw [sharp_eq]; simp [LexSpec.token]
    by_cases h1 : c = '('
    · subst h1; simp [token, forget, LexSpec.token]
    by_cases h2 : c = ')'
    · subst h2; simp [token, forget, LexSpec.token]
    by_cases h3 : c = '\''
    · subst h3; simp [token, forget, LexSpec.token]
    by_cases h4 : c = '`'
    · subst h4; simp [token, forget, LexSpec.token]
    by_cases h6 : c = ','
    · subst h6
      cases cs1 with
      | nil => simp [token, forget, LexSpec.token]
      | cons d r =>
        by_cases hd : d = '@'
        · subst hd; simp [token, forget, LexSpec.token]
        · simp [token, forget, LexSpec.token, hd]
    by_cases h9 : c = '"'
    · subst h9
      rw [token.eq_def]
      simp only [show ('"' : Char) ≠ '(' by decide, show ('"' : Char) ≠ ')' by decide,
        show ('"' : Char) ≠ '\'' by decide, show ('"' : Char) ≠ '`' by decide,
        show ('"' : Char) ≠ '#' by decide, show ('"' : Char) ≠ ',' by decide,
        show ('"' : Char) ≠ '.' by decide, show ('"' : Char) ≠ '+' by decide,
        show ('"' : Char) ≠ '-' by decide, decide_false, Bool.or_self, Bool.false_eq_true,
        if_false, if_true, forget_map, string_eq]
      simp only [LexSpec.token, show ('"' : Char) ≠ '(' by decide, show ('"' : Char) ≠ ')' by decide,
        show ('"' : Char) ≠ '\'' by decide, show ('"' : Char) ≠ '`' by decide,
        show ('"' : Char) ≠ ',' by decide, if_false, if_true]
      cases LexSpec.scanStr LexSpec.StrState.normal cs1 [] with
      | none => rfl
      | some r => obtain ⟨a, b⟩ := r; rfl
    by_cases h11 : c = '|'
    · subst h11
      rw [token.eq_def]
      simp only [show ('|' : Char) ≠ '(' by decide, show ('|' : Char) ≠ ')' by decide,
        show ('|' : Char) ≠ '\'' by decide, show ('|' : Char) ≠ '`' by decide,
        show ('|' : Char) ≠ '#' by decide, show ('|' : Char) ≠ ',' by decide,
        show ('|' : Char) ≠ '.' by decide, show ('|' : Char) ≠ '+' by decide,
        show ('|' : Char) ≠ '-' by decide, show ('|' : Char) ≠ '"' by decide,
        show isDigit '|' = false by decide, decide_false, Bool.or_self, Bool.false_eq_true,
        if_false, if_true, forget_map, quotedIdentifier_eq]
      simp only [LexSpec.token, show ('|' : Char) ≠ '(' by decide, show ('|' : Char) ≠ ')' by decide,
        show ('|' : Char) ≠ '\'' by decide, show ('|' : Char) ≠ '`' by decide,
        show ('|' : Char) ≠ ',' by decide, show ('|' : Char) ≠ '"' by decide, if_false, if_true,
        List.reverse_nil, List.nil_append]
      cases List.dropWhile (fun x => x != '|') cs1 <;> rfl
    -- a word chunk
    have hcd : isDelimiter c = false := by
      simp only [startsTok, Bool.and_eq_true, Bool.not_eq_true', decide_eq_false_iff_not] at hs
      simp [isDelimiter, hs.1, hs.2, h1, h2, h9, h11]
    have hnd : LexSpec.nonDelim c = true := by simp [nonDelim_fun, hcd]
    have hsplit := List.takeWhile_append_dropWhile (p := LexSpec.nonDelim) (l := cs1)
    have hchunk : Chunk (c :: cs1.takeWhile LexSpec.nonDelim) := by
      intro x hx
      rcases List.mem_cons.mp hx with rfl | hx
      · exact hcd
      · have := List.all_eq_true.mp (all_takeWhile LexSpec.nonDelim cs1) x hx
        simpa [nonDelim_fun] using this
    have hrest : startsDelim (cs1.dropWhile LexSpec.nonDelim) = true := by
      cases h : cs1.dropWhile LexSpec.nonDelim with
      | nil => rfl
      | cons x tl =>
        have := dropWhile_head LexSpec.nonDelim cs1 h
        simpa [startsDelim, nonDelim_fun] using this
    have hw := word_eq c (cs1.takeWhile LexSpec.nonDelim) (cs1.dropWhile LexSpec.nonDelim) p hchunk
      hrest h1 h2 h3 h4 h5 h6 h9 h11
    rw [hsplit] at hw
    rw [hw]
    simp [LexSpec.token, h1, h2, h3, h4, h5, h6, h9, h11, List.takeWhile, List.dropWhile, hnd]

theorem next_eq (cs : List Char) (p : Pos) : forget (Lex.next cs p) = LexSpec.next cs := by
  unfold Lex.next LexSpec.next
  obtain ⟨a, h1, h2, h3, h4, h5⟩ := skipAtmosphere_inv false cs p
  rw [← skipAtmos_eq false cs p]
  generalize skipAtmosphere false cs p = r at *
  obtain ⟨cs1, p1⟩ := r
  exact token_eq cs1 p1 h3

end Ruschm.LexSpecLemmas

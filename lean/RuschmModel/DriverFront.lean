import RuschmModel.Front
import RuschmModel.DriverProg
namespace Ruschm.Driver
open Proto

/-- `cli`: field = the program file's text (escaped), or `\u{0}UNREADABLE` -/
def cli (fields : List String) : List String :=
  match fields with
  | [content] =>
    let text := String.ofList (unescape content)
    let r := Front.cli evalFuel (if text == "\x00UNREADABLE" then none else some text)
    ["exit " ++ toString r.exitCode,
     "O " ++ esc r.stdout,
     match r.diag with
     | none => "no-diag"
     | some loc => "diag " ++ canonLoc loc ++ " " ++ (r.errKind.map toString).getD "?"]
  | _ => ["X bad-fields"]

/-- `repl`: fields = the input lines; output: the standard output of the session between banner
and farewell, then one `E kind` per error message in order -/
def repl (fields : List String) : List String :=
  let lines := fields.map (fun f => String.ofList (unescape f))
  let (_, outs) := Front.replRun evalFuel lines
  ["O " ++ esc (String.join (outs.map (·.stdout)))] ++
    outs.filterMap (fun o => o.err.map (fun e => "E " ++ toString e))

/-- `display`: fields = mode, an expression: the `Display` text of its value, the value, and
the result of evaluating `(quote <text>)` on the same interpreter -/
def display (fields : List String) : List String :=
  match fields with
  | [mode, expr] =>
    let st := initState mode
    match Interp.evalText evalFuel st (unescape expr) with
    | (.ok (some v), st) =>
      let text := Prim.display st.store 100000 v
      let (r, st') := Interp.evalText evalFuel st ("(quote " ++ text ++ ")").toList
      ["T " ++ esc text, "V " ++ Prim.canon st.store 100000 v, showResult st' r]
    | (.ok none, _) => ["N"]
    | (.error e, _) => [errStr e]
  | _ => ["X bad-fields"]

/-- `world`: fields = steps `<instance index>:<text>` or `new`; two instances exist initially.
Output: per step the result on that instance. -/
def world (fields : List String) : List String :=
  let w0 : Front.World := [Interp.withStdlib evalFuel false, Interp.withStdlib evalFuel false]
  let step := fun (acc : List String × Front.World) (f : String) =>
    let (out, w) := acc
    let cs := unescape f
    if cs == "new".toList then (out ++ ["new-ok"], Front.worldNew evalFuel w) else
    let head := cs.takeWhile (· ≠ ':')
    let text := (cs.dropWhile (· ≠ ':')).drop 1
    -- `R<index>:<name>=<source>`: register a library source on that instance
    if head.head? == some 'R' then
      let idx := (String.ofList (head.drop 1)).toNat?.getD 0
      let name := String.ofList (text.takeWhile (· ≠ '='))
      let src := String.ofList ((text.dropWhile (· ≠ '=')).drop 1)
      let lib : LibName := (name.splitOn "/").map LibElem.ident
      match Interp.factoryOfText lib src with
      | .error e => (out ++ ["R" ++ errStr e], w)
      | .ok fac =>
        match w[idx]? with
        | none => (out ++ ["X no-instance"], w)
        | some _ => (out ++ ["reg-ok"], Front.worldRegister w idx lib fac)
    else
    let idx := (String.ofList head).toNat?.getD 0
    match Front.worldStep evalFuel w idx text with
    | (none, w) => (out ++ ["X no-instance"], w)
    | (some r, w) =>
      let st := (w[idx]?).getD default
      (out ++ [showResult st r], w)
  (fields.foldl step ([], w0)).1

end Ruschm.Driver

import RuschmModel.Macro
import RuschmModel.DriverText
namespace Ruschm.Driver
open Proto

/-- `expand`: fields = text of `define-syntax` forms, text of one macro use. Result: the datum
`Transformer::transform` yields for the use, or the error kind. -/
def expand (fields : List String) : List String :=
  match fields with
  | [defs, useText] =>
    let (ds, e) := Read.all (unescape defs)
    if e.isSome then ["E syntax"] else
    let table : Except SErr (List (String × Macro.Rules)) :=
      ds.foldlM (fun acc d =>
        match d.elems with
        | [.sym "define-syntax" _, .sym kw _, spec] => do
          let r ← Macro.toRules kw spec
          pure ((kw, r) :: acc)
        | _ => .error (.syntax, none)) []
    match table with
    | .error e => ["E " ++ toString e.1]
    | .ok table =>
      match Read.all (unescape useText) with
      | (use :: _, _) =>
        match Macro.popProper use with
        | .ok (some (.sym kw _, rest)) =>
          match table.lookup kw with
          | none => ["X no-macro"]
          | some rules =>
            let remained := rest.withLoc use.loc
            match Macro.transform (Macro.matchFuel use + 1000) rules remained with
            | .ok d => ["D " ++ canonDatum d]
            | .error e => ["E " ++ toString e.1]
        | _ => ["X bad-use"]
      | _ => ["X bad-use"]
  | _ => ["X bad-fields"]

end Ruschm.Driver

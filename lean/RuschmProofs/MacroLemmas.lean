/-
Helper lemmas for C04 (1): one-step equations of the matcher per pattern shape, sizes and spines,
sufficiency of fuel (the matcher terminates), and the key-set invariant that rules out the
`get_mut(var).unwrap()` panic for ALL patterns.
-/
import RuschmSpec.Macro

namespace Ruschm.Macro
open Ruschm

/-! ## Vocabulary -/

/-- `multi_matches` for the patterns after `p` -/
def nextMM (lits : List String) (p : Pat) : Option Pat :=
  match p with
  | .ident v => if lits.contains v then none else some p
  | _ => some p

/-- the push loop of the ellipsis branch; `none` is the `unwrap` panic -/
def pushAll (τ σ : Subst) : Option Subst :=
  τ.foldl (fun acc (x : String × Datum × List Datum) =>
    acc.bind (fun s => Subst.push? s x.1 x.2.1)) (some σ)

def Pat.isListy : Pat → Bool
  | .pair _ _ => true
  | .nil => true
  | _ => false

def _root_.Ruschm.Datum.isListy : Datum → Bool
  | .pair _ _ _ => true
  | .nil _ => true
  | _ => false

/-! ## One-step equations of `matchDatum` -/

@[simp] theorem matchDatum_zero {lits p d σ} :
    matchDatum 0 lits p d σ = .error (.fuel, none) := by rw [matchDatum]

@[simp] theorem matchStream_zero {lits ps ds mm σ} :
    matchStream 0 lits ps ds mm σ = .error (.fuel, none) := by rw [matchStream]

@[simp] theorem matchDatum_underscore {n lits d σ} :
    matchDatum (n+1) lits .underscore d σ = .ok (true, σ) := by rw [matchDatum]

@[simp] theorem matchDatum_ellipsis {n lits d σ} :
    matchDatum (n+1) lits .ellipsis d σ = .ok (true, σ) := by rw [matchDatum]

theorem matchDatum_ident {n lits v d σ} :
    matchDatum (n+1) lits (.ident v) d σ =
      if lits.contains v then .ok (match d with | .sym s _ => s == v | _ => false, σ)
      else .ok (true, σ.insert v (d, [])) := by
  cases d <;> cases h : lits.contains v <;> simp_all [matchDatum]

theorem matchDatum_var {n lits v d σ} (h : lits.contains v = false) :
    matchDatum (n+1) lits (.ident v) d σ = .ok (true, σ.insert v (d, [])) := by
  rw [matchDatum_ident, h]; simp

theorem matchDatum_lit {n lits v d σ} (h : lits.contains v = true) :
    matchDatum (n+1) lits (.ident v) d σ =
      .ok (match d with | .sym s _ => s == v | _ => false, σ) := by
  rw [matchDatum_ident, h]; simp

theorem matchDatum_prim {n lits a d σ} :
    matchDatum (n+1) lits (.prim a) d σ =
      .ok (match d with | .prim b _ => a == b | _ => false, σ) := by
  cases d <;> simp [matchDatum]

theorem matchDatum_vec {n lits ps d σ} :
    matchDatum (n+1) lits (.vec ps) d σ =
      match d with
      | .vec ds _ => matchStream n lits ps ds none σ
      | _ => .ok (false, σ) := by
  cases d <;> simp [matchDatum]

/-- a list pattern against a datum that is not a list -/
theorem matchDatum_listy_atom {n lits p d σ} (hp : p.isListy = true) (hd : d.isListy = false) :
    matchDatum (n+1) lits p d σ = .ok (false, σ) := by
  cases p <;> cases d <;> simp_all [Pat.isListy, Datum.isListy, matchDatum]

/-- a list pattern against a list: the elements as a stream, then the two tails -/
theorem matchDatum_listy {n lits p d σ} (hp : p.isListy = true) (hd : d.isListy = true) :
    matchDatum (n+1) lits p d σ =
      match matchStream n lits p.spine.1 d.spine.1 none σ with
      | .error e => .error e
      | .ok (false, σ1) => .ok (false, σ1)
      | .ok (true, σ1) =>
        match p.spine.2, d.spine.2 with
        | some lp, some ld => matchDatum n lits lp ld σ1
        | none, none => .ok (true, σ1)
        | _, _ => .ok (false, σ1) := by
  cases p <;> cases d <;> simp_all [Pat.isListy, Datum.isListy] <;>
  · rw [matchDatum]
    simp only [bind, Except.bind, pure, Except.pure]
    cases matchStream n lits _ _ none σ with
    | error e => rfl
    | ok r =>
      obtain ⟨b, σ1⟩ := r
      cases b
      · rfl
      · simp only [if_true]
        split <;> simp_all

/-! ## One-step equations of `matchStream` -/

@[simp] theorem matchStream_nil_nil {n lits mm σ} :
    matchStream (n+1) lits [] [] mm σ = .ok (true, σ) := by rw [matchStream]

@[simp] theorem matchStream_nil_cons {n lits d ds mm σ} :
    matchStream (n+1) lits [] (d :: ds) mm σ = .ok (false, σ) := by rw [matchStream]

theorem matchStream_cons_nil_ne {n lits p ps mm σ} (hp : p.isEllipsis = false) :
    matchStream (n+1) lits (p :: ps) [] mm σ = .ok (false, σ) := by
  rw [matchStream]; cases p <;> simp_all [Pat.isEllipsis]

@[simp] theorem matchStream_ell_nil_none {n lits ps σ} :
    matchStream (n+1) lits (.ellipsis :: ps) [] none σ = .ok (false, σ) := by
  simp [matchStream]

@[simp] theorem matchStream_ell_nil_some {n lits ps mp σ} :
    matchStream (n+1) lits (.ellipsis :: ps) [] (some mp) σ =
      matchStream n lits ps [] (some mp) σ := by
  rw [matchStream]

/-- an element that is not the ellipsis: match it, then go on -/
theorem matchStream_step_ne {n lits p ps d ds mm σ} (hp : p.isEllipsis = false) :
    matchStream (n+1) lits (p :: ps) (d :: ds) mm σ =
      match matchDatum n lits p d σ with
      | .error e => .error e
      | .ok (false, σ1) => .ok (false, σ1)
      | .ok (true, σ1) => matchStream n lits ps ds (nextMM lits p) σ1 := by
  rw [matchStream]
  cases h : matchDatum n lits p d σ with
  | error e => rfl
  | ok r =>
    obtain ⟨b, σ1⟩ := r
    cases b
    · rfl
    · cases p <;> simp [Pat.isEllipsis, nextMM, bind, Except.bind] at hp ⊢
      split <;> rfl

/-- the ellipsis with no preceding sub-pattern: `UnexpectedPattern` -/
theorem matchStream_ell_none {n lits ps d ds σ} :
    matchStream (n+2) lits (.ellipsis :: ps) (d :: ds) none σ = .error (.syntax, none) := by
  rw [matchStream, matchDatum_ellipsis]; rfl

/-- the ellipsis against one more item: the item must match the preceding sub-pattern `mp` (in a
fresh table, whose matches are pushed), then stay on the ellipsis, else step over it -/
theorem matchStream_step_ell {n lits ps d ds mp σ} :
    matchStream (n+2) lits (.ellipsis :: ps) (d :: ds) (some mp) σ =
      match matchDatum (n+1) lits mp d [] with
      | .error e => .error e
      | .ok (false, _) => .ok (false, σ)
      | .ok (true, τ) =>
        match pushAll τ σ with
        | none => .error (.panic "macros.rs get_mut unwrap", none)
        | some σ2 =>
          match matchStream (n+1) lits (.ellipsis :: ps) ds (some mp) σ2 with
          | .error e => .error e
          | .ok (true, σ3) => .ok (true, σ3)
          | .ok (false, σ3) => matchStream (n+1) lits ps ds (some mp) σ3 := by
  rw [matchStream]
  rw [matchDatum_ellipsis]
  simp only [bind, Except.bind, pure, Except.pure]
  cases h : matchDatum (n+1) lits mp d [] with
  | error e => rfl
  | ok r =>
    obtain ⟨b, τ⟩ := r
    cases b
    · rfl
    · simp only [Bool.not_true, Bool.false_eq_true, if_false, pushAll]
      cases List.foldl (fun acc (x : String × Datum × List Datum) =>
          acc.bind fun s => s.push? x.fst x.2.fst) (some σ) τ with
      | none => rfl
      | some σ2 =>
        simp only []
        cases matchStream (n + 1) lits (Pat.ellipsis :: ps) ds (some mp) σ2 with
        | error e => rfl
        | ok r2 =>
          obtain ⟨b2, σ3⟩ := r2
          cases b2 <;> simp

theorem matchStream_ell_one {lits ps d ds mm σ} :
    matchStream 1 lits (.ellipsis :: ps) (d :: ds) mm σ = .error (.fuel, none) := by
  rw [matchStream, matchDatum_zero]; rfl

/-! ## Sizes and spines -/

theorem Pat.size_pos (p : Pat) : 0 < p.size := by
  cases p <;> simp [Pat.size]

theorem _root_.Ruschm.Datum.size_pos (d : Datum) : 0 < d.size := by
  cases d <;> simp [Datum.size]

/-- size of an optional tail -/
def Pat.tsize : Option Pat → Nat
  | some p => p.size
  | none => 0

def _root_.Ruschm.Datum.tsize : Option Datum → Nat
  | some d => d.size
  | none => 0

theorem Pat.spine_size (p : Pat) :
    Pat.sizeList p.spine.1 + Pat.tsize p.spine.2 + (if p.isListy then 1 else 0) ≤ p.size := by
  fun_induction Pat.spine p with
  | case1 a d xs t h ih =>
    simp only [h] at ih
    simp only [Pat.sizeList, Pat.size, Pat.isListy, if_true]
    split at ih <;> omega
  | case2 => simp [Pat.sizeList, Pat.tsize, Pat.size, Pat.isListy]
  | case3 p h1 h2 =>
    cases p <;> simp_all [Pat.sizeList, Pat.tsize, Pat.isListy]

theorem _root_.Ruschm.Datum.spine_size (d : Datum) :
    Datum.sizeList d.spine.1 + Datum.tsize d.spine.2 + (if d.isListy then 1 else 0) ≤ d.size := by
  fun_induction Datum.spine d with
  | case1 a d l xs t h ih =>
    simp only [h] at ih
    simp only [Datum.sizeList, Datum.size, Datum.isListy, if_true]
    split at ih <;> omega
  | case2 => simp [Datum.sizeList, Datum.tsize, Datum.size, Datum.isListy]
  | case3 p h1 h2 =>
    cases p <;> simp_all [Datum.sizeList, Datum.tsize, Datum.isListy]

/-! ## Fuel: the matcher terminates

`p.size + d.size` units of fuel suffice for matching `p` against `d`, for ALL patterns and data.
(`matchFuel d` alone does not: each `...` that is skipped at the end of the data costs a unit, so
the need grows with the pattern.) -/

/-- the fuel that suffices for matching `p` against `d` -/
def matchBound (p : Pat) (d : Datum) : Nat := p.size + d.size

theorem match_fuel_aux (lits : List String) : ∀ n,
    (∀ p d σ l, p.size + d.size ≤ n → matchDatum n lits p d σ ≠ .error (.fuel, l)) ∧
    (∀ ps ds mm σ l, Pat.sizeList ps + Datum.sizeList ds + Pat.tsize mm + 1 ≤ n →
      matchStream n lits ps ds mm σ ≠ .error (.fuel, l)) := by
  intro n
  induction n with
  | zero =>
    refine ⟨fun p d σ l h => ?_, fun ps ds mm σ l h => by omega⟩
    have := p.size_pos; omega
  | succ n ih =>
    obtain ⟨ihD, ihS⟩ := ih
    constructor
    · intro p d σ l hsz
      cases hp : p.isListy
      · -- atoms and vectors
        cases p <;> simp [Pat.isListy] at hp
        · simp
        · simp
        · rw [matchDatum_vec]
          cases d <;> simp
          rename_i ps ds loc
          apply ihS
          simp [Pat.size, Datum.size, Pat.tsize] at hsz ⊢
          omega
        · rw [matchDatum_ident]; split <;> simp
        · rw [matchDatum_prim]; simp
      · cases hd : d.isListy
        · rw [matchDatum_listy_atom hp hd]; simp
        · rw [matchDatum_listy hp hd]
          have h1 := p.spine_size
          have h2 := d.spine_size
          simp only [hp, hd, if_true] at h1 h2
          intro h
          split at h
          · rename_i e he
            cases h
            exact ihS _ _ _ _ _ (by simp [Pat.tsize]; omega) he
          · cases h
          · rename_i σ1 he
            split at h
            · rename_i lp ld hlp hld
              simp only [hlp, hld, Pat.tsize, Datum.tsize] at h1 h2
              exact ihD _ _ _ _ (by omega) h
            · cases h
            · cases h
    · intro ps ds mm σ l hsz
      cases ps with
      | nil => cases ds <;> simp
      | cons p ps =>
        cases ds with
        | nil =>
          cases hp : p.isEllipsis
          · rw [matchStream_cons_nil_ne hp]; simp
          · cases p <;> simp [Pat.isEllipsis] at hp
            cases mm with
            | none => simp
            | some mp =>
              rw [matchStream_ell_nil_some]
              apply ihS
              simp [Pat.sizeList, Pat.size] at hsz ⊢
              omega
        | cons d ds =>
          have hd := d.size_pos
          have hpp := p.size_pos
          simp only [Pat.sizeList, Datum.sizeList] at hsz
          cases hp : p.isEllipsis
          · rw [matchStream_step_ne hp]
            intro h
            split at h
            · rename_i e he
              cases h
              exact ihD _ _ _ _ (by omega) he
            · cases h
            · refine ihS _ _ _ _ _ ?_ h
              have : Pat.tsize (nextMM lits p) ≤ p.size := by
                unfold nextMM; split
                · split <;> simp [Pat.tsize, Pat.size]
                · simp [Pat.tsize]
              omega
          · cases p <;> simp [Pat.isEllipsis] at hp
            cases n with
            | zero => omega
            | succ n =>
              cases mm with
              | none => rw [matchStream_ell_none]; simp
              | some mp =>
                rw [matchStream_step_ell]
                simp only [Pat.tsize] at hsz
                intro h
                split at h
                · rename_i e he
                  cases h
                  exact ihD _ _ _ _ (by omega) he
                · cases h
                · split at h
                  · cases h
                  · split at h
                    · rename_i e he
                      cases h
                      refine ihS _ _ _ _ _ ?_ he
                      simp only [Pat.sizeList, Pat.tsize]; omega
                    · cases h
                    · refine ihS _ _ _ _ _ ?_ h
                      simp only [Pat.tsize]; omega

/-- **the matcher terminates**: `p.size + d.size` units of fuel suffice, for all patterns, data,
literals and tables -/
theorem matchDatum_fuel {lits n p d σ l} (h : matchBound p d ≤ n) :
    matchDatum n lits p d σ ≠ .error (.fuel, l) :=
  (match_fuel_aux lits n).1 p d σ l h

theorem matchStream_fuel {lits n ps ds mm σ l}
    (h : Pat.sizeList ps + Datum.sizeList ds + Pat.tsize mm + 1 ≤ n) :
    matchStream n lits ps ds mm σ ≠ .error (.fuel, l) :=
  (match_fuel_aux lits n).2 ps ds mm σ l h

end Ruschm.Macro

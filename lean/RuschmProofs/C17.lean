/-
Property C17 — "ruschm FILE evaluates the file's forms in order exactly as the same text evaluated
through the library interface, writes to standard output exactly what the program displayed, and
exits with status 0 when every form succeeded. On the first failing form it stops, has written
only the output produced before it, prints one diagnostic FILE:LINE:COL MESSAGE on standard error
and exits with a non-zero status; a missing or unreadable file is a diagnostic and non-zero
status too."

`Front.cli fuel content` is the model of `main` with a file argument (`content = none`: the file
cannot be read as UTF-8 text). The library interface is `Interp.evalText` on
`Interp.default_ false` (`Interpreter::default()`: no standard library imported — a program
starts with its own `(import …)`). Only property theorems live here; helpers are in
`RuschmProofs/FrontLemmas.lean`, spec-side definitions in `RuschmSpec/Front.lean`.
-/
import RuschmProofs.FrontLemmas

namespace Ruschm.C17
open Ruschm Ruschm.Interp Ruschm.Front Ruschm.FrontSpec

/-- `ruschm FILE` is the library interface applied to the file's text: standard output is the
concatenation, in order, of what the final store's `out` records as displayed; the run exits with
0 and no diagnostic exactly when `evalText` returned a value, and with 255 and ONE diagnostic
carrying the error's location and kind exactly when it returned an error. -/
theorem cli_equals_library_interface (fuel : Nat) (text : String) :
    let r := evalText fuel (default_ false) text.toList
    (cli fuel (some text)).stdout = String.join r.2.store.out.reverse ∧
    (∀ v, r.1 = .ok v →
      (cli fuel (some text)).exitCode = 0 ∧ (cli fuel (some text)).diag = none ∧
      (cli fuel (some text)).errKind = none) ∧
    (∀ e loc, r.1 = .error (e, loc) →
      (cli fuel (some text)).exitCode = 255 ∧ (cli fuel (some text)).diag = some loc ∧
      (cli fuel (some text)).errKind = some e) := by
  intro r
  rw [cli_some]
  have hr : evalText fuel (default_ false) text.toList = r := rfl
  rw [hr]
  obtain ⟨o, st⟩ := r
  cases o with
  | ok v => exact ⟨rfl, ⟨fun _ _ => ⟨rfl, rfl, rfl⟩, fun _ _ h => by cases h⟩⟩
  | error e =>
    obtain ⟨e, l⟩ := e
    exact ⟨rfl, ⟨fun _ h => (by cases h), fun _ _ h => (by cases h; exact ⟨rfl, rfl, rfl⟩)⟩⟩

/-- exit status 0 exactly when the whole text evaluated without error -/
theorem exit_zero_iff_ok (fuel : Nat) (text : String) :
    (cli fuel (some text)).exitCode = 0 ↔
      ∃ v, (evalText fuel (default_ false) text.toList).1 = .ok v := by
  rw [cli_some]
  generalize evalText fuel (default_ false) text.toList = r
  obtain ⟨o, st⟩ := r
  cases o with
  | ok v => exact ⟨fun _ => ⟨v, rfl⟩, fun _ => rfl⟩
  | error e =>
    obtain ⟨e, l⟩ := e
    exact ⟨fun h => (by cases h), fun ⟨_, h⟩ => (by cases h)⟩

/-- There is a diagnostic exactly when the exit status is not 0, for a readable and for an
unreadable file alike; it comes with exactly one error kind; and `diag` being an `Option`, there
is at most one. The only non-zero status is 255 (`exit(-1)`). -/
theorem one_diagnostic_on_failure (fuel : Nat) (content : Option String) :
    ((cli fuel content).diag.isSome ↔ (cli fuel content).exitCode ≠ 0) ∧
    ((cli fuel content).errKind.isSome ↔ (cli fuel content).exitCode ≠ 0) ∧
    ((cli fuel content).exitCode = 0 ∨ (cli fuel content).exitCode = 255) := by
  cases content with
  | none => simp [cli]
  | some text =>
    rw [cli_some]
    generalize evalText fuel (default_ false) text.toList = r
    obtain ⟨o, st⟩ := r
    cases o with
    | ok v => simp
    | error e => obtain ⟨e, l⟩ := e; simp

/-- a missing or unreadable file: an io diagnostic without a location, status 255, nothing on
standard output -/
theorem unreadable_file_is_diagnostic (fuel : Nat) :
    (cli fuel none).stdout = "" ∧ (cli fuel none).diag = some none ∧
    (cli fuel none).errKind = some .io ∧ (cli fuel none).exitCode = 255 :=
  ⟨rfl, rfl, rfl, rfl⟩

end Ruschm.C17

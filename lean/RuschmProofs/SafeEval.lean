/-
Helper lemmas for C07 (5): the evaluator. From a safe store (`Store.Safe`: well-formed, every stored
value safe), on `ok` code, with safe allocated arguments and a procedure in operator position, no
function of the evaluator's mutual block panics; the store stays safe and results are safe and
allocated (`SafeAt`, by induction on fuel).
-/
import RuschmProofs.SafeLemmas
import RuschmProofs.SafeFront
open Ruschm
namespace Ruschm
namespace Eval
open Store

theorem vgoodAll_nil {σ : Store} : VGoodAll σ [] := by simp [VGoodAll]
theorem vgoodAll_cons {σ : Store} {v vs} : VGoodAll σ (v :: vs) ↔ VGood σ v ∧ VGoodAll σ vs := by
  simp [VGoodAll]
theorem VGood.grows {σ σ' : Store} {v} (h : VGood σ v) (g : Grows σ σ') : VGood σ' v := ⟨h.1, h.2.grows g⟩
theorem VGoodAll.grows {σ σ' : Store} {vs} (h : VGoodAll σ vs) (g : Grows σ σ') : VGoodAll σ' vs :=
  fun v hv => (h v hv).grows g
theorem VGoodAll.safeAll {σ : Store} {vs} (h : VGoodAll σ vs) : SafeAll vs := fun v hv => (h v hv).1
theorem VGoodAll.allocAll {σ : Store} {vs} (h : VGoodAll σ vs) : AllocAll σ vs := fun v hv => (h v hv).2

theorem vgood_void {σ : Store} : VGood σ .void := ⟨trivial, fw_void⟩
theorem vgood_closure {σ : Store} {lam ρ} : VGood σ (.closure lam ρ) ↔ lam.ok = true ∧ ρ < σ.frames.size := by
  simp [VGood, fw_closure]
theorem vgood_ofList {σ : Store} {vs} (h : VGoodAll σ vs) : VGood σ (Value.ofList vs) :=
  ⟨Value.safe_ofList h.safeAll, Value.below_ofList h.allocAll⟩

/-! ### stores -/

theorem valsSafe_define {σ : Store} (h : σ.ValsSafe) (ρ : Nat) (k : String) {v : Value} (hv : v.Safe) :
    (σ.define ρ k v).ValsSafe := by
  refine ⟨fun i f hf kv hkv => ?_, by rw [define_vecs]; exact h.vec_vals⟩
  rw [define_frames_getElem?] at hf
  split at hf
  · cases hg : σ.frames[i]? with
    | none => simp [hg] at hf
    | some f0 =>
      simp [hg] at hf; subst hf
      rcases mem_defsInsert hkv with rfl | hm
      · exact hv
      · exact h.frame_vals i f0 hg kv hm
  · exact h.frame_vals i f hf kv hkv

theorem safe_define {σ : Store} (h : σ.Safe) (ρ : Nat) (k : String) {v : Value} (hv : VGood σ v) :
    (σ.define ρ k v).Safe := ⟨wf_define h.wf ρ k hv.2, valsSafe_define h.vals ρ k hv.1⟩

theorem safe_set {σ : Store} (h : σ.Safe) {ρ : Nat} {k : String} {v : Value} (hv : VGood σ v) {b σ'}
    (he : σ.set ρ k v = (b, σ')) : σ'.Safe := by
  have : σ' = (σ.set ρ k v).2 := by rw [he]
  subst this
  rw [set_eq]
  split
  · exact safe_define h _ _ hv
  · exact h

theorem safe_lookup {σ : Store} (h : σ.Safe) {ρ : Nat} {s : String} {v : Value}
    (hl : σ.lookup ρ s = some v) : VGood σ v := by
  refine ⟨?_, lookup_alloc h.wf hl⟩
  rw [lookup_eq_bind] at hl
  cases hr : σ.resolve ρ s with
  | none => simp [hr] at hl
  | some r =>
    simp only [hr, Option.bind_some, binding] at hl
    cases hf : σ.frames[r]? with
    | none => simp [hf] at hl
    | some f =>
      simp only [hf] at hl
      exact h.vals.frame_vals r f hf (s, v) (mem_of_lookup hl)

theorem safe_newFrame {σ : Store} (h : σ.Safe) {c : Nat} (hc : c < σ.frames.size) :
    (σ.newFrame (some c)).2.Safe ∧ Grows σ (σ.newFrame (some c)).2 ∧
      (σ.newFrame (some c)).1 < (σ.newFrame (some c)).2.frames.size := by
  obtain ⟨h1, h2, h3⟩ := fw_newFrame h.wf hc
  refine ⟨⟨h1, ⟨fun i f hf kv hkv => ?_, h.vals.vec_vals⟩⟩, h2, h3⟩
  simp only [Store.newFrame, Array.getElem?_push] at hf
  split at hf
  · cases hf; simp at hkv
  · exact h.vals.frame_vals i f hf kv hkv

theorem safe_newFrame_none {σ : Store} (h : σ.Safe) :
    (σ.newFrame none).2.Safe ∧ Grows σ (σ.newFrame none).2 ∧
      (σ.newFrame none).1 < (σ.newFrame none).2.frames.size := by
  refine ⟨⟨wf_newFrame h.wf none (fun p hp => by cases hp), ⟨fun i f hf kv hkv => ?_, h.vals.vec_vals⟩⟩,
    grows_newFrame σ none, by simp [Store.newFrame]⟩
  simp only [Store.newFrame, Array.getElem?_push] at hf
  split at hf
  · cases hf; simp at hkv
  · exact h.vals.frame_vals i f hf kv hkv

theorem safe_of_eq {σ σ' : Store} (h : σ.Safe) (hf : σ'.frames = σ.frames) (hv : σ'.vecs = σ.vecs) : σ'.Safe :=
  ⟨wf_of_eq h.wf hf hv, Prim.valsSafe_of_eq h.vals hf hv⟩

theorem safe_enter {σ : Store} : (enter σ).Safe ↔ σ.Safe :=
  ⟨fun h => safe_of_eq (σ := enter σ) h rfl rfl, fun h => safe_of_eq h rfl rfl⟩
theorem safe_leave {σ : Store} : (leave σ).Safe ↔ σ.Safe :=
  ⟨fun h => safe_of_eq (σ := leave σ) h rfl rfl, fun h => safe_of_eq h rfl rfl⟩
theorem vgood_enter {σ : Store} {v} : VGood (enter σ) v ↔ VGood σ v := by
  simp [VGood, (fw_enter (σ := σ)).2 v]
theorem vgood_leave {σ : Store} {v} : VGood (leave σ) v ↔ VGood σ v := by
  simp [VGood, (fw_leave (σ := σ)).2 v]
theorem vgoodAll_enter {σ : Store} {vs} : VGoodAll (enter σ) vs ↔ VGoodAll σ vs := by
  simp [VGoodAll, vgood_enter]


/-! ### literals -/

theorem evalPrim_good {p : Prim} (hp : p.ratOk = true) :
    (∀ e, evalPrim p = .error e → ∀ s, e ≠ .panic s) ∧ ∀ v, evalPrim p = .ok v → ∀ σ : Store, VGood σ v := by
  cases p <;> simp only [evalPrim]
  case rat n d =>
    have hd : (d : Int) ≠ 0 := by simp [Prim.ratOk] at hp; exact_mod_cast hp
    obtain ⟨r, hr⟩ := C09.exactRatio_no_panic (n := n) hd
    rw [hr]
    refine ⟨fun e h => (by cases h), fun v h σ => ?_⟩
    simp [Except.map] at h; subst h
    exact ⟨(C09.exactRatio_wf hr).posDen, by simp [Store.AllocIn, Value.Below, Value.frameIds, Value.vecIds]⟩
  all_goals
    refine ⟨fun e h => (by cases h), fun v h σ => ?_⟩
    cases h
    exact ⟨trivial, by simp [Store.AllocIn, Value.Below, Value.frameIds, Value.vecIds]⟩

theorem valsSafe_allocVec' {σ : Store} (h : σ.ValsSafe) (m : Bool) {items : List Value} (hi : SafeAll items) :
    (σ.allocVec m items).2.ValsSafe := Prim.valsSafe_allocVec h m hi

/-- outcome of building a literal -/
def LitOK {α} (Q : α → Prop) (x : Res α) : Prop :=
  x.2.ValsSafe ∧ (∀ er, x.1 = .error er → er.NP) ∧ ∀ v, x.1 = .ok v → Q v

theorem litOK_ok {α} {Q : α → Prop} {σ : Store} {v : α} (hσ : σ.ValsSafe) (hv : Q v) :
    LitOK Q ((.ok v, σ) : Res α) :=
  ⟨hσ, fun er h => (by cases h), fun v' h => (by cases h; exact hv)⟩
theorem litOK_err {α} {Q : α → Prop} {σ : Store} {e : SErr} (hσ : σ.ValsSafe) (he : e.NP) :
    LitOK Q ((.error e, σ) : Res α) :=
  ⟨hσ, fun er h => (by cases h; exact he), fun v' h => (by cases h)⟩

mutual
theorem readLiteral_safe : ∀ (d : Datum) (σ : Store), σ.ValsSafe → d.ratOk = true →
    LitOK Value.Safe (readLiteral σ d)
  | .prim p _, σ, hσ, hd => by
    rw [readLiteral]
    have := evalPrim_good (p := p) hd
    split
    · rename_i v hv; exact litOK_ok hσ (this.2 v hv σ).1
    · rename_i e he; exact litOK_err hσ (fun s hs => this.1 e he s hs)
  | .sym s _, σ, hσ, _ => by rw [readLiteral]; exact litOK_ok hσ trivial
  | .nil _, σ, hσ, _ => by rw [readLiteral]; exact litOK_ok hσ trivial
  | .pair a d _, σ, hσ, hd => by
    simp only [Datum.ratOk, Bool.and_eq_true] at hd
    rw [readLiteral]
    have ha := readLiteral_safe a σ hσ hd.1
    split
    · rename_i e σ₁ h₁
      rw [h₁] at ha
      exact litOK_err ha.1 (ha.2.1 _ rfl)
    · rename_i va σ₁ h₁
      rw [h₁] at ha
      have hd' := readLiteral_safe d σ₁ ha.1 hd.2
      split
      · rename_i e σ₂ h₂
        rw [h₂] at hd'
        exact litOK_err hd'.1 (hd'.2.1 _ rfl)
      · rename_i vd σ₂ h₂
        rw [h₂] at hd'
        exact litOK_ok hd'.1 ⟨ha.2.2 _ rfl, hd'.2.2 _ rfl⟩
  | .vec xs _, σ, hσ, hd => by
    simp only [Datum.ratOk] at hd
    rw [readLiteral]
    have hx := readLiterals_safe xs σ hσ hd
    split
    · rename_i e σ₁ h₁
      rw [h₁] at hx
      exact litOK_err hx.1 (hx.2.1 _ rfl)
    · rename_i vs σ₁ h₁
      rw [h₁] at hx
      exact litOK_ok (Prim.valsSafe_allocVec hx.1 false (hx.2.2 vs rfl)) trivial
theorem readLiterals_safe : ∀ (ds : List Datum) (σ : Store), σ.ValsSafe → Datum.ratOkList ds = true →
    LitOK SafeAll (readLiterals σ ds)
  | [], σ, hσ, _ => by rw [readLiterals]; exact litOK_ok hσ safeAll_nil
  | x :: xs, σ, hσ, hd => by
    simp only [Datum.ratOkList, Bool.and_eq_true] at hd
    rw [readLiterals]
    have ha := readLiteral_safe x σ hσ hd.1
    split
    · rename_i e σ₁ h₁
      rw [h₁] at ha
      exact litOK_err ha.1 (ha.2.1 _ rfl)
    · rename_i va σ₁ h₁
      rw [h₁] at ha
      have hd' := readLiterals_safe xs σ₁ ha.1 hd.2
      split
      · rename_i e σ₂ h₂
        rw [h₂] at hd'
        exact litOK_err hd'.1 (hd'.2.1 _ rfl)
      · rename_i vd σ₂ h₂
        rw [h₂] at hd'
        exact litOK_ok hd'.1 (safeAll_cons.2 ⟨ha.2.2 _ rfl, hd'.2.2 _ rfl⟩)
end

theorem readLiteral_post {σ : Store} {d : Datum} {r σ'} (h : readLiteral σ d = (r, σ')) (hσ : σ.Safe)
    (hd : d.ratOk = true) : Post σ' r (VGood σ') := by
  have h1 := readLiteral_safe d σ hσ.vals hd
  have h2 := readLiteral_wf hσ.wf d
  rw [h] at h1 h2
  exact ⟨⟨h2.1, h1.1⟩, h1.2.1, fun v hv => ⟨h1.2.2 v hv, h2.2 v hv⟩⟩

theorem evalPrim_post {σ : Store} {p : Prim} (hσ : σ.Safe) (hp : p.ratOk = true) :
    Post σ (match evalPrim p with | .ok v => (.ok v : Except SErr Value) | .error er => .error (er, none)) (VGood σ) := by
  have := evalPrim_good (p := p) hp
  refine ⟨hσ, fun er h => ?_, fun v h => ?_⟩
  · split at h
    · cases h
    · rename_i e he; cases h; exact fun s hs => this.1 e he s hs
  · split at h
    · rename_i v' hv; cases h; exact this.2 _ hv σ
    · cases h


/-! ### native procedures, `apply`, parameter binding -/

theorem applyPure_post {σ : Store} {b : Builtin} {args : List Value} {r σ'}
    (h : Prim.applyPure σ b args = (r, σ')) (hσ : σ.Safe) (ha : VGoodAll σ args) (hb : b ≠ .apply)
    (har : arityOk b.arity.1 b.arity.2 args.length = true) : Post σ' r (VGood σ') := by
  have h1 := Prim.applyPure_rok hb har ha.safeAll ha.allocAll hσ.vals
  have h2 := Prim.applyPure_valsSafe hσ.vals b ha.safeAll
  have h3 := Prim.applyPure_wf hσ.wf b ha.allocAll
  rw [h] at h1 h2 h3
  exact ⟨⟨h3.1, h2⟩, fun er he => noPanic_iff.1 h1.np er he, fun v hv => ⟨h1.val v hv, h3.2 v hv⟩⟩

theorem spreadApply_post {σ : Store} {args : List Value} (ha : VGoodAll σ args) (hl : 1 ≤ args.length) :
    (∀ e, spreadApply args = .error e → ∀ s, e ≠ .panic s) ∧
    ∀ f args', spreadApply args = .ok (f, args') → VGood σ f ∧ VGoodAll σ args' ∧ (procArity f).isSome = true := by
  unfold spreadApply
  cases args with
  | nil => simp at hl
  | cons f rest =>
    simp only
    have hf : VGood σ f := ha f (by simp)
    cases hp : procArity f with
    | none => exact ⟨fun e h s hs => (by cases h; cases hs), fun _ _ h => (by cases h)⟩
    | some ar =>
      simp only
      split
      · refine ⟨fun e h => (by cases h), fun f' a' h => ?_⟩
        cases h; exact ⟨hf, vgoodAll_nil, by simp [hp]⟩
      · rename_i last hl'
        have hlast : last ∈ rest := List.mem_of_getLast? hl'
        have hgl : VGood σ last := ha _ (by simp [hlast])
        have key : VGoodAll σ (rest.dropLast ++ last.elems) := by
          intro a hm
          rcases List.mem_append.1 hm with hm | hm
          · exact ha _ (List.mem_cons_of_mem _ (List.dropLast_subset _ hm))
          · exact ⟨Value.safe_elems hgl.1 a hm, Value.below_elems hgl.2 a hm⟩
        split
        · refine ⟨fun e h => (by cases h), fun f' a' h => ?_⟩
          cases h; exact ⟨hf, key, by simp [hp]⟩
        · refine ⟨fun e h => (by cases h), fun f' a' h => ?_⟩
          cases h; exact ⟨hf, key, by simp [hp]⟩
        · exact ⟨fun e h s hs => (by cases h; cases hs), fun _ _ h => (by cases h)⟩

theorem bindFixed_post : ∀ (names : List String) (args : List Value) (σ : Store) (ρ : Nat), σ.Safe →
    VGoodAll σ args → names.length ≤ args.length →
    (bindFixed σ ρ names args).2.Safe ∧
      ∃ rest, (bindFixed σ ρ names args).1 = .ok rest ∧ VGoodAll (bindFixed σ ρ names args).2 rest
  | [], args, σ, _, hσ, ha, _ => by rw [bindFixed]; exact ⟨hσ, args, rfl, ha⟩
  | _ :: _, [], σ, _, _, _, hl => by simp at hl
  | f :: fs, a :: as, σ, ρ, hσ, ha, hl => by
    rw [bindFixed]
    have h1 : (σ.define ρ f a).Safe := safe_define hσ ρ f (ha a (by simp))
    have h2 : VGoodAll (σ.define ρ f a) as :=
      VGoodAll.grows (fun v hv => ha v (by simp [hv])) (grows_define σ ρ f a)
    exact bindFixed_post fs as _ ρ h1 h2 (by simpa using hl)

theorem arityOk_le {f : Nat} {v : Bool} {n : Nat} (h : arityOk f v n = true) : f ≤ n :=
  ((Prim.arityOk_iff f v n).1 h).1


/-! ## the evaluator: induction on fuel over the whole mutual block -/

theorem post_fuel {α} {Q : α → Prop} {σ : Store} (hσ : σ.Safe) {l : Loc} :
    Post σ (.error (.fuel, l) : Except SErr α) Q :=
  ⟨hσ, fun er h => (by cases h; simp), fun a h => (by cases h)⟩

theorem safeAt_zero : SafeAt 0 := by
  constructor
  · intro σ ρ e r σ' h hσ _ _; rw [evalExpr] at h; cases h; exact post_fuel hσ
  · intro σ ρ e r σ' h hσ _ _; rw [evalArgs] at h; cases h; exact post_fuel hσ
  · intro σ p a env r σ' h hσ _ _ _; rw [applyProcedure] at h; cases h; exact post_fuel hσ
  · intro σ p a env r σ' h hσ _ _ _; rw [applyLoop] at h; cases h; exact post_fuel hσ
  · intro σ l c a r σ' h hσ _ _ _ _; rw [applyScheme] at h; cases h; exact post_fuel hσ
  · intro σ ρ e r σ' h hσ _ _; rw [evalDefs] at h; cases h; exact post_fuel hσ
  · intro σ ρ e r σ' h hσ _ _ _; rw [evalBody] at h; cases h; exact post_fuel hσ
  · intro σ ρ e r σ' h hσ _ _; rw [evalTail] at h; cases h; exact post_fuel hσ

/-! forward forms of the induction hypothesis, for `grind` -/

theorem post_iff {α} {Q : α → Prop} {σ' : Store} {r : Except SErr α} :
    Post σ' r Q ↔ σ'.Safe ∧ (∀ er, r = .error er → er.NP) ∧ ∀ a, r = .ok a → Q a :=
  ⟨fun h => ⟨h.store, h.np, h.val⟩, fun h => ⟨h.1, h.2.1, h.2.2⟩⟩

/-- `Post` unfolded (so that `grind` does not pick it as a pattern) -/
abbrev PostU {α} (σ' : Store) (r : Except SErr α) (Q : α → Prop) : Prop :=
  σ'.Safe ∧ (∀ er, r = .error er → er.NP) ∧ ∀ a, r = .ok a → Q a


theorem SafeAt.expr' {n} (ih : SafeAt n) {σ ρ e r σ'} (h : evalExpr n σ ρ e = (r, σ')) (hσ : σ.Safe)
    (hρ : ρ < σ.frames.size) (he : e.ok = true) : PostU σ' r (VGood σ') :=
  post_iff.1 (ih.expr _ _ _ _ _ h hσ hρ he)
theorem SafeAt.args' {n} (ih : SafeAt n) {σ ρ es r σ'} (h : evalArgs n σ ρ es = (r, σ')) (hσ : σ.Safe)
    (hρ : ρ < σ.frames.size) (he : Expr.okList es = true) : PostU σ' r (VGoodAll σ') :=
  post_iff.1 (ih.args _ _ _ _ _ h hσ hρ he)
theorem SafeAt.proc' {n} (ih : SafeAt n) {σ p as env r σ'} (h : applyProcedure n σ p as env = (r, σ'))
    (hσ : σ.Safe) (hp : VGood σ p) (ha : VGoodAll σ as) (hq : (procArity p).isSome = true) :
    PostU σ' r (VGood σ') :=
  post_iff.1 (ih.proc _ _ _ _ _ _ h hσ hp ha hq)
theorem SafeAt.loop' {n} (ih : SafeAt n) {σ p as env r σ'} (h : applyLoop n σ p as env = (r, σ'))
    (hσ : σ.Safe) (hp : VGood σ p) (ha : VGoodAll σ as) (hq : (procArity p).isSome = true) :
    PostU σ' r (VGood σ') :=
  post_iff.1 (ih.loop _ _ _ _ _ _ h hσ hp ha hq)
theorem SafeAt.scheme' {n} (ih : SafeAt n) {σ lam cenv as r σ'} (h : applyScheme n σ lam cenv as = (r, σ'))
    (hσ : σ.Safe) (hc : cenv < σ.frames.size) (hl : lam.ok = true) (ha : VGoodAll σ as)
    (har : arityOk lam.formals.fixed.length lam.formals.rest.isSome as.length = true) :
    PostU σ' r (TGood σ') :=
  post_iff.1 (ih.scheme _ _ _ _ _ _ h hσ hc hl ha har)
theorem SafeAt.defs' {n} (ih : SafeAt n) {σ ρ ds r σ'} (h : evalDefs n σ ρ ds = (r, σ')) (hσ : σ.Safe)
    (hρ : ρ < σ.frames.size) (he : Def.okList ds = true) : PostU σ' r (fun _ => True) :=
  post_iff.1 (ih.defs _ _ _ _ _ h hσ hρ he)
theorem SafeAt.body' {n} (ih : SafeAt n) {σ ρ es r σ'} (h : evalBody n σ ρ es = (r, σ')) (hσ : σ.Safe)
    (hρ : ρ < σ.frames.size) (he : Expr.okList es = true) (hne : es.isEmpty = false) :
    PostU σ' r (TGood σ') :=
  post_iff.1 (ih.body _ _ _ _ _ h hσ hρ he hne)
theorem SafeAt.tail' {n} (ih : SafeAt n) {σ ρ e r σ'} (h : evalTail n σ ρ e = (r, σ')) (hσ : σ.Safe)
    (hρ : ρ < σ.frames.size) (he : e.ok = true) : PostU σ' r (TGood σ') :=
  post_iff.1 (ih.tail _ _ _ _ _ h hσ hρ he)


theorem ge_expr' {n σ ρ e r σ'} (h : evalExpr n σ ρ e = (r, σ')) : Grows σ σ' := ge_expr n h
theorem ge_args' {n σ ρ e r σ'} (h : evalArgs n σ ρ e = (r, σ')) : Grows σ σ' := ge_args n h
theorem ge_loop' {n σ p a env r σ'} (h : applyLoop n σ p a env = (r, σ')) : Grows σ σ' := ge_loop n h
theorem ge_scheme' {n σ l c a r σ'} (h : applyScheme n σ l c a = (r, σ')) : Grows σ σ' := ge_scheme n h
theorem ge_defs' {n σ ρ ds r σ'} (h : evalDefs n σ ρ ds = (r, σ')) : Grows σ σ' := ge_defs n h

grind_pattern ge_expr' => evalExpr n σ ρ e, Prod.mk r σ'
grind_pattern ge_args' => evalArgs n σ ρ e, Prod.mk r σ'
grind_pattern ge_loop' => applyLoop n σ p a env, Prod.mk r σ'
grind_pattern ge_scheme' => applyScheme n σ l c a, Prod.mk r σ'
grind_pattern ge_defs' => evalDefs n σ ρ ds, Prod.mk r σ'
grind_pattern SafeAt.expr' => SafeAt n, evalExpr n σ ρ e, Prod.mk r σ'
grind_pattern SafeAt.args' => SafeAt n, evalArgs n σ ρ es, Prod.mk r σ'
grind_pattern SafeAt.proc' => SafeAt n, applyProcedure n σ p as env, Prod.mk r σ'
grind_pattern SafeAt.loop' => SafeAt n, applyLoop n σ p as env, Prod.mk r σ'
grind_pattern SafeAt.scheme' => SafeAt n, applyScheme n σ lam cenv as, Prod.mk r σ'
grind_pattern SafeAt.defs' => SafeAt n, evalDefs n σ ρ ds, Prod.mk r σ'
grind_pattern SafeAt.body' => SafeAt n, evalBody n σ ρ es, Prod.mk r σ'
grind_pattern SafeAt.tail' => SafeAt n, evalTail n σ ρ e, Prod.mk r σ'
grind_pattern safe_set => Store.set σ ρ k v, Prod.mk b σ'
grind_pattern safe_lookup => Store.lookup σ ρ s, some v
grind_pattern VGood.grows => VGood σ v, Grows σ σ'
grind_pattern VGoodAll.grows => VGoodAll σ vs, Grows σ σ'
grind_pattern lt_grows => ρ < σ.frames.size, Grows σ σ'

theorem np_of_kind {e : Err} {l : Loc} (h : ∀ s, e ≠ .panic s) : SErr.NP (e, l) := fun s hs => h s hs

theorem spreadApply_fw {σ : Store} {args : List Value} (ha : VGoodAll σ args) (hl : 1 ≤ args.length) :
    (∀ e, spreadApply args = .error e → ∀ l, SErr.NP (e, l)) ∧
    ∀ v, spreadApply args = .ok v → VGood σ v.1 ∧ VGoodAll σ v.2 ∧ (procArity v.1).isSome = true := by
  have := spreadApply_post ha hl
  exact ⟨fun e he l => np_of_kind (this.1 e he), fun v hv => this.2 v.1 v.2 hv⟩

theorem applyPure_fw {σ : Store} {b : Builtin} {args : List Value} {r σ'}
    (h : Prim.applyPure σ b args = (r, σ')) (hσ : σ.Safe) (ha : VGoodAll σ args) (hb : b ≠ .apply)
    (har : arityOk b.arity.1 b.arity.2 args.length = true) : PostU σ' r (VGood σ') :=
  post_iff.1 (applyPure_post h hσ ha hb har)

grind_pattern applyPure_fw => Prim.applyPure σ b args, Prod.mk r σ'

section
variable {n : Nat} (ih : SafeAt n)
include ih

theorem safe_expr : ∀ σ ρ e r σ', evalExpr (n+1) σ ρ e = (r, σ') → σ.Safe → ρ < σ.frames.size → e.ok = true →
    Post σ' r (VGood σ') := by
  intro σ ρ e r σ' h hσ hρ he
  rw [post_iff]
  cases e <;> simp only [evalExpr] at h <;> (try simp only [Expr.ok, Bool.and_eq_true] at he)
  case prim p l =>
    have := evalPrim_post (σ := σ) hσ he
    rw [post_iff] at this
    repeat' split at h
    all_goals grind
  case datum => have := readLiteral_post h hσ he; rw [post_iff] at this; exact this
  case quote => have := readLiteral_post h hσ he; rw [post_iff] at this; exact this
  case sym s l =>
    repeat' split at h
    all_goals grind [safe_lookup, np_of_kind]
  case lambda lam l =>
    grind [vgood_closure]
  case assign name ve l =>
    repeat' split at h
    all_goals grind [SafeAt.expr', post_iff, safe_set, vgood_void, np_of_kind]
  case cond t c a l =>
    have het : t.ok = true ∧ c.ok = true ∧ ∀ x, a = some x → x.ok = true := by
      cases a <;> simp_all [Expr.ok]
    clear he
    repeat' split at h
    all_goals grind [SafeAt.expr', post_iff, ge_expr', lt_grows, vgood_void]
  case call f args l =>
    repeat' split at h
    all_goals grind [SafeAt.expr', SafeAt.args', SafeAt.proc', post_iff, ge_expr', ge_args', lt_grows, VGood.grows, np_of_kind]

theorem safe_args : ∀ σ ρ es r σ', evalArgs (n+1) σ ρ es = (r, σ') → σ.Safe → ρ < σ.frames.size →
    Expr.okList es = true → Post σ' r (VGoodAll σ') := by
  intro σ ρ es r σ' h hσ hρ he
  rw [post_iff]
  cases es <;> simp only [evalArgs] at h
  · grind [vgoodAll_nil]
  · simp only [Expr.okList, Bool.and_eq_true] at he
    repeat' split at h
    all_goals grind [SafeAt.expr', SafeAt.args', ge_expr', ge_args', lt_grows, VGood.grows, vgoodAll_cons]

theorem safe_proc : ∀ σ p as env r σ', applyProcedure (n+1) σ p as env = (r, σ') → σ.Safe → VGood σ p →
    VGoodAll σ as → (procArity p).isSome = true → Post σ' r (VGood σ') := by
  intro σ p as env r σ' h hσ hp ha hq
  rw [applyProcedure] at h
  split at h
  rename_i heq
  have hl := ih.loop _ _ _ _ _ _ heq (safe_enter.2 hσ) (vgood_enter.2 hp) (vgoodAll_enter.2 ha) hq
  simp only [Prod.mk.injEq] at h; obtain ⟨rfl, rfl⟩ := h
  exact ⟨safe_leave.2 hl.store, hl.np, fun v hv => vgood_leave.2 (hl.val v hv)⟩

theorem safe_defs : ∀ σ ρ ds r σ', evalDefs (n+1) σ ρ ds = (r, σ') → σ.Safe → ρ < σ.frames.size →
    Def.okList ds = true → Post σ' r (fun _ => True) := by
  intro σ ρ ds r σ' h hσ hρ he
  rw [post_iff]
  rcases ds with _ | ⟨⟨name, e, l⟩, ds⟩ <;> simp only [evalDefs] at h
  · grind
  · simp only [Def.okList, Def.ok, Bool.and_eq_true] at he
    repeat' split at h
    all_goals grind [SafeAt.expr', SafeAt.defs', ge_expr', lt_grows, safe_define, define_frames_size]

theorem safe_body : ∀ σ ρ es r σ', evalBody (n+1) σ ρ es = (r, σ') → σ.Safe → ρ < σ.frames.size →
    Expr.okList es = true → es.isEmpty = false → Post σ' r (TGood σ') := by
  intro σ ρ es r σ' h hσ hρ he hne
  rw [post_iff]
  rcases es with _ | ⟨e, _ | ⟨e', es⟩⟩ <;> simp only [evalBody] at h
  · simp at hne
  · simp only [Expr.okList, Bool.and_eq_true] at he
    grind [SafeAt.tail']
  · simp only [Expr.okList, Bool.and_eq_true] at he
    repeat' split at h
    all_goals grind [SafeAt.expr', SafeAt.body', ge_expr', lt_grows, Expr.okList]

theorem safe_tail : ∀ σ ρ e r σ', evalTail (n+1) σ ρ e = (r, σ') → σ.Safe → ρ < σ.frames.size → e.ok = true →
    Post σ' r (TGood σ') := by
  intro σ ρ e r σ' h hσ hρ he
  rw [post_iff]
  cases e <;> simp only [evalTail] at h
  case call f args l =>
    simp only [Expr.ok, Bool.and_eq_true] at he
    grind [TGood]
  case cond t c a l =>
    have het : t.ok = true ∧ c.ok = true ∧ ∀ x, a = some x → x.ok = true := by
      cases a <;> simp_all [Expr.ok]
    clear he
    repeat' split at h
    all_goals grind [SafeAt.expr', SafeAt.tail', ge_expr', lt_grows, vgood_void, TGood]
  all_goals
    repeat' split at h
    all_goals grind [SafeAt.expr', TGood]

theorem safe_scheme : ∀ σ lam cenv as r σ', applyScheme (n+1) σ lam cenv as = (r, σ') → σ.Safe →
    cenv < σ.frames.size → lam.ok = true → VGoodAll σ as →
    arityOk lam.formals.fixed.length lam.formals.rest.isSome as.length = true → Post σ' r (TGood σ') := by
  intro σ lam cenv as r σ' h hσ hc hl ha har
  obtain ⟨formals, defs, body⟩ := lam
  simp only [Lambda.ok, Bool.and_eq_true, Bool.not_eq_true'] at hl
  obtain ⟨⟨hdefs, hbody⟩, hne⟩ := hl
  simp only [applyScheme, Lambda.formals, Lambda.defs, Lambda.body] at h har
  obtain ⟨hs1, hg1, hρ1⟩ := safe_newFrame hσ hc
  have ha1 : VGoodAll (σ.newFrame (some cenv)).2 as := ha.grows hg1
  have hb := bindFixed_post formals.fixed as _ (σ.newFrame (some cenv)).1 hs1 ha1 (arityOk_le har)
  have hgb := bindFixed_grows formals.fixed as (σ.newFrame (some cenv)).2 (σ.newFrame (some cenv)).1
  generalize bindFixed (σ.newFrame (some cenv)).2 (σ.newFrame (some cenv)).1 formals.fixed as = bf at h hb hgb
  obtain ⟨rb, σb⟩ := bf
  obtain ⟨hsb, rest, hrb, hrest⟩ := hb
  simp only at hrb hsb hrest hgb h
  subst hrb
  simp only at h
  have hρb : (σ.newFrame (some cenv)).1 < σb.frames.size := lt_grows hρ1 hgb
  cases hfr : formals.rest <;> simp only [hfr] at h
  all_goals
    split at h
    · rename_i er σ3 hd
      have := ih.defs _ _ _ _ _ hd (by first | exact hsb | exact safe_define hsb _ _ (vgood_ofList hrest))
        (by first | exact hρb | simpa using hρb) hdefs
      cases h
      exact ⟨this.store, fun e he => (by cases he; exact this.np _ rfl), fun a ha => (by cases ha)⟩
    · rename_i σ3 hd
      have h3 := ih.defs _ _ _ _ _ hd (by first | exact hsb | exact safe_define hsb _ _ (vgood_ofList hrest))
        (by first | exact hρb | simpa using hρb) hdefs
      have hρ3 : (σ.newFrame (some cenv)).1 < σ3.frames.size :=
        lt_grows (by first | exact hρb | simpa using hρb) (ge_defs n hd)
      exact ih.body _ _ _ _ _ h h3.store hρ3 hbody hne

theorem safe_loop : ∀ σ p as env r σ', applyLoop (n+1) σ p as env = (r, σ') → σ.Safe → VGood σ p →
    VGoodAll σ as → (procArity p).isSome = true → Post σ' r (VGood σ') := by
  intro σ p as env r σ' h hσ hp ha hq
  rw [post_iff]
  rw [applyLoop.eq_def] at h
  dsimp only at h
  cases p <;> simp only [procArity, Option.isSome_none, Bool.false_eq_true] at hq
  case closure lam cenv =>
    have hlc := vgood_closure.1 hp
    rw [show procArity (Value.closure lam cenv) = some (lam.formals.fixed.length, lam.formals.rest.isSome) from rfl] at h
    simp only at h
    split at h
    · grind [np_of_kind]
    · repeat' split at h
      all_goals grind [SafeAt.scheme', SafeAt.expr', SafeAt.args', SafeAt.loop', TGood, ge_expr', ge_args',
        lt_grows, VGood.grows, np_of_kind]
  case builtin b =>
    rw [show procArity (Value.builtin b) = some b.arity from rfl] at h
    simp only at h
    split at h
    · grind [np_of_kind]
    · rename_i har
      simp only [Bool.not_eq_true, Bool.not_eq_false'] at har
      by_cases hb : b = .apply
      · subst hb
        have hl : 1 ≤ as.length := arityOk_le har
        have hsp := spreadApply_fw ha hl
        simp only at h
        repeat' split at h
        all_goals grind [SafeAt.loop']
      · have := applyPure_post (σ := σ) (b := b) (args := as) (r := r) (σ' := σ')
        cases b <;> simp only at h <;> first | (exact absurd rfl hb) | (exact post_iff.1 (this h hσ ha hb har))
end

theorem safeAt : ∀ n, SafeAt n
  | 0 => safeAt_zero
  | n + 1 =>
    have ih := safeAt n
    ⟨safe_expr ih, safe_args ih, safe_proc ih, safe_loop ih, safe_scheme ih, safe_defs ih, safe_body ih,
      safe_tail ih⟩

/-- the evaluator on `ok` code in a safe store: a safe store, no panic, a safe allocated value -/
theorem evalExpr_post {fuel : Nat} {σ : Store} {ρ : Nat} {e : Expr} (hσ : σ.Safe) (hρ : ρ < σ.frames.size)
    (he : e.ok = true) : Post (evalExpr fuel σ ρ e).2 (evalExpr fuel σ ρ e).1 (VGood (evalExpr fuel σ ρ e).2) :=
  (safeAt fuel).expr σ ρ e _ _ rfl hσ hρ he

end Eval
end Ruschm

/-
driver — runs the Lean model on the same TSV cases the Rust harness runs on the real code.
`id \t kind \t field...` on stdin, `id \t result...` on stdout.
-/
import RuschmModel.DriverNum
import RuschmModel.DriverText
import RuschmModel.DriverMacro
import RuschmModel.DriverGen
import RuschmModel.DriverProg
import RuschmModel.DriverFront
open Ruschm

def runCase (kind : String) (fields : List String) : List String :=
  match kind with
  | "numop" => Driver.numop fields
  | "lex" => Driver.lex fields
  | "read" => Driver.read fields
  | "bracket" => Driver.bracket fields
  | "expand" => Driver.expand fields
  | "prog" => Driver.prog fields
  | "progx" => Driver.progx fields
  | "evalfile" => Driver.evalfile fields
  | "imports" => Driver.imports fields
  | "libs" => Driver.libs fields
  | "cli" => Driver.cli fields
  | "repl" => Driver.repl fields
  | "world" => Driver.world fields
  | "display" => Driver.display fields
  | "gen-selfcheck" => Driver.genSelfcheck fields
  | "gen-text" => Driver.genText fields
  | "gen-data" => Driver.genData fields
  | k => ["X unknown-kind " ++ k]

partial def loop (h : IO.FS.Stream) (out : IO.FS.Stream) : IO Unit := do
  let line ← h.getLine
  if line.isEmpty then return ()
  let line := if line.endsWith "\n" then (line.dropEnd 1).toString else line
  if line.isEmpty then loop h out else
  match line.splitOn "\t" with
  | id :: kind :: fields =>
    let res := runCase kind fields
    out.putStrLn (id ++ "\t" ++ "\t".intercalate (res.map Proto.outField))
    loop h out
  | _ => loop h out

def main : IO Unit := do
  let stdin ← IO.getStdin
  let stdout ← IO.getStdout
  loop stdin stdout

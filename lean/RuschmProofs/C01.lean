/-
Property C01 — the core forms evaluate as the R7RS evaluation rules prescribe.

"Evaluating a program made of the core forms (procedure application with fixed and rest
parameters, lambda, top-level and internal definitions, if, quote, self-evaluating literals,
higher-order procedures, apply) yields for every top-level form exactly the value the R7RS
evaluation rules assign: lexical lookup of the innermost binding, every operand evaluated exactly
once before the call, only #f counting as false, internal definitions visible to the whole body.
This holds however the forms are nested and whichever of the equivalent spellings (define sugar vs
lambda, fixed vs rest parameters, direct call vs apply) is used."

Only property theorems live here (each is audited with `#print axioms`); helper lemmas are in
`RuschmProofs/EvalLemmas.lean`, vocabulary and the reference evaluator in `RuschmSpec/Ref.lean`.
The judgements `Evals σ ρ e r σ'`, `EvalsArgs`, `AppliesProc`, `Applies`, … mean "for every large
enough fuel the model function returns the outcome `r` (not the fuel error) and the store `σ'`".
-/
import RuschmSpec.Ref
import RuschmProofs.EvalLemmas
import RuschmModel.Interp

namespace Ruschm.C01
open Ruschm Ruschm.Eval Ruschm.Ref

/-! ## sample data for the non-vacuity examples -/

def num (i : Int) : Value := .num (.int i)
def lit (i : Int) : Expr := .prim (.int i) none
def var (s : String) : Expr := .sym s none

/-- a global frame 0 (`x = 1`, `y = 10`, some builtins) and a child frame 1 (`x = 2`) -/
def σ₀ : Store :=
  let σ := ((({} : Store).newFrame none).2.define 0 "x" (num 1)).define 0 "y" (num 10)
  let σ := ((σ.define 0 "+" (.builtin .add)).define 0 "tick" (.builtin .tick)).define 0 "apply" (.builtin .apply)
  let σ := ((σ.define 0 "cons" (.builtin .cons)).define 0 "car" (.builtin .car)).define 0 "*" (.builtin .mul)
  (σ.newFrame (some 0)).2.define 1 "x" (num 2)

/-- the sample store satisfies the hypothesis of `lookup_innermost` -/
example : ParentsOlder σ₀ := by
  unfold σ₀
  apply parentsOlder_define
  apply parentsOlder_newFrame
  · repeat apply parentsOlder_define
    exact parentsOlder_newFrame parentsOlder_empty (by simp)
  · intro p hp; cases hp; decide

/-! ## 1. lexical lookup: the innermost binding -/

/-- In a store whose frames have older parents, looking `x` up from frame `ρ` gives the binding of
the NEAREST frame on `ρ`'s parent chain that binds `x` (`findSome?` over the chain, innermost
first). -/
theorem lookup_innermost {σ : Store} (h : ParentsOlder σ) (ρ : Nat) (x : String) :
    σ.lookup ρ x = (chain σ ρ).findSome? (frameBinding σ x) :=
  lookup_eq_chain h ρ x

/-- Without any hypothesis on the store: the lookup is the binding of the nearest frame on the chain
of OLDER parents (`chainOlder`: a parent link to a frame that is not older ends the chain), and that
chain is the whole parent chain when parents are older. -/
theorem lookup_innermost_unconditional (σ : Store) (ρ : Nat) (x : String) :
    σ.lookup ρ x = (chainOlder σ ρ).findSome? (frameBinding σ x) ∧
    (ParentsOlder σ → ρ < σ.frames.size → chainOlder σ ρ = chain σ ρ) :=
  ⟨lookupAux_eq_chainOlderAux σ x (ρ + 1) ρ,
   fun h hρ => chainOlderAux_eq_chainAux h _ _ ρ (Nat.lt_succ_self ρ) hρ⟩

example : chainOlder σ₀ 1 = [1, 0] := rfl

/-- … spelled out: `some v` iff some frame `i` of the chain binds `x` to `v` and no frame before it
(nearer to `ρ`) binds `x`; `none` iff no frame of the chain binds `x`. -/
theorem lookup_innermost_iff {σ : Store} (h : ParentsOlder σ) (ρ : Nat) (x : String) :
    (∀ v, σ.lookup ρ x = some v ↔
      ∃ nearer i outer, chain σ ρ = nearer ++ i :: outer ∧ frameBinding σ x i = some v ∧
        ∀ j ∈ nearer, frameBinding σ x j = none) ∧
    (σ.lookup ρ x = none ↔ ∀ i ∈ chain σ ρ, frameBinding σ x i = none) := by
  rw [lookup_eq_chain h]
  exact ⟨fun v => List.findSome?_eq_some_iff, List.findSome?_eq_none_iff⟩

example : chain σ₀ 1 = [1, 0] ∧ σ₀.lookup 1 "x" = some (num 2) ∧ σ₀.lookup 0 "x" = some (num 1) ∧
    σ₀.lookup 1 "y" = some (num 10) ∧ (σ₀.lookup 1 "z").isNone := ⟨rfl, rfl, rfl, rfl, rfl⟩

/-! ## 2. only `#f` is false; `if` evaluates the test once and exactly the selected arm -/

theorem truthy_iff (v : Value) : v.truthy = false ↔ v = .bool false := by
  cases v <;> simp [Value.truthy]
  rename_i b; cases b <;> simp

example : (num 0).truthy = true ∧ Value.nil.truthy = true ∧ (Value.str "").truthy = true ∧
    Value.void.truthy = true := ⟨rfl, rfl, rfl, rfl⟩

/-- One step of the evaluator on `(if t c a)`: the test once; an error of the test is the outcome;
otherwise exactly one arm is evaluated, in the store the test left — the alternative (or `Void`
when there is none) exactly when the test gave `#f`. -/
theorem cond_selects_step (n : Nat) (σ : Store) (ρ : Nat) (t c : Expr) (a : Option Expr) (l : Loc) :
    evalExpr (n+1) σ ρ (.cond t c a l) =
      match evalExpr n σ ρ t with
      | (.error er, σ₁) => (.error er, σ₁)
      | (.ok (.bool false), σ₁) =>
        (match a with
         | some alt => evalExpr n σ₁ ρ alt
         | none => (.ok .void, σ₁))
      | (.ok _, σ₁) => evalExpr n σ₁ ρ c := by
  rw [evalExpr]
  generalize evalExpr n σ ρ t = x
  obtain ⟨rt, σ₁⟩ := x
  cases rt with
  | error er => rfl
  | ok tv =>
    cases tv <;> try rfl
    rename_i b; cases b <;> rfl

/-- The fuel-free rule, as an equivalence: `(if t c a)` has outcome `r` exactly when the test has an
outcome and then the selected arm (and no other) has outcome `r`. -/
theorem cond_selects {σ ρ t c a l r σ'} :
    Evals σ ρ (.cond t c a l) r σ' ↔
      (∃ er, Evals σ ρ t (.error er) σ' ∧ r = .error er) ∨
      (∃ tv σ₁, Evals σ ρ t (.ok tv) σ₁ ∧
        ((tv ≠ .bool false ∧ Evals σ₁ ρ c r σ') ∨
         (tv = .bool false ∧ ∃ alt, a = some alt ∧ Evals σ₁ ρ alt r σ') ∨
         (tv = .bool false ∧ a = none ∧ r = .ok .void ∧ σ' = σ₁))) := by
  have ht : ∀ tv : Value, tv.truthy = true ↔ tv ≠ .bool false := fun tv => by
    rw [Ne, ← truthy_iff]; simp
  constructor
  · intro h
    rcases h.cond_inv with h | ⟨tv, σ₁, h₁, h₂⟩
    · exact .inl h
    · refine .inr ⟨tv, σ₁, h₁, ?_⟩
      simpa only [ht, truthy_iff] using h₂
  · rintro (⟨er, h, rfl⟩ | ⟨tv, σ₁, h₁, ⟨h₂, h₃⟩ | ⟨h₂, alt, rfl, h₃⟩ | ⟨h₂, rfl, rfl, rfl⟩⟩)
    · exact .cond_err h
    · exact .cond_true h₁ ((ht tv).mpr h₂) h₃
    · exact .cond_false h₁ ((truthy_iff tv).mpr h₂) h₃
    · exact .cond_void h₁ ((truthy_iff tv).mpr h₂)

/-- `(if 0 (tick 1) (tick 2))`: `0` is true; the value is the consequent's and exactly one `tick` happened -/
example :
    let r := evalExpr 10 σ₀ 1 (.cond (lit 0) (.call (var "tick") [lit 1] none) (some (.call (var "tick") [lit 2] none)) none)
    r.1 = .ok (num 1) ∧ r.2.ticks.length = 1 := by
  have h1 : σ₀.lookup 1 "tick" = some (.builtin .tick) := rfl
  have ht : σ₀.ticks = [] := rfl
  simp [lit, var, evalExpr, evalArgs, applyProcedure, applyLoop, evalPrim, Value.truthy, h1, procArity,
    Builtin.arity, arityOk, Prim.applyPure, Prim.ok, num, leave, enter, ht]

/-! ## 3. operands: each exactly once, left to right, before the call -/

/-- Whenever `evalArgs` returns (not the fuel error) it returned the left-to-right store-threading
`mapM` of `evalExpr` over the operand list (`Ref.mapEval`: each operand handed to the evaluator
exactly once, in the store its predecessor left, the first error ending the traversal). -/
theorem operands_once_in_order {n σ ρ es r σ'} (h : evalArgs n σ ρ es = (r, σ')) (hr : NotFuel r) :
    mapEval (fun σ e => evalExpr n σ ρ e) σ es = (r, σ') :=
  evalArgs_eq_mapEval h hr

/-- The same without fuel: `EvalsArgs` IS the left-to-right `mapM` of `Evals`. -/
theorem operands_once_in_order' {σ ρ es r σ'} :
    EvalsArgs σ ρ es r σ' ↔ MapEvals (fun σ e r σ' => Evals σ ρ e r σ') σ es r σ' :=
  evalsArgs_iff_mapEvals

/-- `(+ (tick 1) (tick 2))`-like: two operands, two ticks, in order (the later tick is the head of the trace) -/
example :
    let r := evalArgs 10 σ₀ 1 [.call (var "tick") [var "x"] none, .call (var "tick") [var "y"] none]
    r.1 = .ok [num 2, num 10] ∧ r.2.ticks.length = 2 := by
  have h1 : σ₀.lookup 1 "tick" = some (.builtin .tick) := rfl
  have h2 : σ₀.lookup 1 "x" = some (num 2) := rfl
  have h3 : σ₀.lookup 1 "y" = some (num 10) := rfl
  have h4 : ∀ t d m, Store.lookup { σ₀ with ticks := t, depth := d, maxDepth := m } 1 "tick" = some (.builtin .tick) :=
    fun _ _ _ => rfl
  have h5 : ∀ t d m, Store.lookup { σ₀ with ticks := t, depth := d, maxDepth := m } 1 "y" = some (num 10) :=
    fun _ _ _ => rfl
  have ht : σ₀.ticks = [] := rfl
  simp [var, evalExpr, evalArgs, applyProcedure, applyLoop, h1, h2, procArity,
    Builtin.arity, arityOk, Prim.applyPure, Prim.ok, leave, enter, h4, h5, ht]

/-- One step of the evaluator on a call: the operator; then ALL the operands (`evalArgs`, whatever the
operator gave); a non-procedure operator is the outcome, else the operands' error, else the
application of the operator's value to the operands' values. -/
theorem call_rule_step (n : Nat) (σ : Store) (ρ : Nat) (f : Expr) (args : List Expr) (l : Loc) :
    evalExpr (n+1) σ ρ (.call f args l) =
      match evalExpr n σ ρ f with
      | (.error er, σ₁) => (.error er, σ₁)
      | (.ok fv, σ₁) =>
        match evalArgs n σ₁ ρ args with
        | (ra, σ₂) =>
          match procArity fv, ra with
          | none, .error (.fuel, l) => (.error (.fuel, l), σ₂)
          | none, _ => (.error (.nonProcedure, f.loc), σ₂)
          | some _, .error er => (.error er, σ₂)
          | some _, .ok vs => applyProcedure n σ₂ fv vs ρ := by
  rw [evalExpr]
  generalize evalExpr n σ ρ f = x
  obtain ⟨rf, σ₁⟩ := x
  cases rf with
  | error er => rfl
  | ok fv =>
    simp only
    generalize evalArgs n σ₁ ρ args = y
    obtain ⟨ra, σ₂⟩ := y
    simp only
    cases procArity fv with
    | none =>
      simp only
      split <;> split <;> simp_all
    | some a => cases ra <;> rfl

/-- The fuel-free call rule, as an equivalence: operator, operands, application. -/
theorem call_rule {σ ρ f args l r σ'} :
    Evals σ ρ (.call f args l) r σ' ↔
      (∃ er, Evals σ ρ f (.error er) σ' ∧ r = .error er) ∨
      (∃ fv σ₁ ra σ₂, Evals σ ρ f (.ok fv) σ₁ ∧ EvalsArgs σ₁ ρ args ra σ₂ ∧
        ((procArity fv = none ∧ r = .error (.nonProcedure, f.loc) ∧ σ' = σ₂) ∨
         ((procArity fv).isSome ∧ ∃ er, ra = .error er ∧ r = .error er ∧ σ' = σ₂) ∨
         ((procArity fv).isSome ∧ ∃ vs, ra = .ok vs ∧ AppliesProc σ₂ fv vs ρ r σ'))) := by
  constructor
  · exact Evals.call_inv
  · rintro (⟨er, h, rfl⟩ | ⟨fv, σ₁, ra, σ₂, h₁, h₂, ⟨h₃, rfl, rfl⟩ | ⟨h₃, er, rfl, rfl, rfl⟩ | ⟨h₃, vs, rfl, h₄⟩⟩)
    · exact .call_op_err h
    · exact .call_nonproc h₁ h₂ h₃
    · exact .call_arg_err h₁ h₂ h₃
    · exact .call h₁ h₂ h₃ h₄

/-- `(+ x y)` in the inner frame, by the rules: operator `+`, operands 2 (innermost `x`) and 10, then the addition -/
example : Evals σ₀ 1 (.call (var "+") [var "x", var "y"] none) (.ok (num 12)) (leave (enter σ₀)) :=
  .call (.sym rfl) (.cons (.sym rfl) (.cons (.sym rfl) .nil)) rfl
    (.of_loop (.builtin (by decide) rfl rfl (by simp)))

/-! ## 4. internal definitions: evaluated in order in the call frame, visible to the whole body -/

/-- What a run of `apply_scheme_procedure` consists of.  The call frame `ρ = σ.frames.size` is NEW
and a child of the closure's frame `cenv` (`newFrame (some cenv)`); the fixed parameters are bound
in it, then the rest parameter (`bindRest`); then the internal definitions are evaluated IN THAT
FRAME, in order, each right-hand side in the store where the parameters and all earlier definitions
are already bound in `ρ` (`DefsSeq`); only when all of them are bound does the body run, in the same
frame — so every body expression sees every definition. -/
theorem body_definitions_scope {σ lam cenv args rt σ'} (ρ : Nat) (hρ : ρ = σ.frames.size) :
    AppliesScheme σ lam cenv args rt σ' ↔
      (∃ e σ₁, bindFixed (σ.newFrame (some cenv)).2 ρ lam.formals.fixed args = (.error e, σ₁) ∧
        rt = .error (e, none) ∧ σ' = σ₁) ∨
      (∃ restArgs σ₁,
        bindFixed (σ.newFrame (some cenv)).2 ρ lam.formals.fixed args = (.ok restArgs, σ₁) ∧
        ((∃ er, DefsSeq (fun τ e r τ' => Evals τ ρ e r τ') ρ
              (bindRest σ₁ ρ lam.formals.rest restArgs) lam.defs (.error er) σ' ∧ rt = .error er) ∨
         (∃ σ₂, DefsSeq (fun τ e r τ' => Evals τ ρ e r τ') ρ
              (bindRest σ₁ ρ lam.formals.rest restArgs) lam.defs (.ok ()) σ₂ ∧
            EvalsBody σ₂ ρ lam.body rt σ'))) := by
  subst hρ
  simp only [← evalsDefs_iff_defsSeq]
  constructor
  · exact AppliesScheme.inv
  · rintro (⟨e, σ₁, hb, rfl, rfl⟩ | ⟨restArgs, σ₁, hb, ⟨er, hd, rfl⟩ | ⟨σ₂, hd, hbody⟩⟩)
    · exact .bind_err hb
    · exact .defs_err hb hd
    · exact .intro_ok hb hd hbody

/-- The body proper: the expressions before the last one are evaluated in order (`MapEvals`: each
once, values dropped, the first error ends the body), then the last one as the tail expression. -/
theorem body_sequence {σ ρ es last rt σ'} :
    EvalsBody σ ρ (es ++ [last]) rt σ' ↔
      (∃ er, MapEvals (fun τ e r τ' => Evals τ ρ e r τ') σ es (.error er) σ' ∧ rt = .error er) ∨
      (∃ vs σ₁, MapEvals (fun τ e r τ' => Evals τ ρ e r τ') σ es (.ok vs) σ₁ ∧ EvalsTail σ₁ ρ last rt σ') :=
  evalsBody_iff

/-- A `lambda` (in particular the right-hand side of an internal definition, evaluated in the call
frame `ρ`) yields a closure that CAPTURES `ρ`: when it is called later its frame is a child of `ρ`
(`body_definitions_scope`: `newFrame (some cenv)`), so it sees every binding `ρ` has by then —
definitions made after its own included. -/
theorem definition_closure_captures_frame {σ ρ lam l r σ'} :
    Evals σ ρ (.lambda lam l) r σ' ↔ r = .ok (.closure lam ρ) ∧ σ' = σ :=
  ⟨Evals.lambda_inv, fun ⟨h₁, h₂⟩ => h₁ ▸ h₂ ▸ Evals.lambda⟩

/-- What `define ρ x v` (a parameter binding or an internal definition) changes: frame `ρ` now binds
`x` to `v`; no other (frame, name) pair changes and no parent chain changes.  With
`lookup_innermost` this says who sees the definition: every frame whose chain reaches `ρ` before
another binding of `x`. -/
theorem definition_visible {σ : Store} {ρ : Nat} (hρ : ρ < σ.frames.size) (x : String) (v : Value) :
    (∀ y i, frameBinding (σ.define ρ x v) y i = if i = ρ ∧ y = x then some v else frameBinding σ y i) ∧
    (∀ i, chain (σ.define ρ x v) i = chain σ i) ∧
    (ParentsOlder σ → (σ.define ρ x v).lookup ρ x = some v) := by
  refine ⟨frameBinding_define hρ x v, chain_define σ ρ x v, fun hpo => ?_⟩
  rw [lookup_eq_chain (parentsOlder_define hpo ρ x v), chain_define]
  have hc : ∃ tl, chain σ ρ = ρ :: tl := by
    unfold chain
    obtain ⟨k, hk⟩ : ∃ k, σ.frames.size = k + 1 := ⟨σ.frames.size - 1, by omega⟩
    have : ∃ f, σ.frames[ρ]? = some f := ⟨σ.frames[ρ], by simp [hρ]⟩
    obtain ⟨f, hf⟩ := this
    rw [hk, chainAux, hf]; exact ⟨_, rfl⟩
  obtain ⟨tl, hc⟩ := hc
  rw [hc, List.findSome?_cons, frameBinding_define hρ]; simp

/-- mutual reference between internal definitions:
`((lambda () (define (f) (g)) (define (g) 42) (f)))` — `f`'s closure captures the call frame, in
which `g` is bound by the time `f` is called -/
example :
    (applyLoop 10 σ₀ (.closure (.mk ⟨[], none⟩
      [.mk "f" (.lambda (.mk ⟨[], none⟩ [] [.call (var "g") [] none]) none) none,
       .mk "g" (.lambda (.mk ⟨[], none⟩ [] [lit 42]) none) none]
      [.call (var "f") [] none]) 0) [] 0).1 = .ok (num 42) := by
  with_unfolding_all rfl

/-- a later definition sees an earlier one and the parameters:
`((lambda (a) (define b (+ a 1)) (define c (* b 2)) c) 4)` = 10 -/
example :
    (applyLoop 10 σ₀ (.closure (.mk ⟨["a"], none⟩
      [.mk "b" (.call (var "+") [var "a", lit 1] none) none,
       .mk "c" (.call (var "*") [var "b", lit 2] none) none]
      [var "c"]) 0) [num 4] 0).1 = .ok (num 10) := by
  with_unfolding_all rfl

/-! ## 5. equivalent spellings: fixed vs rest parameters, direct call vs `apply`, define sugar vs lambda -/

/-- the rest of `apply_scheme_procedure` once the parameters are bound: definitions, then the body -/
def runBody (k : Nat) (σ : Store) (ρ : Nat) (defs : List Def) (body : List Expr) : Res TailRes :=
  match Eval.evalDefs k σ ρ defs with
  | (.error er, σ₁) => (.error er, σ₁)
  | (.ok (), σ₁) => evalBody k σ₁ ρ body

/-- Parameter binding, for an argument count that passes the arity test: in the new frame the fixed
parameters are bound pairwise, in order, to the first arguments (`bindAll`), and a rest parameter is
bound to the LIST (`Value.ofList`) of the remaining arguments. -/
theorem rest_binding {k σ fixed rest defs body cenv args}
    (ha : arityOk fixed.length rest.isSome args.length = true) :
    applyScheme (k+1) σ (.mk ⟨fixed, rest⟩ defs body) cenv args =
      runBody k
        (match rest with
         | some r => (bindAll (σ.newFrame (some cenv)).2 σ.frames.size fixed args).define σ.frames.size r
                        (Value.ofList (args.drop fixed.length))
         | none => bindAll (σ.newFrame (some cenv)).2 σ.frames.size fixed args)
        σ.frames.size defs body := by
  have hlen : fixed.length ≤ args.length := by
    cases rest with
    | none => have := (arityOk_fixed _ _).mp ha; omega
    | some r => exact (arityOk_variadic _ _).mp ha
  rw [applyScheme_succ]
  simp only [Lambda.formals, Lambda.defs, Lambda.body, Store.newFrame, bindFixed_eq_bindAll _ _ _ _ hlen, runBody]
  cases rest <;> rfl

/-- `n` fixed parameters and a rest parameter, called with exactly `n` arguments, behave as the `n`
fixed parameters alone, except that the rest name is additionally bound to the empty list. -/
theorem rest_empty_as_fixed {k σ fixed r defs body cenv args} (hn : args.length = fixed.length) :
    applyScheme (k+1) σ (.mk ⟨fixed, some r⟩ defs body) cenv args =
      runBody k ((bindAll (σ.newFrame (some cenv)).2 σ.frames.size fixed args).define σ.frames.size r .nil)
        σ.frames.size defs body ∧
    applyScheme (k+1) σ (.mk ⟨fixed, none⟩ defs body) cenv args =
      runBody k (bindAll (σ.newFrame (some cenv)).2 σ.frames.size fixed args) σ.frames.size defs body := by
  constructor
  · rw [rest_binding (by simp [arityOk, hn])]
    simp [← hn, Value.ofList]
  · rw [rest_binding (by simp [arityOk, hn])]

/-- `((lambda (a . r) r) 1 2 3)` binds `r` to the list `(2 3)`; with one argument to `()` -/
example :
    (applyLoop 10 σ₀ (.closure (.mk ⟨["a"], some "r"⟩ [] [var "r"]) 0) [num 1, num 2, num 3] 0).1
      = .ok (Value.ofList [num 2, num 3]) ∧
    (applyLoop 10 σ₀ (.closure (.mk ⟨["a"], some "r"⟩ [] [var "r"]) 0) [num 1] 0).1 = .ok .nil := by
  constructor <;> with_unfolding_all rfl

/-- `(apply f a… lst)` IS the call of `f` on `a… ++ elements of lst`: the trampoline iteration that
meets `apply` continues — in the same activation, one unit of fuel later — with `f` and the spread
arguments.  (`f` a procedure, `lst` a pair or the empty list; otherwise `apply` is an error.) -/
theorem apply_spread {k σ f as lst env} (hf : (procArity f).isSome)
    (hl : lst = .nil ∨ ∃ a d, lst = .pair a d) :
    applyLoop (k+1) σ (.builtin .apply) (f :: (as ++ [lst])) env = applyLoop k σ f (as ++ lst.elems) env := by
  rw [applyLoop]
  simp [procArity, Builtin.arity, arityOk, spreadApply_snoc hf hl]

/-- … fuel-free, as an equivalence of outcomes, and for a proper list of arguments. -/
theorem apply_spread_iff {σ f as vs env r σ'} (hf : (procArity f).isSome) :
    Applies σ (.builtin .apply) (f :: (as ++ [Value.ofList vs])) env r σ' ↔ Applies σ f (as ++ vs) env r σ' := by
  have hl : Value.ofList vs = .nil ∨ ∃ a d, Value.ofList vs = .pair a d := by
    cases vs with
    | nil => exact .inl rfl
    | cons v vs => exact .inr ⟨_, _, rfl⟩
  constructor
  · intro h
    obtain ⟨hr, N, hN⟩ := h.out
    have := hN (N+1) (by omega)
    rw [apply_spread hf hl, elems_ofList] at this
    exact Applies.intro this hr
  · intro h
    refine Applies.apply (by simp) ?_ h
    rw [spreadApply_snoc hf hl, elems_ofList]

/-- `(apply + 1 '(2 3))` and `(+ 1 2 3)` -/
example : (applyLoop 10 σ₀ (.builtin .apply) [.builtin .add, num 1, Value.ofList [num 2, num 3]] 0).1 = .ok (num 6) ∧
    (applyLoop 10 σ₀ (.builtin .add) [num 1, num 2, num 3] 0).1 = .ok (num 6) := by
  constructor <;> with_unfolding_all rfl

section sugar
open Ruschm.Xform
variable (f : String) (formalsD bsD : Datum) (ld lf l₁ l₂ l : Loc) (ld' lf' l₃ l₄ l₅ l₆ l₇ l₈ l' : Loc)

/-- the datum `(define (f . formals) body…)` -/
def sugarDatum : Datum :=
  .pair (.sym "define" ld) (.pair (.pair (.sym f lf) formalsD l₁) bsD l₂) l
/-- the datum `(define f (lambda formals body…))` -/
def lambdaDatum : Datum :=
  .pair (.sym "define" ld') (.pair (.sym f lf') (.pair (.pair (.sym "lambda" l₃) (.pair formalsD bsD l₄) l₅) (.nil l₆) l₇) l₈) l'

/-- What `transform_to_statement` makes of the two spellings, exactly: both are the definition of `f`
as `(lambda formals defs body)` with `formals = toFormals formalsD` and `(defs, body)` the
transformed body data — identical but for (1) the location fields (sugar: the `lambda` node carries
the location of the name `f`; explicit lambda: that of the `(lambda …)` datum), (2) the syntax scope
the body is transformed in (sugar: the enclosing scope itself; explicit lambda: a fresh child scope,
`inChild`, dropped afterwards), (3) three units of fuel. -/
theorem define_sugar_eq (j : Nat) (s : SynEnv) :
    toStatement (j+2) (sugarDatum f formalsD bsD ld lf l₁ l₂ l) s =
      (do let formals ← toFormals formalsD
          let (defs, body) ← toBody j bsD.elems [] []
          pure (Statement.definition (.mk f (.lambda (.mk formals defs body) lf) l))) s ∧
    toStatement (j+5) (lambdaDatum f formalsD bsD ld' lf' l₃ l₄ l₅ l₆ l₇ l₈ l') s =
      (do let formals ← toFormals formalsD
          let (defs, body) ← inChild (toBody j bsD.elems [] [])
          pure (Statement.definition (.mk f (.lambda (.mk formals defs body) l₅) l'))) s := by
  constructor
  · rw [sugarDatum, toStatement_define, XM.bind_def, toDefinition_sugar]
    simp only [XM.bind_def, XM.pure_def]
    generalize toFormals formalsD s = x
    obtain ⟨r, s'⟩ := x
    cases r with
    | error e => rfl
    | ok fm =>
      simp only
      generalize toBody j bsD.elems [] [] s' = y
      obtain ⟨r, s''⟩ := y
      cases r <;> rfl
  · rw [lambdaDatum, toStatement_define, XM.bind_def, elems_pair]
    have : (Datum.nil l₆).elems = [] := rfl
    rw [this, toDefinition_lambda]
    simp only [XM.bind_def, XM.pure_def]
    generalize toFormals formalsD s = x
    obtain ⟨r, s'⟩ := x
    cases r with
    | error e => rfl
    | ok fm =>
      simp only
      generalize inChild (toBody j bsD.elems [] []) s' = y
      obtain ⟨r, s''⟩ := y
      cases r <;> rfl

/-- Consequently the two definitions have the same name and `Expr.beq`-equal right-hand sides
(Rust's `==` on expressions, which ignores locations) whenever the body data transform to the same
thing in the enclosing scope and in a fresh child scope of it. -/
theorem define_sugar_beq_partial (j : Nat) (s : SynEnv)
    (hscope : (inChild (toBody j bsD.elems [] []) s).1 = (toBody j bsD.elems [] [] s).1)
    {n₁ e₁ d₁ s₁ n₂ e₂ d₂ s₂}
    (h₁ : toStatement (j+2) (sugarDatum f formalsD bsD ld lf l₁ l₂ l) s = (.ok (.definition (.mk n₁ e₁ d₁)), s₁))
    (h₂ : toStatement (j+5) (lambdaDatum f formalsD bsD ld' lf' l₃ l₄ l₅ l₆ l₇ l₈ l') s =
            (.ok (.definition (.mk n₂ e₂ d₂)), s₂)) :
    n₁ = n₂ ∧ Expr.beq e₁ e₂ = true := by
  obtain ⟨g₁, g₂⟩ := define_sugar_eq f formalsD bsD ld lf l₁ l₂ l ld' lf' l₃ l₄ l₅ l₆ l₇ l₈ l' j s
  rw [g₁] at h₁; rw [g₂] at h₂
  simp only [XM.bind_def, XM.pure_def] at h₁ h₂
  have henv := toFormals_env formalsD s
  generalize toFormals formalsD s = x at h₁ h₂ henv
  obtain ⟨r, s'⟩ := x
  simp only at henv; subst henv
  cases r with
  | error e => simp at h₁
  | ok fm =>
    simp only at h₁ h₂
    generalize toBody j bsD.elems [] [] s' = y at h₁ hscope
    generalize inChild (toBody j bsD.elems [] []) s' = z at h₂ hscope
    obtain ⟨rb, sb⟩ := y
    obtain ⟨rb', sb'⟩ := z
    simp only at hscope; subst hscope
    cases rb' with
    | error e => simp at h₁
    | ok db =>
      simp only [Prod.mk.injEq, Except.ok.injEq, Statement.definition.injEq, Def.mk.injEq] at h₁ h₂
      obtain ⟨⟨rfl, rfl, _⟩, _⟩ := h₁
      obtain ⟨⟨rfl, rfl, _⟩, _⟩ := h₂
      exact ⟨rfl, by simp [Expr.beq, Lambda.beq_refl]⟩

end sugar

open Ruschm.Xform in
/-- Unconditionally: whenever both spellings transform (in the same syntax environment, with the
corresponding fuel) they define the same name with `Expr.beq`-equal right-hand sides.  (The body
data transform alike in the enclosing scope and in a fresh child scope of it — `toBody_inChild`,
proved by showing that every function of `RuschmModel/Xform.lean` uses the syntax environment only
through lookups, `define` and child scopes.) -/
theorem define_sugar_beq (f : String) (formalsD bsD : Datum) (ld lf l₁ l₂ l ld' lf' l₃ l₄ l₅ l₆ l₇ l₈ l' : Loc)
    (j : Nat) (s : SynEnv) {n₁ e₁ d₁ s₁ n₂ e₂ d₂ s₂}
    (h₁ : toStatement (j+2) (sugarDatum f formalsD bsD ld lf l₁ l₂ l) s = (.ok (.definition (.mk n₁ e₁ d₁)), s₁))
    (h₂ : toStatement (j+5) (lambdaDatum f formalsD bsD ld' lf' l₃ l₄ l₅ l₆ l₇ l₈ l') s =
            (.ok (.definition (.mk n₂ e₂ d₂)), s₂)) :
    n₁ = n₂ ∧ Expr.beq e₁ e₂ = true :=
  define_sugar_beq_partial f formalsD bsD ld lf l₁ l₂ l ld' lf' l₃ l₄ l₅ l₆ l₇ l₈ l' j s
    (toBody_inChild j bsD.elems s) h₁ h₂

open Ruschm.Xform in
/-- `(define (f x . r) (cons x r))` and `(define f (lambda (x . r) (cons x r)))` -/
example :
    let formalsD : Datum := .pair (.sym "x" none) (.sym "r" none) none
    let bsD : Datum := Datum.ofList none [Datum.ofList none [.sym "cons" none, .sym "x" none, .sym "r" none]]
    let a := toStatement 30 (sugarDatum "f" formalsD bsD none (some (1, 9)) none none none) [[]]
    let b := toStatement 33 (lambdaDatum "f" formalsD bsD none none none none (some (1, 11)) none none none none) [[]]
    (match a.1, b.1 with
     | .ok (.definition (.mk n₁ e₁ _)), .ok (.definition (.mk n₂ e₂ _)) => n₁ == n₂ && Expr.beq e₁ e₂ && n₁ == "f"
     | _, _ => false) = true := by
  with_unfolding_all decide

/-! ## 6. MAIN: the model refines the reference semantics

`Ref.eval` (`RuschmSpec/Ref.lean`) is the direct-style evaluator written from the R7RS rules: no
trampoline, a procedure call runs the whole body by plain recursion.  Stores are compared after
`Store.erase` (the activation-depth instrumentation `depth`/`maxDepth` is not semantics: the
reference never touches it).  Outcomes are compared with `Ref.Agree`: equal values; equal errors,
except that where the reference reports a non-procedure operator (R7RS leaves the order of these
checks open) the model — whose trampoline evaluates a pending tail call with
`eval_procedure_call`, operands first — may report that call's operand error instead. -/

/-- Every outcome of the model's `evalExpr` that is not the fuel error is the outcome of the
reference evaluator (for some fuel), with the same final store. -/
theorem model_refines_ref {n σ ρ e r σ'} (h : evalExpr n σ ρ e = (r, σ')) (hr : NotFuel r) :
    ∃ m r', Ref.eval m σ.erase ρ e = (r', σ'.erase) ∧ Agree r r' :=
  (refines_all n).expr h hr

/-- … exactly, for values: the model computes the value the reference semantics assigns. -/
theorem model_refines_ref_value {n σ ρ e v σ'} (h : evalExpr n σ ρ e = (.ok v, σ')) :
    ∃ m, Ref.eval m σ.erase ρ e = (.ok v, σ'.erase) :=
  (refines_all n).expr_ok h

/-- … and for errors: the reference fails too, in the same store, with the same error unless the
reference's error is a non-procedure operator. -/
theorem model_refines_ref_error {n σ ρ e er σ'} (h : evalExpr n σ ρ e = (.error er, σ')) (hr : er.1 ≠ .fuel) :
    ∃ m er', Ref.eval m σ.erase ρ e = (.error er', σ'.erase) ∧ (er' = er ∨ ∃ l, er' = (.nonProcedure, l)) := by
  obtain ⟨m, er', hm, ha⟩ := (refines_all n).expr_err h (.error_of (l := er.2) hr)
  exact ⟨m, er', hm, ha.imp Eq.symm id⟩

/-- The same for a procedure application (one activation of `apply_procedure`, trampoline
included) against `Ref.apply`. -/
theorem applyProcedure_refines_ref {n σ p args env r σ'} (h : applyProcedure n σ p args env = (r, σ'))
    (hr : NotFuel r) : ∃ m r', Ref.apply m σ.erase p args = (r', σ'.erase) ∧ Agree r r' :=
  (refines_all n).proc h hr

/-- Fuel-free form: if `e` evaluates (in the sense of `Evals`) to a value, the reference evaluates it
to that value. -/
theorem evals_value_ref {σ ρ e v σ'} (h : Evals σ ρ e (.ok v) σ') :
    ∃ m, Ref.eval m σ.erase ρ e = (.ok v, σ'.erase) := by
  obtain ⟨_, n, hn⟩ := evals_iff.mp h
  exact model_refines_ref_value hn

/-- Conversely, for values: whatever value the reference semantics assigns to `e`, the model
computes it (with some fuel), ending in the same store. -/
theorem ref_refines_model {m σ ρ e v τ} (h : Ref.eval m σ.erase ρ e = (.ok v, τ)) :
    ∃ n σ', evalExpr n σ ρ e = (.ok v, σ') ∧ σ'.erase = τ := by
  obtain ⟨σ', h₁, h₂⟩ := (conv_all m).eval h
  obtain ⟨_, n, hn⟩ := evals_iff.mp h₁
  exact ⟨n, σ', hn, h₂⟩

/-- The model and the reference assign the same values (and final stores) to every expression. -/
theorem model_iff_ref_value {σ ρ e v τ} :
    (∃ n σ', evalExpr n σ ρ e = (.ok v, σ') ∧ σ'.erase = τ) ↔ ∃ m, Ref.eval m σ.erase ρ e = (.ok v, τ) := by
  constructor
  · rintro ⟨n, σ', h, rfl⟩; exact model_refines_ref_value h
  · rintro ⟨m, h⟩; exact ref_refines_model h

/-- … and to every application of a procedure to arguments. -/
theorem ref_apply_refines_model {m σ p args v τ} (h : Ref.apply m σ.erase p args = (.ok v, τ)) (env : Nat) :
    ∃ n σ', applyProcedure n σ p args env = (.ok v, σ') ∧ σ'.erase = τ := by
  obtain ⟨σ', h₁, h₂⟩ := (conv_all m).apply (σ := enter σ) (by simpa using h) env
  obtain ⟨_, N, hN⟩ := (AppliesProc.of_loop h₁).out
  exact ⟨N, leave σ', hN N (Nat.le_refl _), by simpa using h₂⟩

/-- Top-level forms (`eval_expression_or_definition` in the frame `ρ`): an expression statement
yields the value, a definition binds the name in `ρ`, as the reference prescribes; nothing else
of the interpreter state changes. -/
theorem toplevel_refines_ref {n st s ρ r st'} (hs : (∃ e, s = .expr e) ∨ (∃ d, s = .definition d))
    (h : Interp.evalExprOrDef n st s ρ = (r, st')) (hr : NotFuel r) :
    ∃ m r', Ref.evalTop m st.store.erase ρ s = (r', st'.store.erase) ∧ Agree r r' ∧
      st' = { st with store := st'.store } := by
  rcases hs with ⟨e, rfl⟩ | ⟨⟨x, e, l⟩, rfl⟩
  · simp only [Interp.evalExprOrDef] at h
    split at h
    next v σ' he =>
      cases h
      obtain ⟨m, hm⟩ := model_refines_ref_value he
      exact ⟨m, .ok (some v), by simp [Ref.evalTop, hm], rfl, rfl⟩
    next er σ' he =>
      cases h
      obtain ⟨m, r', hm, ha⟩ := model_refines_ref he hr.cast
      obtain ⟨er', rfl, hag⟩ := Agree.error_iff.mp ha
      exact ⟨m, .error er', by simp [Ref.evalTop, hm], hag, rfl⟩
  · simp only [Interp.evalExprOrDef] at h
    split at h
    next v σ' he =>
      cases h
      obtain ⟨m, hm⟩ := model_refines_ref_value he
      exact ⟨m, .ok none, by simp [Ref.evalTop, hm, Store.erase_define], rfl, rfl⟩
    next er σ' he =>
      cases h
      obtain ⟨m, r', hm, ha⟩ := model_refines_ref he hr.cast
      obtain ⟨er', rfl, hag⟩ := Agree.error_iff.mp ha
      exact ⟨m, .error er', by simp [Ref.evalTop, hm], hag, rfl⟩

/-- the top-level definition `(define z (+ x 4))` in the global frame, then `z` seen from the inner frame -/
example : ((Interp.evalExprOrDef 9 { store := σ₀ }
      (.definition (.mk "z" (.call (var "+") [var "x", lit 4] none) none)) 0).2.store.lookup 1 "z") = some (num 5) := by
  with_unfolding_all rfl

/-- A store that carries no instrumentation is its own erasure (so for such a start store the
reference runs from the very same store). -/
theorem erase_eq_self {σ : Store} (h₁ : σ.depth = 0) (h₂ : σ.maxDepth = 0) : σ.erase = σ := by
  cases σ; simp_all [Store.erase]

/-- a loop written with a tail call and an internal definition:
`((lambda (n) (define (go i acc) (if i (go #f (+ acc n)) acc)) (go #t 1)) 41)` — the model (through
the trampoline) and the reference (by plain recursion) both give 42 -/
def loopProg : Expr :=
  .call (.lambda (.mk ⟨["n"], none⟩
      [.mk "go" (.lambda (.mk ⟨["i", "acc"], none⟩ []
          [.cond (var "i") (.call (var "go") [.prim (.bool false) none, .call (var "+") [var "acc", var "n"] none] none)
            (some (var "acc")) none]) none) none]
      [.call (var "go") [.prim (.bool true) none, lit 1] none]) none)
    [lit 41] none

example : (evalExpr 20 σ₀ 1 loopProg).1 = .ok (num 42) ∧ (Ref.eval 20 σ₀.erase 1 loopProg).1 = .ok (num 42) ∧
    (evalExpr 20 σ₀ 1 loopProg).2.erase = (Ref.eval 20 σ₀.erase 1 loopProg).2 := by
  refine ⟨?_, ?_, ?_⟩ <;> with_unfolding_all rfl

/-- the two orders of the call checks: in tail position `(1 (car 2))` gives the operand's type error
in the model, the non-procedure error in the reference -/
example :
    (evalExpr 20 σ₀ 1 (.call (.lambda (.mk ⟨[], none⟩ [] [.call (lit 1) [.call (var "car") [lit 2] none] none]) none) [] none)).1
      = .error (.type, none) ∧
    (Ref.eval 20 σ₀.erase 1 (.call (.lambda (.mk ⟨[], none⟩ [] [.call (lit 1) [.call (var "car") [lit 2] none] none]) none) [] none)).1
      = .error (.nonProcedure, none) := by
  refine ⟨?_, ?_⟩ <;> with_unfolding_all rfl

end Ruschm.C01

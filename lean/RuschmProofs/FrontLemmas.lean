/-
Helper lemmas for the front-end properties C17 (`ruschm FILE`), C18 (REPL), C19 (instances).
-/
import RuschmSpec.Front
import RuschmProofs.LibLemmas
import RuschmProofs.StoreLemmas
-- import RuschmProofs.EvalLemmas
import RuschmProofs.TextLemmas

namespace Ruschm.FrontSpec
open Ruschm Ruschm.Interp Ruschm.Front

/-! ## C19: worlds -/

theorem worldStep_length (fuel : Nat) (w : World) (i : Nat) (text : List Char) :
    (worldStep fuel w i text).2.length = w.length := by
  unfold worldStep
  split <;> simp

theorem worldStep_other (fuel : Nat) (w : World) (i j : Nat) (text : List Char) (h : j ≠ i) :
    (worldStep fuel w i text).2[j]? = w[j]? := by
  unfold worldStep
  split
  · rfl
  · simp [Ne.symm h]

theorem worldStep_self (fuel : Nat) (w : World) (i : Nat) (text : List Char) (st : State)
    (h : w[i]? = some st) :
    (worldStep fuel w i text).1 = some (evalText fuel st text).1 ∧
    (worldStep fuel w i text).2[i]? = some (evalText fuel st text).2 := by
  have hi : i < w.length := by
    rcases Nat.lt_or_ge i w.length with h' | h'
    · exact h'
    · rw [List.getElem?_eq_none h'] at h; cases h
  unfold worldStep
  rw [h]
  simp [hi]

theorem worldStep_none (fuel : Nat) (w : World) (i : Nat) (text : List Char) (h : w[i]? = none) :
    worldStep fuel w i text = (none, w) := by
  unfold worldStep
  simp [h]

theorem runSteps_length (fuel : Nat) (steps : Steps) : ∀ (w : World),
    (runSteps fuel w steps).2.length = w.length := by
  induction steps with
  | nil => intro w; rfl
  | cons s rest ih =>
    intro w
    obtain ⟨i, text⟩ := s
    simp only [runSteps]
    rw [ih, worldStep_length]

theorem runSteps_noninterference (fuel : Nat) (j : Nat) (steps : Steps) : ∀ (w : World) (st : State),
    w[j]? = some st →
    ((runSteps fuel w steps).1.filter (fun r => r.1 = j)).map (·.2)
        = (runAlone fuel st (textsFor j steps)).1.map some ∧
      (runSteps fuel w steps).2[j]? = some (runAlone fuel st (textsFor j steps)).2 := by
  induction steps with
  | nil => intro w st h; exact ⟨rfl, h⟩
  | cons s rest ih =>
    intro w st h
    obtain ⟨i, text⟩ := s
    by_cases hij : i = j
    · subst hij
      obtain ⟨h1, h2⟩ := worldStep_self fuel w i text st h
      obtain ⟨g1, g2⟩ := ih _ _ h2
      have ht : textsFor i ((i, text) :: rest) = text :: textsFor i rest := by
        simp [textsFor]
      rw [ht]
      simp only [runSteps, runAlone, List.filter_cons, decide_true, if_true, List.map_cons]
      exact ⟨by rw [h1, g1], g2⟩
    · have h2 : (worldStep fuel w i text).2[j]? = some st := by
        rw [worldStep_other fuel w i j text (Ne.symm hij)]; exact h
      obtain ⟨g1, g2⟩ := ih _ _ h2
      have ht : textsFor j ((i, text) :: rest) = textsFor j rest := by
        simp [textsFor, hij]
      rw [ht]
      simp only [runSteps, List.filter_cons, hij, decide_false, Bool.false_eq_true, if_false]
      exact ⟨g1, g2⟩

/-! ## C18: the REPL loop -/

theorem replStep_eq (fuel : Nat) (rs : ReplState) (line : String) :
    replStep fuel rs line =
      if line.isEmpty then (rs, {})
      else if Bracket.closed (rs.pending ++ line).toList then
        ({ st := (submit fuel rs.st (rs.pending ++ line)).1, pending := "" }, (submit fuel rs.st (rs.pending ++ line)).2)
      else ({ rs with pending := rs.pending ++ line ++ "\n" }, {}) := by
  unfold replStep submit clearOut
  split
  · rfl
  · dsimp only
    split
    · generalize evalText fuel _ _ = x
      obtain ⟨r, st'⟩ := x
      cases r with
      | ok v => cases v with
        | none => rfl
        | some v => cases v <;> rfl
      | error e => obtain ⟨e, l⟩ := e; rfl
    · rfl

theorem submit_submitted (fuel : Nat) (st : State) (source : String) :
    (submit fuel st source).2.submitted = true := by
  unfold submit
  split <;> rfl

/-- the session loop as a recursion on the lines -/
def replList (fuel : Nat) : ReplState → List String → ReplState × List ReplOut
  | rs, [] => (rs, [])
  | rs, l :: ls =>
    ((replList fuel (replStep fuel rs l).1 ls).1, (replStep fuel rs l).2 :: (replList fuel (replStep fuel rs l).1 ls).2)

theorem foldl_replStep (fuel : Nat) (lines : List String) : ∀ (rs : ReplState) (acc : List ReplOut),
    lines.foldl (fun (acc : ReplState × List ReplOut) l =>
      let (rs, o) := replStep fuel acc.1 l
      (rs, acc.2 ++ [o])) (rs, acc) = ((replList fuel rs lines).1, acc ++ (replList fuel rs lines).2) := by
  induction lines with
  | nil => intro rs acc; simp [replList]
  | cons l ls ih =>
    intro rs acc
    simp only [List.foldl_cons, replList]
    rw [ih]
    simp

theorem replRun_eq (fuel : Nat) (lines : List String) :
    replRun fuel lines = replList fuel { st := withStdlib fuel false } lines := by
  unfold replRun
  rw [foldl_replStep]
  simp

theorem replList_groups (fuel : Nat) (lines : List String) : ∀ (rs : ReplState),
    (replList fuel rs lines).1 =
      { st := (session fuel rs.st (groupsAux rs.pending lines).1).1, pending := (groupsAux rs.pending lines).2 } ∧
    (replList fuel rs lines).2.filter (·.submitted) = (session fuel rs.st (groupsAux rs.pending lines).1).2 ∧
    ∀ o ∈ (replList fuel rs lines).2, o.submitted = false → o.stdout = "" ∧ o.err = none := by
  induction lines with
  | nil => intro rs; simp [replList, groupsAux, session]
  | cons l ls ih =>
    intro rs
    simp only [replList, groupsAux]
    rw [replStep_eq]
    by_cases he : l.isEmpty
    · simp only [he, if_true]
      obtain ⟨a, b, c⟩ := ih rs
      refine ⟨a, ?_, ?_⟩
      · rw [List.filter_cons]; simpa using b
      · intro o ho hs
        rcases List.mem_cons.1 ho with rfl | ho
        · exact ⟨rfl, rfl⟩
        · exact c o ho hs
    · simp only [he, Bool.false_eq_true, if_false]
      by_cases hc : Bracket.closed (rs.pending ++ l).toList
      · simp only [hc, if_true]
        obtain ⟨a, b, c⟩ := ih { st := (submit fuel rs.st (rs.pending ++ l)).1, pending := "" }
        simp only at a b c
        refine ⟨by rw [a]; simp [session], ?_, ?_⟩
        · rw [List.filter_cons, submit_submitted]; simp [session, b]
        · intro o ho hs
          rcases List.mem_cons.1 ho with rfl | ho
          · rw [submit_submitted] at hs; cases hs
          · exact c o ho hs
      · simp only [hc, Bool.false_eq_true, if_false]
        obtain ⟨a, b, c⟩ := ih { rs with pending := rs.pending ++ l ++ "\n" }
        simp only at a b c
        refine ⟨a, ?_, ?_⟩
        · rw [List.filter_cons]; simpa using b
        · intro o ho hs
          rcases List.mem_cons.1 ho with rfl | ho
          · exact ⟨rfl, rfl⟩
          · exact c o ho hs

theorem transcript_filter (outs : List ReplOut)
    (h : ∀ o ∈ outs, o.submitted = false → o.stdout = "" ∧ o.err = none) :
    transcript (outs.filter (·.submitted)) = transcript outs ∧
    errors (outs.filter (·.submitted)) = errors outs := by
  induction outs with
  | nil => exact ⟨rfl, rfl⟩
  | cons o os ih =>
    obtain ⟨i1, i2⟩ := ih (fun o' ho' => h o' (List.mem_cons_of_mem _ ho'))
    unfold transcript errors at *
    by_cases hs : o.submitted = true
    · simp only [List.filter_cons, hs, if_true, List.map_cons, String.join_cons, List.filterMap_cons]
      rw [i1, i2]; exact ⟨rfl, rfl⟩
    · have hs' : o.submitted = false := by simpa using hs
      obtain ⟨h1, h2⟩ := h o (by simp) hs'
      simp only [List.filter_cons, hs', Bool.false_eq_true, if_false, List.map_cons, String.join_cons,
        List.filterMap_cons, h1, h2, String.empty_append]
      exact ⟨i1, i2⟩

/-! ## C17: the command line -/

theorem cli_some (fuel : Nat) (text : String) :
    cli fuel (some text) =
      match evalText fuel (default_ false) text.toList with
      | (.ok _, st) => { stdout := outText st.store, diag := none, errKind := none, exitCode := 0 }
      | (.error (e, loc), st) =>
        { stdout := outText st.store, diag := some loc, errKind := some e, exitCode := 255 } := rfl

end Ruschm.FrontSpec

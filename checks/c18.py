"""C18 — a REPL session equals evaluating its forms in sequence.
Theorems: lean/RuschmProofs/C18Bracket.lean (the REPL's private bracket counter agrees with the
reader's notion of "every opened list is closed" on every text the lexer accepts) and
lean/RuschmProofs/C18.lean about RuschmModel/Front.lean (`replStep`/`replRun`: the loop evaluates
exactly the maximal line groups whose accumulated text first becomes closed; split invariance;
the session equals sequential evaluation). Tie: (1) the counter itself, through the ruschm_verif
hook, on every string up to length 5 (thorough 7) over ( ) " ; | \\ # a space LF CR, against the
model counter and against the REAL lexer's token depth; (2) random sessions of forms (values,
definitions, displays with parentheses/semicolons in strings and characters, failing forms) under
several random line splittings, through the BUILT BINARY over a pipe, against the model and against
in-process sequential evaluation."""
import itertools, os, random, re
from . import common as C, proggen as P, frontend as F, sexp

PROP = "C18"
MODULES = ["RuschmProofs.C18Bracket", "RuschmProofs.C18", "RuschmProofs.C18More", "RuschmProofs.C18Full"]
ALPHA = list("()\";|\\#a ") + ["\n", "\r"]

TOKEN = re.compile(r"""#\\.[A-Za-z0-9]*|"(?:[^"\\]|\\.)*"|\|[^|]*\||;[^\n]*|#\(|[()']|[^\s()";|']+""", re.S)


def norm_msg(m):
    """an error message as printed, blanks collapsed; source positions that some messages embed (a dump of the offending
    statement) are not part of what must be the same however the forms are split across lines"""
    return re.sub(r"Some\(\[\d+, \d+\]\)", "Some(_)", " ".join(m.split()))


def unesc(s):
    return re.sub(r"\\u\{([0-9a-fA-F]+)\}", lambda m: chr(int(m.group(1), 16)), s)


def tokens_of(form):
    return TOKEN.findall(form)


def split_lines(rng, toks):
    """join tokens with blanks, breaking into lines at random token boundaries"""
    lines, cur = [], ""
    for i, t in enumerate(toks):
        cur += t
        if i + 1 < len(toks):
            r = rng.random()
            if t == "'":
                pass        # a line ending in a bare quote mark opens no list: the REPL submits it (documented limit)
            elif r < 0.3:
                lines.append(cur); cur = ""
            elif toks[i] in ("(", "'", "#(") and r < 0.6:
                pass
            elif toks[i + 1] == ")" and r < 0.7:
                pass
            else:
                cur += " "
    lines.append(cur)
    return lines


def gen_session(rng):
    g = P.Gen(rng, ticks=False, max_depth=3)
    forms = g.toplevel(rng.randrange(3, 8))
    extra = ['(display "(")', '(display ")")', '(display "a;b")', "(display #\\()", "(display (list #\\) #\;))", '(display "x")(newline)',
             '(display "ab\ncd")', '(list "(\n" 1)', '(if (string? "p\nq)") 5 0)', "(quote |x\ny|)", '(define ml "one\ntwo")',
             # blanks that MATTER directly before a line break: inside a string literal or |identifier| continued on the next line, and
             # the character literal for a blank standing last on its line
             '(define ts "ab  \ncd")', '(display "x \n y")', '(list "tab\t\nq" 1)', "(quote |p \nq|)", "(eqv? #\\space #\\ \n)", '(if (eqv? #\\ \n #\\space) "yes" "no")',
             "'|a(b|", '"str(ing"', "(car '())", "(undefined-zz)", "(vector-ref (vector 1) 5)", "(+ 1 2) ; comment (", "(list 1 (quote (2 . 3)) #(4))",
             # forms rejected before evaluation: what stands before them in the same submission has already been evaluated
             "(if)", "(lambda)", "(let ((x)) x)", ")", "(if)", ")",
             # an import declaration AFTER other forms: rejected wherever it stands in its submission (the import part of a
             # session is over once anything else has been evaluated)
             "(import (only (scheme base) car))", "(import (scheme write))", "(import (only (scheme base) car))",
             # macro definitions and their uses in LATER submissions (a definition made before a failing form of the same
             # submission stays made)
             "(define-syntax twice-zz (syntax-rules () ((twice-zz e) (* 2 e))))", "(twice-zz 21)", "(twice-zz (+ 1 2))",
             "(define-syntax twice-zz (syntax-rules () ((twice-zz e) (* 2 e))))", "(twice-zz 4)",
             "(define-syntax swap-zz (syntax-rules () ((swap-zz a b) (list b a))))", "(swap-zz 1 2)"]
    for _ in range(rng.randrange(1, 5)):
        forms.insert(rng.randrange(len(forms) + 1), rng.choice(extra))
    if rng.random() < 0.35:
        # a definition (of a variable, a procedure or a macro) DIRECTLY FOLLOWED by a failing form - in some line splittings they
        # share a submission - and used at the end of the session: what was defined before the failure stays defined
        d, use = rng.choice([("(define-syntax twice-zz (syntax-rules () ((twice-zz e) (* 2 e))))", "(twice-zz 21)"),
                             ("(define kept-zz 41)", "(+ kept-zz 1)"), ("(define (kept-f q) (* q q))", "(kept-f 7)"),
                             ("(define-syntax swap-zz (syntax-rules () ((swap-zz a b) (list b a))))", "(swap-zz 1 2)")])
        bad = rng.choice(["(car '())", "(undefined-zz)", "(if)", ")", "(vector-ref (vector) 0)", "(lambda)"])
        at = rng.randrange(len(forms) + 1)
        forms[at:at] = [d, bad]
        forms.append(use)
    return forms


def depth_from_tokens(toks):
    d = 0
    for t in toks:
        c = t.rsplit("@", 1)[0]
        if c in ("(", "#(", "#u8("): d += 1
        elif c == ")": d -= 1
    return d


def run(rep, tier, rng):
    # (1) the counter, exhaustively
    maxlen = 5 if tier == "quick" else 7
    texts = ["".join(t) for L in range(0, maxlen + 1) for t in itertools.product(ALPHA, repeat=L)]
    cases = []
    for i, s in enumerate(texts):
        cases.append(("b%d" % i, "bracket", [s]))
        cases.append(("l%d" % i, "lex", [s]))
    impl = C.run_hx(cases)
    model = C.run_driver([c for c in cases if c[1] == "bracket"])
    nd = 0
    lexable = 0
    for i, s in enumerate(texts):
        rep.count()
        b = impl.get("b%d" % i, ["?"])[0]
        toks = impl.get("l%d" % i, [])
        if not any(t.startswith("E ") for t in toks):
            lexable += 1
            if toks:
                rep.nontrivial(("bracket", s))
            want = "closed" if depth_from_tokens(toks) <= 0 else "open"
            if b != want:
                rep.violation({"what": "the REPL's completeness test disagrees with the reader: the text tokenises, its lists are %s, "
                                       "but the counter says %s" % ("all closed" if want == "closed" else "not all closed", b),
                               "text": s, "tokens": toks})
                continue
        if model.get("b%d" % i, ["?"])[0] != b:
            nd += 1
            if nd <= 3:
                rep.violation({"broken": "correspondence Bracket.closed <-> check_bracket_closed", "text": s,
                               "implementation": b, "model": model.get("b%d" % i)}, no_input=True)
    rep.extra["counter_strings"] = {"alphabet": "".join(ALPHA).replace("\n", "\\n").replace("\r", "\\r"), "max_length": maxlen,
                                    "count": len(texts), "lexable": lexable}
    # (2) sessions through the binary
    binp = F.binary()
    work = os.path.join(C.BUILD, "tmp", "c18cwd")
    os.makedirs(work, exist_ok=True)
    n = 60 if tier == "quick" else 1500
    sess = []
    for i in range(n):
        forms = gen_session(rng)
        variants = []
        for v in range(3):
            lines = []
            for f in forms:
                lines += split_lines(rng, tokens_of(f)) if v > 0 else [f]
                if rng.random() < 0.15:
                    lines.append("")            # an empty line is ignored
            variants.append(lines)
        # a fourth way of entering the session: neighbouring forms share one line (one submission evaluates them all and
        # prints the value of the LAST one only); the grouping is kept, its transcript is predicted from per-form results
        groups, cur = [], []
        for f in forms:
            cur.append(f)
            if rng.random() < 0.55 or "\n" in f or ";" in f:
                groups.append(cur); cur = []
        if cur:
            groups.append(cur)
        sess.append((forms, variants, groups))
    # on every run: each kind of definition followed by each kind of failing form IN ONE SUBMISSION (one line), used afterwards -
    # what was defined before the failure stays defined
    for d, use in [("(define-syntax twice-zz (syntax-rules () ((twice-zz e) (* 2 e))))", "(twice-zz 21)"),
                   ("(define kept-zz 41)", "(+ kept-zz 1)"), ("(define (kept-f q) (* q q))", "(kept-f 7)"),
                   ("(define-syntax swap-zz (syntax-rules () ((swap-zz a b) (list b a))))", "(swap-zz 1 2)")]:
        for bad in ["(car '())", "(undefined-zz)", "(if)", ")", "(vector-ref (vector) 0)", "(lambda)"]:
            forms = ["(+ 1 2)", d, bad, use, "(list 1 2)"]
            variants = [[f for f in forms], ["(+ 1 2)", d + " " + bad, use, "(list 1 2)"], ["(+ 1 2) " + d + " " + bad, use + " (list 1 2)"]] \
                if False else [[f for f in forms] for _ in range(3)]
            sess.append((forms, variants, [["(+ 1 2)"], [d, bad], [use], ["(list 1 2)"]]))
    # on every run: one text submitted several times while the macro (or procedure) it uses is RE-DEFINED in between - every
    # submission is read and expanded anew
    for forms in [
        ["(define-syntax inc-zz (syntax-rules () ((inc-zz e) (+ e 1))))", "(inc-zz 5)", "(define-syntax inc-zz (syntax-rules () ((inc-zz e) (+ e 2))))", "(inc-zz 5)", "(inc-zz 5)"],
        ["(define (tw-zz q) (* 2 q))", "(tw-zz 5)", "(define-syntax tw-zz (syntax-rules () ((tw-zz e) (* 3 e))))", "(tw-zz 5)"],
        ["(define kk 1)", "(+ kk 1)", "(set! kk 10)", "(+ kk 1)", "(define (kk) 0)", "(+ kk 1)"],
        ["(define-syntax sw-zz (syntax-rules () ((sw-zz a b) (list b a))))", "(sw-zz 1 2)", "(define-syntax sw-zz (syntax-rules () ((sw-zz a b) (list a b))))", "(sw-zz 1 2)"],
    ]:
        sess.append((forms, [[x for x in forms] for _ in range(3)], [[x] for x in forms]))
    # on every run: blanks that matter directly before a line break (compared with sequential evaluation of the same forms)
    for f in ['(define ts "ab  \ncd")', '(display "x \n y")', '(list "tab\t\nq" 1)', "(quote |p \nq|)", "(eqv? #\\space #\\ \n)",
              '(if (eqv? #\\ \n #\\space) "yes" "no")']:
        forms = ["(+ 1 2)", f, "(list 1 2)"] + (["ts"] if "define ts" in f else [])
        sess.append((forms, [[x for x in forms] for _ in range(3)], [[x] for x in forms]))
    mcases = [("s%d_%d" % (i, v), "repl", lines) for i, (forms, variants, _) in enumerate(sess) for v, lines in enumerate(variants)]
    seq = C.run_hx([("q%d" % i, "session", ["std"] + forms) for i, (forms, _, _) in enumerate(sess)] +
                   [("f%d" % i, "session", ["std+perform"] + forms) for i, (forms, _, _) in enumerate(sess)])
    # keep a grouping only up to (and including) the first form that fails inside a group before its end: the rest of that
    # submission is not evaluated, which the per-form reference run cannot predict
    joined = {}
    for i, (forms, variants, groups) in enumerate(sess):
        per = seq.get("f%d" % i, [])
        if len(per) != 3 * len(forms):
            continue
        per = [(per[3 * j][2:], per[3 * j + 1][2:], per[3 * j + 2][2:]) for j in range(len(forms))]
        lines, want_out, want_err, j = [], "", [], 0
        for g in groups:
            res = per[j:j + len(g)]
            if any(e for (_, _, e) in res[:-1]):
                break
            lines.append(" ".join(g))
            want_out += "".join(o for (o, _, _) in res)
            if res[-1][2]:
                kk = res[-1][2].split(" ")
                want_err.append((kk[0], norm_msg(unesc(kk[1])) if len(kk) > 1 else ""))
            elif res[-1][1]:
                want_out += res[-1][1] + C.esc_out("\n")
            j += len(g)
        if any(len(g) > 1 for g in groups[:len(lines)]):
            joined[i] = (lines, want_out, want_err)
            mcases.append(("j%d" % i, "repl", lines))
    model = C.run_driver(mcases)
    rep.extra["sessions_with_several_forms_on_one_line"] = len(joined)
    for i, (forms, variants, groups) in enumerate(sess):
        outs = []
        for v, lines in enumerate(variants):
            rc, out, err = F.run_repl(binp, work, "\n".join(lines) + "\n")
            kinds = [norm_msg(l) for l in err.split("\n") if l.strip()]      # the messages as printed
            outs.append((rc, out, kinds))
        rep.count()
        rep.nontrivial(tuple(forms))
        if len(rep.cov["samples"]) < 3:
            rep.sample({"forms": forms[:6], "a_splitting": variants[1][:10], "stdout": outs[1][1][:120], "errors": outs[1][2]})
        ref = seq.get("q%d" % i, [])
        ref_out = ref[0][2:] if ref else None
        ref_errs = [x.split(" ")[1] for x in ref[1:]]
        # the messages this very build's library interface gives for the same forms (so rewording a message is no alarm)
        ref_msgs = [norm_msg(unesc(x.split(" ")[2])) if len(x.split(" ")) > 2 else "" for x in ref[1:]]
        bad = False
        for v, (rc, out, kinds) in enumerate(outs):
            if rc != 0 or "panicked" in out:
                rep.violation({"what": "the REPL process failed", "lines": variants[v], "exit": rc}); bad = True; break
            if (out, kinds) != (outs[0][1], outs[0][2]):
                rep.violation({"what": "the transcript depends on how the forms are split across lines", "forms": forms,
                               "splitting_a": variants[0], "transcript_a": [outs[0][1], outs[0][2]],
                               "splitting_b": variants[v], "transcript_b": [out, kinds]}); bad = True; break
        if bad:
            continue
        norm_kinds = ref_errs
        if C.esc_out(outs[0][1]) != ref_out or outs[0][2] != ref_msgs:
            rep.violation({"what": "the session does not equal evaluating the same forms one after another on one interpreter",
                           "forms": forms, "repl": [outs[0][1], outs[0][2]], "sequential": ref})
            continue
        if i in joined:
            lines, want_out, want_err = joined[i]
            rc, out, err = F.run_repl(binp, work, "\n".join(lines) + "\n")
            said = [norm_msg(l) for l in err.split("\n") if l.strip()]
            kinds = [k for k, _ in want_err]
            if rc != 0 or C.esc_out(out) != want_out or said != [m for _, m in want_err]:
                rep.violation({"what": "a submission of several forms does not print exactly what its forms write plus the value of its "
                                       "last form (nothing for a definition or an unspecified value)", "lines": lines,
                               "repl": [out, said], "expected_stdout": want_out, "expected_errors": want_err})
                continue
            m = model.get("j%d" % i, [])
            if (m[0][2:] if m else None) != C.esc_out(out) or [x.split(" ")[1] for x in m[1:]] != kinds:
                rep.violation({"broken": "correspondence Front.replRun <-> repl.rs", "lines": lines,
                               "implementation": [out, kinds], "model": m}, no_input=True)
                continue
        for v in range(len(variants)):
            m = model.get("s%d_%d" % (i, v), [])
            mo = m[0][2:] if m else None
            me = [x.split(" ")[1] for x in m[1:]]
            if mo != C.esc_out(outs[v][1]) or me != norm_kinds:
                rep.violation({"broken": "correspondence Front.replRun <-> repl.rs", "lines": variants[v],
                               "implementation": [outs[v][1], outs[v][2]], "model": m}, no_input=True)
                break


def main(tier, seed):
    rep = C.Report(PROP, tier, seed)
    rng = random.Random(seed)
    rep.cov["rule"] = ("(1) every string of length <= 5 (thorough 7) over ( ) \" ; | \\ # a space LF CR: the hooked counter vs the model "
                       "counter vs the real lexer's token depth (exhaustive); (2) random sessions of 4-12 forms (values, definitions, "
                       "displays, strings/characters/|identifiers| containing parentheses and semicolons, failing forms, comments) each "
                       "in 3 line splittings, through the built binary over a pipe; distinct = lexable non-empty counter strings + sessions")
    rep.cov["exhaustive"] = True
    rep.assumptions = ["the line editor is a line source (rustyline reading a pipe); the banner and farewell lines are stripped"]
    ok = C.standard_proof_phase(rep, MODULES, directed_search=lambda r: run(r, tier, rng))
    if ok:
        run(rep, tier, rng)
    return rep.finish("cd lean && lake build RuschmProofs.C18Bracket RuschmProofs.C18 && lake env lean <#print axioms of every theorem>")

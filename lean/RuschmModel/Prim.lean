/-
The native procedures: `src/interpreter/library/native/base.rs` and `write.rs`, on model values.
Everything except `apply` (which re-enters the evaluator) is here; argument-count `unwrap`s that
the arity check makes unreachable are rendered as `panic`.
-/
import RuschmModel.Value
namespace Ruschm

/-- result of a step that may change the store: the store is returned with errors too -/
abbrev Res (α : Type) := Except SErr α × Store

namespace Prim

def err {α} (e : Err) (σ : Store) : Res α := (.error (e, none), σ)
def ok {α} (a : α) (σ : Store) : Res α := (.ok a, σ)
def missing {α} (b : Builtin) (σ : Store) : Res α := err (.panic ("base.rs unwrap: " ++ b.name)) σ

mutual
def patBeq : Macro.Pat → Macro.Pat → Bool
  | .underscore, .underscore => true
  | .ellipsis, .ellipsis => true
  | .pair a d, .pair a' d' => patBeq a a' && patBeq d d'
  | .nil, .nil => true
  | .vec xs, .vec ys => patsBeq xs ys
  | .ident s, .ident t => s == t
  | .prim p, .prim q => p == q
  | _, _ => false
def patsBeq : List Macro.Pat → List Macro.Pat → Bool
  | [], [] => true
  | x :: xs, y :: ys => patBeq x y && patsBeq xs ys
  | _, _ => false
end

mutual
def tmplBeq : Macro.Tmpl → Macro.Tmpl → Bool
  | .list xs, .list ys => elemsBeq xs ys
  | .vec xs, .vec ys => elemsBeq xs ys
  | .ident s, .ident t => s == t
  | .prim p, .prim q => p == q
  | _, _ => false
def elemsBeq : List (Macro.Tmpl × Bool) → List (Macro.Tmpl × Bool) → Bool
  | [], [] => true
  | (x, b) :: xs, (y, c) :: ys => tmplBeq x y && b == c && elemsBeq xs ys
  | _, _ => false
end

def rulesBeq (a b : Macro.Rules) : Bool :=
  (a.literals.all b.literals.contains && b.literals.all a.literals.contains) &&
  a.rules.length == b.rules.length &&
  (a.rules.zip b.rules).all (fun (x, y) => patBeq x.1 y.1 && tmplBeq x.2 y.2)

/-- derived `PartialEq for Value`, as `eqv` uses it: for operands that are not both numbers,
both vectors or both pairs -/
def valueEq : Value → Value → Bool
  | .bool a, .bool b => a == b
  | .char a, .char b => a == b
  | .str a, .str b => a == b
  | .sym a, .sym b => a == b
  | .closure l _, .closure l' _ => Lambda.beq l l'      -- the environments are not compared
  | .builtin a, .builtin b => a == b
  | .transformer a, .transformer b => rulesBeq a b
  | .void, .void => true
  | _, _ => false

mutual
/-- the derived `PartialEq for Value` in full (numbers by `=`, pairs and vectors structurally —
`Rc<T>: PartialEq` compares contents —, procedures by their text) -/
def derivedEq (σ : Store) : Nat → Value → Value → Bool
  | 0, _, _ => false
  | fuel + 1, a, b =>
    match a, b with
    | .num x, .num y => Num.eq x y
    | .pair a1 d1, .pair a2 d2 => derivedEq σ fuel a1 a2 && derivedEq σ fuel d1 d2
    | .nil, .nil => true
    | .vec i, .vec j =>
      match σ.vecs[i]?, σ.vecs[j]? with
      | some c1, some c2 => c1.mutable == c2.mutable && derivedEqList σ fuel c1.items c2.items
      | _, _ => false
    | x, y => valueEq x y
def derivedEqList (σ : Store) : Nat → List Value → List Value → Bool
  | 0, _, _ => false
  | _ + 1, [], [] => true
  | fuel + 1, x :: xs, y :: ys => derivedEq σ fuel x y && derivedEqList σ fuel xs ys
  | _ + 1, _, _ => false
end

/-- `eqv` (also bound to `eq?`) -/
def eqv : Value → Value → Bool
  | .vec a, .vec b => a == b
  | .nil, .nil => true
  | .pair _ _, .pair _ _ | .pair _ _, .nil | .nil, .pair _ _ => false   -- boxes are never identical
  | .num a, .num b => Num.exactEqv a b
  | a, b => valueEq a b

def expectNumber (v : Value) : Except Err Num :=
  match v with | .num n => .ok n | _ => .error .type

/-- `Number::as_real` -/
def asReal : Num → Float32
  | .int i => Float32.ofInt i
  | .real r => r
  | .rat n d => Num.ratToReal n d

def num1 (σ : Store) (args : List Value) (b : Builtin) (f : Num → Except Err Num) : Res Value :=
  match args with
  | x :: _ =>
    match expectNumber x with
    | .error e => err e σ
    | .ok n => match f n with
      | .ok r => ok (.num r) σ
      | .error e => err e σ
  | [] => missing b σ

def num2 (σ : Store) (args : List Value) (b : Builtin) (f : Num → Num → Except Err Num) : Res Value :=
  match args with
  | x :: y :: _ =>
    match expectNumber x with
    | .error e => err e σ
    | .ok n => match expectNumber y with
      | .error e => err e σ
      | .ok m => match f n m with
        | .ok r => ok (.num r) σ
        | .error e => err e σ
  | _ => missing b σ

/-- `try_fold(init, |a, b| a ⊕ b.expect_number()?)` -/
def foldNum (f : Num → Num → Except Err Num) (init : Num) (args : List Value) : Except Err Num :=
  args.foldlM (fun a v => do let b ← expectNumber v; f a b) init

/-- `sub` / `div`: `first ⊖ second`, or `unit ⊖ first` for one argument, then fold -/
def subDiv (f : Num → Num → Except Err Num) (unit : Num) (args : List Value) : Except Err Num :=
  match args with
  | [] => .error (.panic "base.rs unwrap: sub/div")
  | x :: rest => do
    let first ← expectNumber x
    match rest with
    | [] => f unit first
    | y :: more => do
      let second ← expectNumber y
      let init ← f first second
      foldNum f init more

/-- the exact numbers at the front of an argument list (up to the first argument that is a real or not a number) -/
def exactPrefix : List Value → List Num
  | .num x :: rest => if x.notReal then x :: exactPrefix rest else []
  | _ => []

/-- `div`: `subDiv Num.div 1`, except that while every operand so far is exact an exact zero divisor is an error even
when the running quotient has overflowed into a real (`exact_so_far` in base.rs) -/
def divArgs (args : List Value) : Except Err Num :=
  let p := exactPrefix args
  let divisors := match args with
    | [_] => p
    | _ => p.drop 1
  if divisors.any Num.isExactZero then .error .divZero else subDiv Num.div (.int 1) args

/-- `typed_comparision!` on numbers: every argument is type-checked, also after the pair that decides the result -/
def cmpNum (op : Num → Num → Bool) : List Value → Except Err Bool
  | [] => .ok true
  | x :: rest => do
    let first ← expectNumber x
    let rec go (last : Num) (acc : Bool) : List Value → Except Err Bool
      | [] => .ok acc
      | v :: vs => do
        let cur ← expectNumber v
        go cur (acc && op last cur) vs
    go first true rest

def cmpBool : List Value → Except Err Bool
  | [] => .ok true
  | x :: rest =>
    match x with
    | .bool first =>
      let rec go (last : Bool) (acc : Bool) : List Value → Except Err Bool
        | [] => .ok acc
        | .bool cur :: vs => go cur (acc && last == cur) vs
        | _ :: _ => .error .type
      go first true rest
    | _ => .error .type

/-- `first_of_order!` -/
def extremum (step : Num → Num → Num) : List Value → Except Err Num
  | [] => .error (.panic "base.rs unwrap: max/min")
  | x :: rest => do
    let init ← expectNumber x
    rest.foldlM (fun a v => do let b ← expectNumber v; pure (step a b)) init

def lift {α} (σ : Store) (r : Except Err α) (k : α → Value) : Res Value :=
  match r with
  | .ok a => ok (k a) σ
  | .error e => err e σ

def realFn (σ : Store) (args : List Value) (b : Builtin) (f : Float32 → Float32) : Res Value :=
  num1 σ args b (fun n => .ok (.real (f (asReal n))))

def realFn2 (σ : Store) (args : List Value) (b : Builtin) (f : Float32 → Float32 → Float32) : Res Value :=
  num2 σ args b (fun n m => .ok (.real (f (asReal n) (asReal m))))

def listSet : List Value → Nat → Value → Option (List Value)
  | [], _, _ => none
  | _ :: xs, 0, v => some (v :: xs)
  | x :: xs, n + 1, v => (listSet xs n v).map (x :: ·)

mutual
/-- `Display for Value` (what `display` prints and the REPL echoes). Reals and transformers are
not modelled (`{:?}` of `f32`, `Debug` of the transformer): they print as placeholders. -/
def display (σ : Store) : Nat → Value → String
  | 0, _ => "…"
  | fuel + 1, v =>
    match v with
    | .num (.int i) => toString i
    | .num (.rat n d) => toString n ++ "/" ++ toString d
    | .num (.real r) => "<real:" ++ (Num.real r).canon ++ ">"
    | .sym s => s
    | .closure lam _ =>
      let f := lam.formals
      let fs : String := match f.fixed, f.rest with
        | [], some r => r
        | xs, none => "(" ++ " ".intercalate xs ++ ")"
        | xs, some r => "(" ++ " ".intercalate xs ++ " . " ++ r ++ ")"
      "(lambda " ++ fs ++ ")"
    | .builtin b => "<build-in procedure (" ++ b.name ++ ")>"
    | .void => "Void"
    | .bool true => "#t"
    | .bool false => "#f"
    | .char c => "#\\" ++ c.toString
    | .str s => s
    | .vec id =>
      match σ.vecs[id]? with
      | some cell => "#(" ++ " ".intercalate (cell.items.map (display σ fuel)) ++ ")"
      | none => "#(?)"
    | .nil => "()"
    | .pair a d => "(" ++ display σ fuel a ++ displayTail σ fuel d ++ ")"
    | .transformer _ => "<transformer>"
def displayTail (σ : Store) : Nat → Value → String
  | 0, _ => "…"
  | fuel + 1, v =>
    match v with
    | .nil => ""
    | .pair a d => " " ++ display σ fuel a ++ displayTail σ fuel d
    | other => " . " ++ display σ fuel other
end

mutual
/-- canonical text of a value, as the harness prints it -/
def canon (σ : Store) : Nat → Value → String
  | 0, _ => "…"
  | fuel + 1, v =>
    match v with
    | .num n => n.canon
    | .bool true => "#t"
    | .bool false => "#f"
    | .char c => "c:" ++ toString c.toNat
    | .str s => "s:\"" ++ Proto.esc s ++ "\""
    | .sym s => "y:" ++ Proto.esc s
    | .closure _ _ => "<proc>"
    | .builtin b => "<builtin:" ++ Proto.esc b.name ++ ">"
    | .vec id =>
      match σ.vecs[id]? with
      | some cell =>
        (if cell.mutable then "#m(" else "#i(") ++ " ".intercalate (cell.items.map (canon σ fuel)) ++ ")"
      | none => "#?()"
    | .nil => "()"
    | .pair a d => "(" ++ canon σ fuel a ++ canonTail σ fuel d ++ ")"
    | .transformer _ => "<transformer>"
    | .void => "<void>"
def canonTail (σ : Store) : Nat → Value → String
  | 0, _ => "…"
  | fuel + 1, v =>
    match v with
    | .nil => ""
    | .pair a d => " " ++ canon σ fuel a ++ canonTail σ fuel d
    | other => " . " ++ canon σ fuel other
end

/-- every native procedure except `apply` -/
def applyPure (σ : Store) (b : Builtin) (args : List Value) : Res Value :=
  match b with
  | .apply => err (.panic "applyPure: apply") σ
  | .car =>
    match args with
    | .pair a _ :: _ => ok a σ
    | [] => missing b σ
    | _ => err .type σ
  | .cdr =>
    match args with
    | .pair _ d :: _ => ok d σ
    | [] => missing b σ
    | _ => err .type σ
  | .eqv | .eq =>
    match args with
    | a :: c :: _ => ok (.bool (eqv a c)) σ
    | _ => missing b σ
  | .cons =>
    match args with
    | a :: d :: _ => ok (.pair a d) σ
    | _ => missing b σ
  | .isBoolean => match args with | x :: _ => ok (.bool (match x with | .bool _ => true | _ => false)) σ | [] => missing b σ
  | .isChar => match args with | x :: _ => ok (.bool (match x with | .char _ => true | _ => false)) σ | [] => missing b σ
  | .isNumber => match args with | x :: _ => ok (.bool (match x with | .num _ => true | _ => false)) σ | [] => missing b σ
  | .isString => match args with | x :: _ => ok (.bool (match x with | .str _ => true | _ => false)) σ | [] => missing b σ
  | .isSymbol => match args with | x :: _ => ok (.bool (match x with | .sym _ => true | _ => false)) σ | [] => missing b σ
  | .isPair => match args with | x :: _ => ok (.bool (match x with | .pair _ _ => true | _ => false)) σ | [] => missing b σ
  | .isProcedure => match args with
    | x :: _ => ok (.bool (match x with | .closure _ _ | .builtin _ => true | _ => false)) σ
    | [] => missing b σ
  | .isVector => match args with | x :: _ => ok (.bool (match x with | .vec _ => true | _ => false)) σ | [] => missing b σ
  | .not => match args with | x :: _ => ok (.bool (match x with | .bool false => true | _ => false)) σ | [] => missing b σ
  | .booleanEq => lift σ (cmpBool args) .bool
  | .add => lift σ (foldNum Num.add (.int 0) args) .num
  | .mul => lift σ (foldNum Num.mul (.int 1) args) .num
  | .sub => lift σ (subDiv Num.sub (.int 0) args) .num
  | .div => lift σ (divArgs args) .num
  | .numEq => lift σ (cmpNum Num.eq args) .bool
  | .lt => lift σ (cmpNum Num.lt args) .bool
  | .le => lift σ (cmpNum Num.le args) .bool
  | .gt => lift σ (cmpNum Num.gt args) .bool
  | .ge => lift σ (cmpNum Num.ge args) .bool
  | .max => lift σ (extremum Num.maxStep args) .num
  | .min => lift σ (extremum Num.minStep args) .num
  | .abs => num1 σ args b Num.abs
  | .floor => num1 σ args b Num.floor
  | .ceiling => num1 σ args b Num.ceiling
  | .exact => num1 σ args b Num.exact
  | .floorQuotient => num2 σ args b Num.floorQuotient
  | .floorRemainder => num2 σ args b Num.floorRemainder
  | .sqrt => realFn σ args b Float32.sqrt
  | .exp => realFn σ args b Float32.exp
  | .ln => realFn σ args b Float32.log
  | .sin => realFn σ args b Float32.sin
  | .cos => realFn σ args b Float32.cos
  | .tan => realFn σ args b Float32.tan
  | .asin => realFn σ args b Float32.asin
  | .acos => realFn σ args b Float32.acos
  | .atan => realFn σ args b Float32.atan
  | .log => realFn2 σ args b (fun x base => Float32.log x / Float32.log base)
  | .atan2 => realFn2 σ args b Float32.atan2
  | .newline => ok .void { σ with out := "\n" :: σ.out }
  | .display =>
    match args with
    | x :: _ => ok .void { σ with out := display σ 100000 x :: σ.out }
    | [] => missing b σ
  | .tick =>
    match args with
    | x :: _ => ok x { σ with ticks := canon σ 100000 x :: σ.ticks }
    | [] => missing b σ
  | .vector =>
    let (v, σ) := σ.allocVec true args
    ok v σ
  | .makeVector =>
    match args with
    | k :: fill :: _ =>
      match k with
      | .num (.int n) =>
        if n < 0 then err .negativeLength σ
        else
          let (v, σ) := σ.allocVec true (List.replicate n.toNat fill)
          ok v σ
      | _ => err .type σ
    | _ => missing b σ
  | .vectorLength =>
    match args with
    | .vec id :: _ =>
      match σ.vecs[id]? with
      | some cell => ok (.num (.int cell.items.length)) σ
      | none => err (.panic "dangling vector") σ
    | [] => missing b σ
    | _ => err .type σ
  | .vectorRef =>
    match args with
    | v :: k :: _ =>
      match v with
      | .vec id =>
        match k with
        | .num (.int n) =>
          match σ.vecs[id]? with
          | some cell =>
            if n < 0 then err .vectorIndex σ else
            match cell.items[n.toNat]? with
            | some x => ok x σ
            | none => err .vectorIndex σ
          | none => err (.panic "dangling vector") σ
        | _ => err .type σ
      | _ => err .type σ
    | _ => missing b σ
  | .vectorSet =>
    match args with
    | v :: k :: obj :: _ =>
      match v with
      | .vec id =>
        match k with
        | .num (.int n) =>
          match σ.vecs[id]? with
          | some cell =>
            if !cell.mutable then err .immutable σ
            else if n < 0 then err .vectorIndex σ else
            match listSet cell.items n.toNat obj with
            | some items => ok .void { σ with vecs := σ.vecs.set! id { cell with items := items } }
            | none => err .vectorIndex σ
          | none => err (.panic "dangling vector") σ
        | _ => err .type σ
      | _ => err .type σ
    | _ => missing b σ

end Prim
end Ruschm

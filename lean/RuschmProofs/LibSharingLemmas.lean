/-
Helper lemmas for `RuschmProofs/C13Sharing.lean`: root frames of the store (library frames are
root frames), what `Store.Grows` keeps of them, lexical chains of child frames, and what an
import declaration does to the target frame.
-/
import RuschmProofs.LibMoreLemmas
import RuschmProofs.C13
import RuschmProofs.C12

namespace Ruschm
namespace Lib
open Interp

/-! ## root frames -/

/-- frame `ρ` is allocated and has no parent (the frame of a library, or an interpreter's global
frame) -/
def IsRoot (σ : Store) (ρ : Nat) : Prop := ρ < σ.frames.size ∧ σ.parentOf ρ = none

theorem IsRoot.frame {σ : Store} {ρ : Nat} (h : IsRoot σ ρ) :
    ∃ f, σ.frames[ρ]? = some f ∧ f.parent = none := by
  obtain ⟨hlt, hp⟩ := h
  have hf : σ.frames[ρ]? = some σ.frames[ρ] := by simp [hlt]
  refine ⟨_, hf, ?_⟩
  simpa [Store.parentOf, hf] using hp

theorem IsRoot.of_frame {σ : Store} {ρ : Nat} {f : Frame} (hf : σ.frames[ρ]? = some f)
    (hp : f.parent = none) : IsRoot σ ρ :=
  ⟨Store.getElem?_some_lt hf, by simp [Store.parentOf, hf, hp]⟩

theorem IsRoot.grows {σ σ' : Store} {ρ : Nat} (h : IsRoot σ ρ) (g : Store.Grows σ σ') : IsRoot σ' ρ := by
  obtain ⟨f, hf, hp⟩ := h.frame
  obtain ⟨f', hf', hp', -⟩ := g.frame ρ f hf
  exact IsRoot.of_frame hf' (hp'.trans hp)

theorem IsRoot.chain {σ : Store} {ρ : Nat} (h : IsRoot σ ρ) : σ.chain ρ = [ρ] := by
  obtain ⟨f, hf, hp⟩ := h.frame
  simp [Store.chain, Store.chainAux, hf, hp]

/-- a chain never contains a younger frame -/
theorem not_mem_chain_of_lt {σ : Store} {ρ' r : Nat} (h : ρ' < r) : r ∉ σ.chain ρ' := by
  intro hm
  have := (Store.mem_chainAux hm).1
  omega

/-- the chain of a parentless frame contains at most that frame -/
theorem not_mem_chain_of_parent_none {σ : Store} {ρ' r : Nat} (hne : ρ' ≠ r) (hp : σ.parentOf ρ' = none) :
    r ∉ σ.chain ρ' := by
  intro hm
  unfold Store.chain Store.chainAux at hm
  cases hf : σ.frames[ρ']? with
  | none => simp [hf] at hm
  | some f =>
    have : f.parent = none := by simpa [Store.parentOf, hf] using hp
    simp [hf, this] at hm
    exact hne hm.symm

/-- the frames a frame `r` is certainly invisible from: the older ones and the other roots -/
theorem not_mem_chain_of_older_or_root {σ : Store} {ρ' r : Nat}
    (h : ρ' < r ∨ (ρ' ≠ r ∧ σ.parentOf ρ' = none)) : r ∉ σ.chain ρ' := by
  rcases h with h | ⟨hne, hp⟩
  · exact not_mem_chain_of_lt h
  · exact not_mem_chain_of_parent_none hne hp

theorem chainAux_fuel (σ : Store) : ∀ fuel fuel' ρ, ρ < fuel → ρ < fuel' →
    σ.chainAux fuel ρ = σ.chainAux fuel' ρ
  | 0, _, _, h, _ => absurd h (Nat.not_lt_zero _)
  | _ + 1, 0, _, _, h => absurd h (Nat.not_lt_zero _)
  | f + 1, f' + 1, ρ, h, h' => by
    simp only [Store.chainAux]
    cases σ.frames[ρ]? with
    | none => rfl
    | some fr =>
      simp only
      cases fr.parent with
      | none => rfl
      | some p =>
        simp only
        split
        · rw [chainAux_fuel σ f f' p (by omega) (by omega)]
        · rfl

/-- the chain of a child frame: the frame, then the chain of its parent -/
theorem chain_child {σ : Store} {ρc p : Nat} {f : Frame} (hf : σ.frames[ρc]? = some f)
    (hp : f.parent = some p) (hlt : p < ρc) : σ.chain ρc = ρc :: σ.chain p := by
  unfold Store.chain
  rw [Store.chainAux, hf]
  simp only [hp, hlt, if_true]
  rw [chainAux_fuel σ ρc (p + 1) p hlt (Nat.lt_succ_self _)]

/-- a root frame that is on a chain is the END of that chain -/
theorem chainAux_getLast_of_root {σ : Store} {r : Nat} (hr : σ.parentOf r = none) :
    ∀ (fuel ρ : Nat), r ∈ σ.chainAux fuel ρ → (σ.chainAux fuel ρ).getLast? = some r
  | 0, _, h => by simp [Store.chainAux] at h
  | fuel + 1, ρ, h => by
    rw [Store.chainAux] at h ⊢
    cases hf : σ.frames[ρ]? with
    | none => simp [hf] at h
    | some f =>
      simp only [hf] at h ⊢
      cases hp : f.parent with
      | none => simp only [hp, List.mem_singleton] at h ⊢; subst h; rfl
      | some p =>
        simp only [hp] at h ⊢
        by_cases hlt : p < ρ
        · simp only [hlt, if_true, List.mem_cons] at h ⊢
          rcases h with rfl | h
          · simp [Store.parentOf, hf, hp] at hr
          · have ih := chainAux_getLast_of_root hr fuel p h
            cases hc : σ.chainAux fuel p with
            | nil => rw [hc] at h; cases h
            | cons a l => rw [hc] at ih; simpa [List.getLast?_cons_cons] using ih
        · simp only [hlt, if_false, List.mem_singleton] at h ⊢
          subst h
          simp [Store.parentOf, hf, hp] at hr

theorem chain_getLast_of_root {σ : Store} {r ρ : Nat} (hr : σ.parentOf r = none) (h : r ∈ σ.chain ρ) :
    (σ.chain ρ).getLast? = some r := chainAux_getLast_of_root hr _ _ h

/-- a frame whose chain ends in another frame than the root `r` does not see `r` -/
theorem not_mem_chain_of_getLast_ne {σ : Store} {r ρ q : Nat} (hr : σ.parentOf r = none)
    (hq : (σ.chain ρ).getLast? = some q) (hne : q ≠ r) : r ∉ σ.chain ρ := by
  intro hm
  rw [chain_getLast_of_root hr hm] at hq
  cases hq
  exact hne rfl

/-! ## `resolve` from the defining frame, and from a child of it -/

theorem resolve_self {σ : Store} {ρ : Nat} {x : String} (hd : σ.definesAt ρ x = true) :
    σ.resolve ρ x = some ρ := by
  have hf : ∃ f, σ.frames[ρ]? = some f := by
    cases hf : σ.frames[ρ]? with
    | none => simp [Store.definesAt, Store.binding, hf] at hd
    | some f => exact ⟨f, rfl⟩
  obtain ⟨f, hf⟩ := hf
  rw [Store.resolve_eq_find]
  unfold Store.chain
  rw [Store.chainAux, hf]
  simp [hd]

/-- from a child frame that does not define `x` itself, `x` resolves as from the parent -/
theorem resolve_child {σ : Store} {ρc p : Nat} {f : Frame} (hf : σ.frames[ρc]? = some f)
    (hp : f.parent = some p) (hlt : p < ρc) {x : String} (hx : σ.definesAt ρc x = false) :
    σ.resolve ρc x = σ.resolve p x := by
  rw [Store.resolve_eq_find, Store.resolve_eq_find, chain_child hf hp hlt]
  simp [hx]

theorem definesAt_grows {σ σ' : Store} {ρ : Nat} {x : String} (g : Store.Grows σ σ')
    (hd : σ.definesAt ρ x = true) : σ'.definesAt ρ x = true := by
  cases hf : σ.frames[ρ]? with
  | none => simp [Store.definesAt, Store.binding, hf] at hd
  | some f =>
    obtain ⟨f', hf', -, hk⟩ := g.frame ρ f hf
    have : (f.defs.lookup x).isSome := by simpa [Store.definesAt, Store.binding, hf] using hd
    simpa [Store.definesAt, Store.binding, hf'] using hk x this

/-! ## `set!` that designates frame `r` -/

/-- A `set!` of `x` from frame `ρ` that resolves to frame `r`: it succeeds, writes `v` to `r`'s
`x` (so `r` itself then sees `v`), the store differs exactly there, and every lookup from a frame
whose chain does not contain `r` is unchanged. -/
theorem set_resolved {σ : Store} {ρ r : Nat} {x : String} (hr : σ.resolve ρ x = some r) (v : Value) :
    σ.set ρ x v = (true, σ.define r x v) ∧
    Store.SameExceptBinding σ (σ.define r x v) r x ∧
    (σ.set ρ x v).2.lookup r x = some v ∧
    (∀ ρc, σ.resolve ρc x = some r → (σ.set ρ x v).2.lookup ρc x = some v) ∧
    (∀ ρ', r ∉ σ.chain ρ' → ∀ y, (σ.set ρ x v).2.lookup ρ' y = σ.lookup ρ' y) := by
  have hset : σ.set ρ x v = (true, σ.define r x v) := by rw [Store.set_eq, hr]
  have hs := Store.resolve_some hr
  have hvis : ∀ ρc, σ.resolve ρc x = some r → (σ.set ρ x v).2.lookup ρc x = some v := by
    intro ρc hc
    exact (Store.lookup_after_set (σ' := (σ.set ρ x v).2) (by rw [hset]) ρc x).2.1 ⟨rfl, by rw [hc, hr]⟩
  refine ⟨hset, Store.sameExceptBinding_define σ r x v, hvis r (resolve_self hs.1), hvis, ?_⟩
  intro ρ' hnot y
  rw [hset]
  exact lookup_define_off_chain σ x v y hnot

/-- the evaluator's `set!` expression is `Store.set` on the store the right-hand side leaves -/
theorem evalExpr_assign {fuel : Nat} {σ₀ σ : Store} {ρ r : Nat} {x : String} {ve : Expr} {v : Value}
    (loc : Loc) (he : Eval.evalExpr fuel σ₀ ρ ve = (.ok v, σ)) (hr : σ.resolve ρ x = some r) :
    Eval.evalExpr (fuel + 1) σ₀ ρ (.assign x ve loc) = (.ok .void, σ.define r x v) := by
  rw [Eval.evalExpr]
  simp only [he, Store.set_eq, hr]

/-! ## what a successful import declaration does -/

/-- A successful `evalImport` into frame `ρ`: the sets evaluate to a binding list `defs` (in a
state `st₀` that differs from the result only in the store), and `defs` is then `define`d, binding
by binding, in frame `ρ`. -/
theorem evalImport_ok {fuel : Nat} {st st' : State} {sets : List ImportSet} {ρ : Nat}
    (h : evalImport fuel st sets ρ = (.ok (), st')) :
    ∃ k defs st₀, fuel = k + 1 ∧ evalImportSets k st sets [] = (.ok defs, st₀) ∧
      st' = { st₀ with store := defs.foldl (fun σ p => σ.define ρ p.1 p.2) st₀.store } := by
  cases fuel with
  | zero => rw [evalImport] at h; cases h
  | succ k =>
    rw [evalImport] at h
    split at h
    · cases h
    · rename_i defs st₀ he
      cases h
      exact ⟨k, defs, st₀, rfl, he, rfl⟩

/-- the root-ness of the frame `evalLibraryDef` allocates -/
theorem libraryDef_root (fuel : Nat) (st : State) (decls : List LibDecl) :
    IsRoot (evalLibraryDef (fuel + 1) st decls).2.store st.store.frames.size := by
  obtain ⟨-, -, hp, hlt, -, -⟩ := C13.lib_env_is_fresh_root fuel st decls
  exact ⟨hlt, hp⟩

theorem libraryDef_grows (fuel : Nat) (st : State) (decls : List LibDecl) :
    Store.Grows st.store (evalLibraryDef fuel st decls).2.store :=
  ((invAt storeRel_grows fuel).libraryDef (r := _) (st' := _) rfl).store

/-! ## importing an instantiated library again -/

theorem findFactory_keeps (st : State) (n : LibName) (loc : Loc) :
    (findFactory st n loc).2.instances = st.instances ∧
    (findFactory st n loc).2.inProgress = st.inProgress ∧
    (findFactory st n loc).2.store = st.store := by
  unfold findFactory
  split
  · exact ⟨rfl, rfl, rfl⟩
  · split
    · exact ⟨rfl, rfl, rfl⟩
    · exact ⟨rfl, rfl, rfl⟩
    · split <;> exact ⟨rfl, rfl, rfl⟩

/-- an import set, of any shape, over a library that is in the instance cache: the operators
applied to the cached export list, and NOTHING is evaluated — the state is returned as it was -/
theorem importSet_cached (s : ImportSet) (n : Nat) {st : State} {d : S.Bindings}
    (hc : libLookup st.instances (S.leaf s) = some d) (hip : S.leaf s ∉ st.inProgress) :
    evalImportSet (n + 2 + S.depth s) st s = (.ok (S.transform s d), st) := by
  rw [importSet_factors s (n + 2) st, direct_cached hip hc]

/-- the operators of an import set only select and rename: every value they yield is a value of
the library's export list -/
theorem transform_values (s : ImportSet) (d : S.Bindings) :
    ∀ p ∈ S.transform s d, ∃ q ∈ d, q.2 = p.2 := by
  induction s with
  | direct name loc => intro p hp; exact ⟨p, hp, rfl⟩
  | only sub ids ih => intro p hp; exact ih p (List.mem_filter.1 hp).1
  | except sub ids ih => intro p hp; exact ih p (List.mem_filter.1 hp).1
  | «prefix» sub pre ih =>
    intro p hp
    obtain ⟨q, hq, rfl⟩ := List.mem_map.1 hp
    exact ih q hq
  | rename sub pairs ih =>
    intro p hp
    obtain ⟨q, hq, rfl⟩ := List.mem_map.1 hp
    exact ih q hq

end Lib
end Ruschm

/-
Location erasure commutes with the evaluator: evaluating code, values and a store from which
every source location has been erased (`RuschmSpec/Unloc.lean`) gives the erased result of
evaluating the originals — same values, same error kinds, same output; only error LOCATIONS are
lost. Helper lemmas for C17 `file_text_layout` / C18 `repl_split_invariance` (general form).
-/
import RuschmSpec.Unloc
import RuschmProofs.StoreLemmas
set_option linter.unusedSimpArgs false
set_option linter.unusedVariables false
namespace Ruschm
open Eval Prim

@[simp] theorem Value.unloc_num (n) : (Value.num n).unloc = .num n := rfl
@[simp] theorem Value.unloc_bool (n) : (Value.bool n).unloc = .bool n := rfl
@[simp] theorem Value.unloc_char (n) : (Value.char n).unloc = .char n := rfl
@[simp] theorem Value.unloc_str (n) : (Value.str n).unloc = .str n := rfl
@[simp] theorem Value.unloc_sym (n) : (Value.sym n).unloc = .sym n := rfl
@[simp] theorem Value.unloc_closure (l e) : (Value.closure l e).unloc = .closure l.unloc e := rfl
@[simp] theorem Value.unloc_builtin (n) : (Value.builtin n).unloc = .builtin n := rfl
@[simp] theorem Value.unloc_vec (n) : (Value.vec n).unloc = .vec n := rfl
@[simp] theorem Value.unloc_pair (a d) : (Value.pair a d).unloc = .pair a.unloc d.unloc := rfl
@[simp] theorem Value.unloc_nil : Value.nil.unloc = .nil := rfl
@[simp] theorem Value.unloc_transformer (n) : (Value.transformer n).unloc = .transformer n := rfl
@[simp] theorem Value.unloc_void : Value.void.unloc = .void := rfl

@[simp] theorem Store.unloc_out (σ : Store) : σ.unloc.out = σ.out := rfl
@[simp] theorem Store.unloc_ticks (σ : Store) : σ.unloc.ticks = σ.ticks := rfl
@[simp] theorem Store.unloc_depth (σ : Store) : σ.unloc.depth = σ.depth := rfl
@[simp] theorem Store.unloc_maxDepth (σ : Store) : σ.unloc.maxDepth = σ.maxDepth := rfl
@[simp] theorem Store.unloc_frames_size (σ : Store) : σ.unloc.frames.size = σ.frames.size := by simp [Store.unloc]
@[simp] theorem Store.unloc_vecs_size (σ : Store) : σ.unloc.vecs.size = σ.vecs.size := by simp [Store.unloc]
theorem Store.unloc_frames_get (σ : Store) (i : Nat) : σ.unloc.frames[i]? = σ.frames[i]?.map Frame.unloc := by
  simp [Store.unloc]
theorem Store.unloc_vecs_get (σ : Store) (i : Nat) : σ.unloc.vecs[i]? = σ.vecs[i]?.map VecCell.unloc := by
  simp [Store.unloc]

theorem lookup_map_unloc (defs : List (String × Value)) (k : String) :
    (defs.map (fun p => (p.1, p.2.unloc))).lookup k = (defs.lookup k).map Value.unloc := by
  induction defs with
  | nil => rfl
  | cons p ds ih =>
    obtain ⟨a, b⟩ := p
    simp only [List.map_cons, List.lookup]
    split <;> simp_all

theorem Store.unloc_lookupAux (σ : Store) : ∀ (n ρ : Nat) (k : String),
    σ.unloc.lookupAux n ρ k = (σ.lookupAux n ρ k).map Value.unloc := by
  intro n
  induction n with
  | zero => intro ρ k; rfl
  | succ n ih =>
    intro ρ k
    simp only [Store.lookupAux, Store.unloc_frames_get]
    cases σ.frames[ρ]? with
    | none => rfl
    | some f =>
      simp only [Option.map_some, Frame.unloc, lookup_map_unloc]
      cases f.defs.lookup k with
      | some v => rfl
      | none =>
        simp only [Option.map_none]
        cases f.parent with
        | none => rfl
        | some p => simp only; split <;> simp [ih]

@[simp] theorem Store.unloc_lookup (σ : Store) (ρ : Nat) (k : String) :
    σ.unloc.lookup ρ k = (σ.lookup ρ k).map Value.unloc := Store.unloc_lookupAux σ _ _ _

theorem Store.unloc_resolveAux (σ : Store) : ∀ (n ρ : Nat) (k : String),
    σ.unloc.resolveAux n ρ k = σ.resolveAux n ρ k := by
  intro n
  induction n with
  | zero => intro ρ k; rfl
  | succ n ih =>
    intro ρ k
    simp only [Store.resolveAux, Store.unloc_frames_get]
    cases σ.frames[ρ]? with
    | none => rfl
    | some f =>
      simp only [Option.map_some, Frame.unloc, lookup_map_unloc, Option.isSome_map]
      split
      · rfl
      · cases f.parent with
        | none => rfl
        | some p => simp only; split <;> simp [ih]

@[simp] theorem Store.unloc_resolve (σ : Store) (ρ : Nat) (k : String) :
    σ.unloc.resolve ρ k = σ.resolve ρ k := Store.unloc_resolveAux σ _ _ _

theorem defsInsert_map_unloc (defs : List (String × Value)) (k : String) (v : Value) :
    (Store.defsInsert defs k v).map (fun p => (p.1, p.2.unloc)) =
      Store.defsInsert (defs.map (fun p => (p.1, p.2.unloc))) k v.unloc := by
  induction defs with
  | nil => rfl
  | cons p ds ih =>
    obtain ⟨a, b⟩ := p
    simp only [Store.defsInsert, List.map_cons]
    split <;> simp [ih]

@[simp] theorem Store.unloc_define (σ : Store) (ρ : Nat) (k : String) (v : Value) :
    (σ.define ρ k v).unloc = σ.unloc.define ρ k v.unloc := by
  unfold Store.define
  by_cases h : ρ < σ.frames.size
  · simp only [h, dite_true, Store.unloc_frames_size]
    simp only [Store.unloc]
    congr 1
    apply Array.ext
    · simp
    · intro i h1 h2
      simp only [Array.getElem_map, Array.getElem_modify]
      split
      · simp [Frame.unloc, defsInsert_map_unloc]
      · rfl
  · simp [h]

@[simp] theorem Store.unloc_set (σ : Store) (ρ : Nat) (k : String) (v : Value) :
    σ.unloc.set ρ k v.unloc = ((σ.set ρ k v).1, (σ.set ρ k v).2.unloc) := by
  unfold Store.set
  rw [Store.unloc_resolve]
  cases σ.resolve ρ k <;> simp

@[simp] theorem Store.unloc_newFrame (σ : Store) (p : Option Nat) :
    σ.unloc.newFrame p = ((σ.newFrame p).1, (σ.newFrame p).2.unloc) := by
  simp [Store.newFrame, Store.unloc, Frame.unloc]

@[simp] theorem Store.unloc_allocVec (σ : Store) (m : Bool) (items : List Value) :
    σ.unloc.allocVec m (items.map Value.unloc) = ((σ.allocVec m items).1, (σ.allocVec m items).2.unloc) := by
  simp [Store.allocVec, Store.unloc, VecCell.unloc]

@[simp] theorem unloc_enter (σ : Store) : (enter σ).unloc = enter σ.unloc := rfl
@[simp] theorem unloc_leave (σ : Store) : (leave σ).unloc = leave σ.unloc := rfl


/-! ## code -/

@[simp] theorem Lambda.unloc_formals (l : Lambda) : l.unloc.formals = l.formals := by cases l; rfl
@[simp] theorem Lambda.unloc_defs (l : Lambda) : l.unloc.defs = Def.unlocList l.defs := by cases l; rfl
@[simp] theorem Lambda.unloc_body (l : Lambda) : l.unloc.body = Expr.unlocList l.body := by cases l; rfl
@[simp] theorem Expr.unloc_loc (e : Expr) : e.unloc.loc = none := by cases e <;> simp [Expr.unloc, Expr.loc]

mutual
theorem Datum.beq_strip : ∀ (a b : Datum), Datum.beq a.strip b.strip = Datum.beq a b
  | .prim _ _, .prim _ _ | .sym _ _, .sym _ _ | .nil _, .nil _ => by simp [Datum.strip, Datum.beq]
  | .pair a d _, .pair a' d' _ => by simp [Datum.strip, Datum.beq, Datum.beq_strip a a', Datum.beq_strip d d']
  | .vec xs _, .vec ys _ => by simp [Datum.strip, Datum.beq, Datum.beqList_strip xs ys]
  | .prim _ _, .sym _ _ | .prim _ _, .pair _ _ _ | .prim _ _, .nil _ | .prim _ _, .vec _ _
  | .sym _ _, .prim _ _ | .sym _ _, .pair _ _ _ | .sym _ _, .nil _ | .sym _ _, .vec _ _
  | .pair _ _ _, .prim _ _ | .pair _ _ _, .sym _ _ | .pair _ _ _, .nil _ | .pair _ _ _, .vec _ _
  | .nil _, .prim _ _ | .nil _, .sym _ _ | .nil _, .pair _ _ _ | .nil _, .vec _ _
  | .vec _ _, .prim _ _ | .vec _ _, .sym _ _ | .vec _ _, .pair _ _ _ | .vec _ _, .nil _ => by
    simp [Datum.strip, Datum.beq]
theorem Datum.beqList_strip : ∀ (xs ys : List Datum),
    Datum.beqList (Datum.stripList xs) (Datum.stripList ys) = Datum.beqList xs ys
  | [], [] | [], _ :: _ | _ :: _, [] => by simp [Datum.stripList, Datum.beqList]
  | x :: xs, y :: ys => by simp [Datum.stripList, Datum.beqList, Datum.beq_strip x y, Datum.beqList_strip xs ys]
end

mutual
theorem Expr.beq_unloc : ∀ (a b : Expr), Expr.beq a.unloc b.unloc = Expr.beq a b
  | .sym _ _, b | .prim _ _, b => by cases b <;> simp [Expr.unloc, Expr.beq]
  | .assign n e l, b => by
    cases b <;> simp [Expr.unloc, Expr.beq]
    rename_i n' e' l'; rw [Expr.beq_unloc e e']
  | .lambda lam l, b => by
    cases b <;> simp [Expr.unloc, Expr.beq]
    rename_i lam' l'; rw [Lambda.beq_unloc lam lam']
  | .call f as l, b => by
    cases b <;> simp [Expr.unloc, Expr.beq]
    rename_i f' as' l'; rw [Expr.beq_unloc f f', Expr.beqList_unloc as as']
  | .cond t c a l, b => by
    cases b <;> simp [Expr.unloc, Expr.beq]
    rename_i t' c' a' l'
    cases a <;> cases a' <;> simp [Expr.unlocOpt, Expr.beq, Expr.beq_unloc t t', Expr.beq_unloc c c']
    rename_i x y; rw [Expr.beq_unloc x y]
  | .quote d l, b | .datum d l, b => by
    cases b <;> simp [Expr.unloc, Expr.beq, Datum.beq_strip]
theorem Expr.beqList_unloc : ∀ (xs ys : List Expr),
    Expr.beqList (Expr.unlocList xs) (Expr.unlocList ys) = Expr.beqList xs ys
  | [], ys => by cases ys <;> simp [Expr.unlocList, Expr.beqList]
  | x :: xs, ys => by
    cases ys <;> simp [Expr.unlocList, Expr.beqList]
    rename_i y ys; rw [Expr.beq_unloc x y, Expr.beqList_unloc xs ys]
theorem Lambda.beq_unloc : ∀ (a b : Lambda), Lambda.beq a.unloc b.unloc = Lambda.beq a b
  | .mk f ds bs, .mk f' ds' bs' => by
    simp [Lambda.unloc, Lambda.beq, Def.beqList_unloc ds ds', Expr.beqList_unloc bs bs']
theorem Def.beq_unloc : ∀ (a b : Def), Def.beq a.unloc b.unloc = Def.beq a b
  | .mk n e l, .mk n' e' l' => by simp [Def.unloc, Def.beq, Expr.beq_unloc e e']
theorem Def.beqList_unloc : ∀ (xs ys : List Def),
    Def.beqList (Def.unlocList xs) (Def.unlocList ys) = Def.beqList xs ys
  | [], ys => by cases ys <;> simp [Def.unlocList, Def.beqList]
  | x :: xs, ys => by
    cases ys <;> simp [Def.unlocList, Def.beqList]
    rename_i y ys; rw [Def.beq_unloc x y, Def.beqList_unloc xs ys]
end


/-! ## values -/

@[simp] theorem Value.unloc_truthy (v : Value) : v.unloc.truthy = v.truthy := by
  cases v <;> rfl

@[simp] theorem procArity_unloc (v : Value) : procArity v.unloc = procArity v := by
  cases v <;> simp [procArity, Value.unloc]

@[simp] theorem Value.unloc_ofList (vs : List Value) : Value.ofList (vs.map Value.unloc) = (Value.ofList vs).unloc := by
  induction vs with
  | nil => rfl
  | cons v vs ih => simp [Value.ofList, ih]

@[simp] theorem Value.unloc_elems : ∀ (v : Value), v.unloc.elems = v.elems.map Value.unloc
  | .pair a d => by simp [Value.elems, Value.unloc_elems d]
  | .nil => rfl
  | .num _ | .bool _ | .char _ | .str _ | .sym _ | .closure _ _ | .builtin _ | .vec _
  | .transformer _ | .void => by simp [Value.elems, Value.unloc]

@[simp] theorem valueEq_unloc (a b : Value) : valueEq a.unloc b.unloc = valueEq a b := by
  cases a <;> cases b <;> simp [valueEq, Value.unloc, Lambda.beq_unloc]

@[simp] theorem eqv_unloc (a b : Value) : eqv a.unloc b.unloc = eqv a b := by
  cases a <;> cases b <;> simp [eqv, Value.unloc, valueEq, Lambda.beq_unloc]

mutual
theorem derivedEq_unloc (σ : Store) : ∀ (n : Nat) (a b : Value),
    derivedEq σ.unloc n a.unloc b.unloc = derivedEq σ n a b
  | 0, _, _ => rfl
  | n + 1, a, b => by
    cases a <;> cases b <;> simp [derivedEq, Value.unloc, valueEq, Lambda.beq_unloc]
    · rename_i i j
      rw [Store.unloc_vecs_get, Store.unloc_vecs_get]
      cases σ.vecs[i]? <;> cases σ.vecs[j]? <;> simp [VecCell.unloc]
      rename_i c1 c2
      rw [derivedEqList_unloc σ n c1.items c2.items]
    · rename_i a1 d1 a2 d2
      rw [derivedEq_unloc σ n a1 a2, derivedEq_unloc σ n d1 d2]
theorem derivedEqList_unloc (σ : Store) : ∀ (n : Nat) (xs ys : List Value),
    derivedEqList σ.unloc n (xs.map Value.unloc) (ys.map Value.unloc) = derivedEqList σ n xs ys
  | 0, _, _ => rfl
  | n + 1, [], [] => rfl
  | n + 1, [], _ :: _ => rfl
  | n + 1, _ :: _, [] => rfl
  | n + 1, x :: xs, y :: ys => by
    simp [derivedEqList, derivedEq_unloc σ n x y, derivedEqList_unloc σ n xs ys]
end

theorem display_unloc_aux (σ : Store) : ∀ (n : Nat) (v : Value),
    display σ.unloc n v.unloc = display σ n v ∧ displayTail σ.unloc n v.unloc = displayTail σ n v := by
  intro n
  induction n with
  | zero => intro v; exact ⟨by unfold display; rfl, by unfold displayTail; rfl⟩
  | succ n ih =>
    intro v
    have e1 : ∀ x, display σ.unloc n (Value.unloc x) = display σ n x := fun x => (ih x).1
    have e2 : ∀ x, displayTail σ.unloc n (Value.unloc x) = displayTail σ n x := fun x => (ih x).2
    have hd : ∀ v : Value, display σ.unloc (n + 1) v.unloc = display σ (n + 1) v := by
      intro v
      rw [display.eq_def, display.eq_def]
      cases v with
      | vec id =>
        simp only [Value.unloc, Store.unloc_vecs_get]
        cases σ.vecs[id]? with
        | none => rfl
        | some c =>
          simp only [Option.map_some, VecCell.unloc, List.map_map]
          congr 3
          apply List.map_congr_left
          intro x _
          exact e1 x
      | pair a d => simp only [Value.unloc, e1, e2]
      | num x => cases x <;> rfl
      | bool b => cases b <;> rfl
      | closure l e => simp only [Value.unloc, Lambda.unloc_formals]
      | _ => rfl
    refine ⟨hd v, ?_⟩
    rw [displayTail.eq_def, displayTail.eq_def]
    cases v with
    | pair a d => simp only [Value.unloc, e1, e2]
    | nil => rfl
    | closure l e => simp only [Value.unloc]; rw [← Value.unloc_closure, e1]
    | _ => simp only [Value.unloc] <;> first | rfl | (rw [← e1]; rfl)

@[simp] theorem display_unloc (σ : Store) (n : Nat) (v : Value) : display σ.unloc n v.unloc = display σ n v :=
  (display_unloc_aux σ n v).1


theorem canon_unloc_aux (σ : Store) : ∀ (n : Nat) (v : Value),
    canon σ.unloc n v.unloc = canon σ n v ∧ canonTail σ.unloc n v.unloc = canonTail σ n v := by
  intro n
  induction n with
  | zero => intro v; exact ⟨by unfold canon; rfl, by unfold canonTail; rfl⟩
  | succ n ih =>
    intro v
    have e1 : ∀ x, canon σ.unloc n (Value.unloc x) = canon σ n x := fun x => (ih x).1
    have e2 : ∀ x, canonTail σ.unloc n (Value.unloc x) = canonTail σ n x := fun x => (ih x).2
    have hd : ∀ v : Value, canon σ.unloc (n + 1) v.unloc = canon σ (n + 1) v := by
      intro v
      rw [canon.eq_def, canon.eq_def]
      cases v with
      | vec id =>
        simp only [Value.unloc, Store.unloc_vecs_get]
        cases σ.vecs[id]? with
        | none => rfl
        | some c =>
          simp only [Option.map_some, VecCell.unloc, List.map_map]
          congr 3
          apply List.map_congr_left
          intro x _
          exact e1 x
      | pair a d => simp only [Value.unloc, e1, e2]
      | bool b => cases b <;> rfl
      | _ => rfl
    refine ⟨hd v, ?_⟩
    rw [canonTail.eq_def, canonTail.eq_def]
    cases v with
    | pair a d => simp only [Value.unloc, e1, e2]
    | nil => rfl
    | closure l e => simp only [Value.unloc]; rw [← Value.unloc_closure, e1]
    | _ => simp only [Value.unloc] <;> first | rfl | (rw [← e1]; rfl)

@[simp] theorem canon_unloc (σ : Store) (n : Nat) (v : Value) : canon σ.unloc n v.unloc = canon σ n v :=
  (canon_unloc_aux σ n v).1

theorem getLast?_map {α β} (f : α → β) (l : List α) : (l.map f).getLast? = l.getLast?.map f := by
  simp

theorem spreadApply_unloc (args : List Value) :
    spreadApply (args.map Value.unloc) =
      match spreadApply args with
      | .ok (f, as) => .ok (f.unloc, as.map Value.unloc)
      | .error e => .error e := by
  unfold spreadApply
  cases args with
  | nil => rfl
  | cons f rest =>
    simp only [List.map_cons, procArity_unloc]
    cases procArity f with
    | none => rfl
    | some a =>
      simp only [List.getLast?_map]
      cases rest.getLast? with
      | none => rfl
      | some last =>
        simp only [Option.map_some]
        cases last <;> simp [Value.unloc, List.map_dropLast]
        · rw [← Value.unloc_pair, Value.unloc_elems]
        · rfl

theorem bindFixed_unloc : ∀ (names : List String) (args : List Value) (σ : Store) (ρ : Nat),
    bindFixed σ.unloc ρ names (args.map Value.unloc) =
      (match (bindFixed σ ρ names args).1 with
        | .ok rest => .ok (rest.map Value.unloc)
        | .error e => .error e, (bindFixed σ ρ names args).2.unloc)
  | [], _, _, _ => by simp [bindFixed]
  | _ :: _, [], _, _ => by simp [bindFixed]
  | f :: fs, a :: as, σ, ρ => by
    simp only [bindFixed, List.map_cons]
    rw [← Store.unloc_define, bindFixed_unloc fs as]


/-! ## results -/

@[simp] theorem Res.unloc_ok {α} (f : α → α) (a : α) (σ : Store) :
    Res.unloc f ((.ok a, σ) : Res α) = (.ok (f a), σ.unloc) := rfl
@[simp] theorem Res.unloc_error {α} (f : α → α) (e : SErr) (σ : Store) :
    Res.unloc f ((.error e, σ) : Res α) = (.error e.unloc, σ.unloc) := rfl
@[simp] theorem SErr.unloc_mk (e : Err) (l : Loc) : SErr.unloc (e, l) = (e, none) := rfl
@[simp] theorem SErr.unloc_unloc (e : SErr) : e.unloc.unloc = e.unloc := rfl

theorem evalPrim_unloc {p : Prim} {v : Value} (h : evalPrim p = .ok v) : v.unloc = v := by
  cases p <;> simp [evalPrim] at h <;> try (subst h; rfl)
  rename_i n d
  cases hq : Num.exactRatio n d <;> simp [hq, Except.map] at h
  subst h; rfl

mutual
theorem readLiteral_unloc : ∀ (d : Datum) (σ : Store),
    readLiteral σ.unloc d.strip = Res.unloc Value.unloc (readLiteral σ d)
  | .prim p l, σ => by
    rw [Datum.strip, readLiteral, readLiteral]
    cases h : evalPrim p with
    | ok v => simp [evalPrim_unloc h]
    | error e => simp
  | .sym s l, σ => by rw [Datum.strip, readLiteral, readLiteral]; rfl
  | .nil l, σ => by rw [Datum.strip, readLiteral, readLiteral]; rfl
  | .pair a d l, σ => by
    rw [Datum.strip, readLiteral, readLiteral, readLiteral_unloc a σ]
    cases h : readLiteral σ a with
    | mk r σ₁ =>
      cases r with
      | error e => rfl
      | ok va =>
        simp only [Res.unloc_ok]
        rw [readLiteral_unloc d σ₁]
        cases h2 : readLiteral σ₁ d with
        | mk r2 σ₂ => cases r2 <;> rfl
  | .vec xs l, σ => by
    rw [Datum.strip, readLiteral, readLiteral, readLiterals_unloc xs σ]
    cases h : readLiterals σ xs with
    | mk r σ₁ =>
      cases r with
      | error e => rfl
      | ok vs => simp [Store.unloc_allocVec]
theorem readLiterals_unloc : ∀ (ds : List Datum) (σ : Store),
    readLiterals σ.unloc (Datum.stripList ds) = Res.unloc (List.map Value.unloc) (readLiterals σ ds)
  | [], σ => by rw [Datum.stripList, readLiterals, readLiterals]; rfl
  | x :: xs, σ => by
    rw [Datum.stripList, readLiterals, readLiterals, readLiteral_unloc x σ]
    cases h : readLiteral σ x with
    | mk r σ₁ =>
      cases r with
      | error e => rfl
      | ok va =>
        simp only [Res.unloc_ok]
        rw [readLiterals_unloc xs σ₁]
        cases h2 : readLiterals σ₁ xs with
        | mk r2 σ₂ => cases r2 <;> rfl
end


/-! ## native procedures -/

@[simp] theorem expectNumber_unloc (v : Value) : expectNumber v.unloc = expectNumber v := by
  cases v <;> rfl

theorem foldlM_expect_unloc {β} (g : β → Num → Except Err β) (args : List Value) : ∀ (init : β),
    (args.map Value.unloc).foldlM (fun a v => do let b ← expectNumber v; g a b) init =
      args.foldlM (fun a v => do let b ← expectNumber v; g a b) init := by
  induction args with
  | nil => intro init; rfl
  | cons v vs ih =>
    intro init
    simp only [List.map_cons, List.foldlM_cons, expectNumber_unloc]
    congr 1
    funext x
    exact ih x

@[simp] theorem foldNum_unloc (f init) (args : List Value) :
    foldNum f init (args.map Value.unloc) = foldNum f init args := foldlM_expect_unloc f args init

@[simp] theorem subDiv_unloc (f unit) (args : List Value) :
    subDiv f unit (args.map Value.unloc) = subDiv f unit args := by
  unfold subDiv
  cases args with
  | nil => rfl
  | cons x rest =>
    simp only [List.map_cons, expectNumber_unloc]
    cases rest with
    | nil => rfl
    | cons y more => simp only [List.map_cons, expectNumber_unloc, foldNum_unloc]

@[simp] theorem exactPrefix_unloc : ∀ (args : List Value),
    exactPrefix (args.map Value.unloc) = exactPrefix args
  | [] => rfl
  | v :: vs => by
    cases v <;> try rfl
    next n =>
      simp only [List.map_cons, Value.unloc_num, exactPrefix]
      rw [exactPrefix_unloc vs]

@[simp] theorem divArgs_unloc (args : List Value) :
    divArgs (args.map Value.unloc) = divArgs args := by
  unfold divArgs
  rw [exactPrefix_unloc, subDiv_unloc]
  cases args with
  | nil => rfl
  | cons x rest => cases rest <;> rfl

theorem cmpNum_go_unloc (op) (vs : List Value) : ∀ last acc,
    cmpNum.go op last acc (vs.map Value.unloc) = cmpNum.go op last acc vs := by
  induction vs with
  | nil => intro last acc; rfl
  | cons v vs ih =>
    intro last acc
    simp only [List.map_cons, cmpNum.go, expectNumber_unloc]
    congr 1
    funext cur
    exact ih cur _

@[simp] theorem cmpNum_unloc (op) (args : List Value) : cmpNum op (args.map Value.unloc) = cmpNum op args := by
  cases args with
  | nil => rfl
  | cons x rest => simp only [List.map_cons, cmpNum, expectNumber_unloc, cmpNum_go_unloc]

theorem cmpBool_go_unloc (vs : List Value) : ∀ last acc,
    cmpBool.go last acc (vs.map Value.unloc) = cmpBool.go last acc vs := by
  induction vs with
  | nil => intro last acc; rfl
  | cons v vs ih =>
    intro last acc
    cases v <;> simp only [List.map_cons, cmpBool.go, Value.unloc]
    exact ih _ _

@[simp] theorem cmpBool_unloc (args : List Value) : cmpBool (args.map Value.unloc) = cmpBool args := by
  cases args with
  | nil => rfl
  | cons x rest => cases x <;> simp only [List.map_cons, cmpBool, Value.unloc, cmpBool_go_unloc]

@[simp] theorem extremum_unloc (step) (args : List Value) : extremum step (args.map Value.unloc) = extremum step args := by
  cases args with
  | nil => rfl
  | cons x rest =>
    simp only [List.map_cons, extremum, expectNumber_unloc]
    congr 1
    funext init
    exact foldlM_expect_unloc (fun a b => pure (step a b)) rest init

theorem lift_unloc {α} (σ : Store) (r : Except Err α) (k : α → Value) (hk : ∀ a, (k a).unloc = k a) :
    lift σ.unloc r k = Res.unloc Value.unloc (lift σ r k) := by
  cases r <;> simp [lift, ok, err, hk]

theorem num1_unloc (σ : Store) (args b f) :
    num1 σ.unloc (args.map Value.unloc) b f = Res.unloc Value.unloc (num1 σ args b f) := by
  unfold num1
  cases args with
  | nil => rfl
  | cons x rest =>
    simp only [List.map_cons, expectNumber_unloc]
    cases expectNumber x with
    | error e => rfl
    | ok n => dsimp only; cases f n <;> rfl

theorem num2_unloc (σ : Store) (args b f) :
    num2 σ.unloc (args.map Value.unloc) b f = Res.unloc Value.unloc (num2 σ args b f) := by
  unfold num2
  cases args with
  | nil => rfl
  | cons x rest =>
    cases rest with
    | nil => rfl
    | cons y more =>
      simp only [List.map_cons, expectNumber_unloc]
      cases expectNumber x with
      | error e => rfl
      | ok n =>
        dsimp only
        cases expectNumber y with
        | error e => rfl
        | ok m => dsimp only; cases f n m <;> rfl


theorem listSet_unloc : ∀ (xs : List Value) (n : Nat) (v : Value),
    listSet (xs.map Value.unloc) n v.unloc = (listSet xs n v).map (List.map Value.unloc)
  | [], _, _ => rfl
  | _ :: _, 0, _ => rfl
  | x :: xs, n + 1, v => by
    simp only [List.map_cons, listSet, listSet_unloc xs n v]
    cases listSet xs n v <;> rfl

theorem applyPure_unloc (σ : Store) (b : Builtin) (args : List Value) :
    applyPure σ.unloc b (args.map Value.unloc) = Res.unloc Value.unloc (applyPure σ b args) := by
  have hn : ∀ a : Num, (Value.num a).unloc = Value.num a := fun _ => rfl
  have hb : ∀ a : Bool, (Value.bool a).unloc = Value.bool a := fun _ => rfl
  cases b
  case display =>
    simp only [applyPure]
    cases args with
    | nil => rfl
    | cons x rest => simp only [List.map_cons, ok, Res.unloc_ok, display_unloc]; rfl
  case tick =>
    simp only [applyPure]
    cases args with
    | nil => rfl
    | cons x rest => simp only [List.map_cons, ok, Res.unloc_ok, canon_unloc]; rfl
  case vector => simp [applyPure, ok]
  case makeVector =>
    simp only [applyPure]
    cases args with
    | nil => rfl
    | cons k rest =>
      cases rest with
      | nil => rfl
      | cons fill more =>
        cases k <;> try rfl
        rename_i n
        cases n <;> try rfl
        rename_i i
        simp only [List.map_cons, Value.unloc]
        split
        · rfl
        · rw [← List.map_replicate, Store.unloc_allocVec]; rfl
  case vectorLength =>
    simp only [applyPure]
    cases args with
    | nil => rfl
    | cons x rest =>
      cases x <;> try rfl
      rename_i id
      simp only [List.map_cons, Value.unloc, Store.unloc_vecs_get]
      cases σ.vecs[id]? <;> simp [VecCell.unloc, ok, err]
  case vectorRef =>
    simp only [applyPure]
    cases args with
    | nil => rfl
    | cons v rest =>
      cases rest with
      | nil => rfl
      | cons k more =>
        cases v <;> try rfl
        rename_i id
        cases k <;> try rfl
        rename_i n
        cases n <;> try rfl
        rename_i i
        simp only [List.map_cons, Value.unloc, Store.unloc_vecs_get]
        cases σ.vecs[id]? with
        | none => rfl
        | some cell =>
          simp only [Option.map_some, VecCell.unloc]
          split
          · rfl
          · rw [List.getElem?_map]
            cases cell.items[i.toNat]? <;> rfl
  case vectorSet =>
    simp only [applyPure]
    cases args with
    | nil => rfl
    | cons v rest =>
      cases rest with
      | nil => rfl
      | cons k more =>
        cases more with
        | nil => rfl
        | cons obj more' =>
          cases v <;> try rfl
          rename_i id
          cases k <;> try rfl
          rename_i n
          cases n <;> try rfl
          rename_i i
          simp only [List.map_cons, Value.unloc, Store.unloc_vecs_get]
          cases hc : σ.vecs[id]? with
          | none => rfl
          | some cell =>
            simp only [Option.map_some, VecCell.unloc]
            split
            · rfl
            · split
              · rfl
              · rw [listSet_unloc]
                cases listSet cell.items i.toNat obj with
                | none => rfl
                | some items =>
                  simp only [Option.map_some, ok, Res.unloc_ok, Value.unloc]
                  congr 1
                  simp only [Store.unloc]
                  congr 1
                  apply Array.ext
                  · simp
                  · intro j h1 h2
                    simp [VecCell.unloc]
  case car =>
    simp only [applyPure]
    cases args with
    | nil => rfl
    | cons x rest => cases x <;> rfl
  case cdr =>
    simp only [applyPure]
    cases args with
    | nil => rfl
    | cons x rest => cases x <;> rfl
  case apply => rfl
  case newline => rfl
  case eqv | eq =>
    simp only [applyPure]
    cases args with
    | nil => rfl
    | cons a rest =>
      cases rest with
      | nil => rfl
      | cons c more => simp only [List.map_cons, eqv_unloc]; rfl
  case cons =>
    simp only [applyPure]
    cases args with
    | nil => rfl
    | cons a rest =>
      cases rest with
      | nil => rfl
      | cons c more => rfl
  case isBoolean | isChar | isNumber | isString | isSymbol | isPair | isProcedure | isVector | not =>
    simp only [applyPure]
    cases args with
    | nil => rfl
    | cons x rest => cases x <;> rfl
  all_goals first
    | (simp only [applyPure, realFn, realFn2, num1_unloc, num2_unloc, foldNum_unloc, subDiv_unloc, divArgs_unloc, cmpNum_unloc,
        cmpBool_unloc, extremum_unloc]; done)
    | (simp only [applyPure, realFn, realFn2, num1_unloc, num2_unloc, foldNum_unloc, subDiv_unloc, divArgs_unloc, cmpNum_unloc,
        cmpBool_unloc, extremum_unloc]
       first
        | rfl
        | exact lift_unloc σ _ _ hn
        | exact lift_unloc σ _ _ hb)


/-! ## the evaluator -/

structure UnlocAt (fuel : Nat) : Prop where
  expr : ∀ σ ρ e, evalExpr fuel σ.unloc ρ e.unloc = Res.unloc Value.unloc (evalExpr fuel σ ρ e)
  args : ∀ σ ρ es, evalArgs fuel σ.unloc ρ (Expr.unlocList es) = Res.unloc (List.map Value.unloc) (evalArgs fuel σ ρ es)
  proc : ∀ σ p args env, applyProcedure fuel σ.unloc p.unloc (args.map Value.unloc) env =
    Res.unloc Value.unloc (applyProcedure fuel σ p args env)
  loop : ∀ σ p args env, applyLoop fuel σ.unloc p.unloc (args.map Value.unloc) env =
    Res.unloc Value.unloc (applyLoop fuel σ p args env)
  scheme : ∀ σ lam cenv args, applyScheme fuel σ.unloc lam.unloc cenv (args.map Value.unloc) =
    Res.unloc TailRes.unloc (applyScheme fuel σ lam cenv args)
  defs : ∀ σ ρ ds, evalDefs fuel σ.unloc ρ (Def.unlocList ds) = Res.unloc id (evalDefs fuel σ ρ ds)
  body : ∀ σ ρ es, evalBody fuel σ.unloc ρ (Expr.unlocList es) = Res.unloc TailRes.unloc (evalBody fuel σ ρ es)
  tail : ∀ σ ρ e, evalTail fuel σ.unloc ρ e.unloc = Res.unloc TailRes.unloc (evalTail fuel σ ρ e)

theorem unlocAt_zero : UnlocAt 0 := by
  constructor <;> intros <;>
    simp only [evalExpr, evalArgs, applyProcedure, applyLoop, applyScheme, evalDefs, evalBody, evalTail] <;> rfl

section succ
variable {fuel : Nat} (ih : UnlocAt fuel)
include ih

theorem unloc_expr (σ ρ e) : evalExpr (fuel + 1) σ.unloc ρ e.unloc = Res.unloc Value.unloc (evalExpr (fuel + 1) σ ρ e) := by
  cases e with
  | sym s l =>
    simp only [Expr.unloc, evalExpr, Store.unloc_lookup]
    cases σ.lookup ρ s <;> rfl
  | prim p l =>
    simp only [Expr.unloc, evalExpr]
    cases h : evalPrim p with
    | ok v => simp [evalPrim_unloc h]
    | error e => rfl
  | assign n e l =>
    simp only [Expr.unloc, evalExpr, ih.expr]
    rcases evalExpr fuel σ ρ e with ⟨_ | v, σ1⟩
    · rfl
    · simp only [Res.unloc_ok, Store.unloc_set]
      rcases σ1.set ρ n v with ⟨_ | _, σ2⟩ <;> rfl
  | lambda lam l => simp only [Expr.unloc, evalExpr]; rfl
  | call f as l =>
    simp only [Expr.unloc, evalExpr, ih.expr]
    rcases evalExpr fuel σ ρ f with ⟨_ | first, σ1⟩
    · rfl
    · simp only [Res.unloc_ok, ih.args, procArity_unloc]
      rcases evalArgs fuel σ1 ρ as with ⟨_ | vs, σ2⟩
      · rename_i er
        cases procArity first with
        | none => obtain ⟨k, l⟩ := er; cases k <;> simp [Res.unloc, SErr.unloc]
        | some a => rfl
      · cases procArity first with
        | none => simp
        | some a => simp [ih.proc]
  | cond t c a l =>
    simp only [Expr.unloc, evalExpr, ih.expr]
    rcases evalExpr fuel σ ρ t with ⟨_ | tv, σ1⟩
    · rfl
    · simp only [Res.unloc_ok, Value.unloc_truthy]
      split
      · exact ih.expr _ _ _
      · cases a with
        | none => rfl
        | some alt => exact ih.expr _ _ _
  | quote d l => simp only [Expr.unloc, evalExpr, readLiteral_unloc]
  | datum d l => simp only [Expr.unloc, evalExpr, readLiteral_unloc]


theorem unloc_args (σ ρ es) : evalArgs (fuel + 1) σ.unloc ρ (Expr.unlocList es) =
    Res.unloc (List.map Value.unloc) (evalArgs (fuel + 1) σ ρ es) := by
  cases es with
  | nil => simp only [Expr.unlocList, evalArgs]; rfl
  | cons a as =>
    simp only [Expr.unlocList, evalArgs, ih.expr]
    rcases evalExpr fuel σ ρ a with ⟨_ | v, σ1⟩
    · rfl
    · simp only [Res.unloc_ok, ih.args]
      rcases evalArgs fuel σ1 ρ as with ⟨_ | vs, σ2⟩ <;> rfl

theorem unloc_proc (σ p args env) : applyProcedure (fuel + 1) σ.unloc p.unloc (args.map Value.unloc) env =
    Res.unloc Value.unloc (applyProcedure (fuel + 1) σ p args env) := by
  simp only [applyProcedure, ← unloc_enter, ih.loop]
  rcases applyLoop fuel (enter σ) p args env with ⟨_ | v, σ1⟩ <;> rfl

theorem unloc_loop (σ p args env) : applyLoop (fuel + 1) σ.unloc p.unloc (args.map Value.unloc) env =
    Res.unloc Value.unloc (applyLoop (fuel + 1) σ p args env) := by
  rw [applyLoop.eq_def, applyLoop.eq_def]
  simp only [procArity_unloc, List.length_map]
  cases hp : procArity p with
  | none => rfl
  | some a =>
    obtain ⟨fixed, variadic⟩ := a
    simp only
    split
    · rfl
    · cases p with
      | builtin b =>
        cases b
        case apply =>
          simp only [Value.unloc, spreadApply_unloc]
          cases spreadApply args with
          | error e => rfl
          | ok r => obtain ⟨f, args'⟩ := r; exact ih.loop _ _ _ _
        all_goals exact applyPure_unloc _ _ _
      | closure lam cenv =>
        simp only [Value.unloc, ih.scheme]
        rcases applyScheme fuel σ lam cenv args with ⟨_ | t, σ1⟩
        · rfl
        · cases t with
          | value v => rfl
          | tailCall f targs tenv =>
            simp only [Res.unloc_ok, TailRes.unloc, ih.expr]
            rcases evalExpr fuel σ1 tenv f with ⟨_ | first, σ2⟩
            · rfl
            · simp only [Res.unloc_ok, ih.args]
              rcases evalArgs fuel σ2 tenv targs with ⟨_ | vs, σ3⟩
              · rfl
              · simp only [Res.unloc_ok, procArity_unloc, Expr.unloc_loc]
                cases procArity first with
                | none => rfl
                | some a => exact ih.loop _ _ _ _
      | _ => simp [procArity] at hp

theorem unloc_scheme (σ lam cenv args) : applyScheme (fuel + 1) σ.unloc lam.unloc cenv (args.map Value.unloc) =
    Res.unloc TailRes.unloc (applyScheme (fuel + 1) σ lam cenv args) := by
  simp only [applyScheme, Store.unloc_newFrame, Lambda.unloc_formals, bindFixed_unloc, Lambda.unloc_defs, Lambda.unloc_body]
  rcases bindFixed (σ.newFrame (some cenv)).2 (σ.newFrame (some cenv)).1 lam.formals.fixed args with ⟨_ | restArgs, σ1⟩
  · rfl
  · simp only
    cases lam.formals.rest with
    | none =>
      simp only [ih.defs]
      rcases evalDefs fuel σ1 _ lam.defs with ⟨_ | u, σ2⟩
      · rfl
      · exact ih.body _ _ _
    | some r =>
      simp only [Value.unloc_ofList, ← Store.unloc_define, ih.defs]
      rcases evalDefs fuel _ _ lam.defs with ⟨_ | u, σ2⟩
      · rfl
      · exact ih.body _ _ _

theorem unloc_defs (σ ρ ds) : evalDefs (fuel + 1) σ.unloc ρ (Def.unlocList ds) =
    Res.unloc id (evalDefs (fuel + 1) σ ρ ds) := by
  rcases ds with _ | ⟨⟨name, e, l⟩, ds⟩
  · simp only [Def.unlocList, evalDefs]; rfl
  · simp only [Def.unlocList, Def.unloc, evalDefs, ih.expr]
    rcases evalExpr fuel σ ρ e with ⟨_ | v, σ1⟩
    · rfl
    · simp only [Res.unloc_ok, ← Store.unloc_define]
      exact ih.defs _ _ _

theorem unloc_tail (σ ρ e) : evalTail (fuel + 1) σ.unloc ρ e.unloc =
    Res.unloc TailRes.unloc (evalTail (fuel + 1) σ ρ e) := by
  cases e with
  | call f as l => simp only [Expr.unloc, evalTail]; rfl
  | cond t c a l =>
    simp only [Expr.unloc, evalTail, ih.expr]
    rcases evalExpr fuel σ ρ t with ⟨_ | tv, σ1⟩
    · rfl
    · simp only [Res.unloc_ok, Value.unloc_truthy]
      split
      · exact ih.tail _ _ _
      · cases a with
        | none => rfl
        | some alt => exact ih.tail _ _ _
  | _ =>
    simp only [Expr.unloc, evalTail]
    first
      | (rw [← Expr.unloc, ih.expr]; rcases evalExpr fuel σ ρ _ with ⟨_ | v, σ1⟩ <;> rfl)
      | skip

theorem unloc_body (σ ρ es) : evalBody (fuel + 1) σ.unloc ρ (Expr.unlocList es) =
    Res.unloc TailRes.unloc (evalBody (fuel + 1) σ ρ es) := by
  rcases es with _ | ⟨e, _ | ⟨e', es⟩⟩
  · simp only [Expr.unlocList, evalBody]; rfl
  · simp only [Expr.unlocList, evalBody]; exact ih.tail _ _ _
  · simp only [Expr.unlocList, evalBody, ih.expr]
    rcases evalExpr fuel σ ρ e with ⟨_ | v, σ1⟩
    · rfl
    · exact ih.body σ1 ρ (e' :: es)

end succ

theorem unlocAt : ∀ fuel, UnlocAt fuel
  | 0 => unlocAt_zero
  | n + 1 =>
    have ih := unlocAt n
    ⟨unloc_expr ih, unloc_args ih, unloc_proc ih, unloc_loop ih, unloc_scheme ih, unloc_defs ih,
      unloc_body ih, unloc_tail ih⟩

theorem evalExpr_unloc (fuel σ ρ e) :
    evalExpr fuel σ.unloc ρ e.unloc = Res.unloc Value.unloc (evalExpr fuel σ ρ e) := (unlocAt fuel).expr σ ρ e

end Ruschm

/-
The interpreter around the evaluator: `Interpreter` in `src/interpreter/interpreter.rs`
(library factories, the instance cache, the in-progress set, `import_end`, `eval_import`,
`eval_import_set`, `get_library`, `eval_library_definition`, `eval_ast`, `eval`) and
`src/library_factory.rs` (`from_char_stream`).
-/
import RuschmModel.Eval
import RuschmModel.Xform
import RuschmGen
namespace Ruschm.Interp
open Prim

/-- what `file_library_factory` can find at a path relative to the program directory -/
inductive FileEntry where
  | text (s : String)
  | unreadable            -- not UTF-8, a directory, …: an io error
  deriving Inhabited

/-- `GenericLibraryFactory` -/
inductive Factory where
  | native (defs : List (String × Value))
  | ast (decls : List LibDecl)
  deriving Inhabited

/-- the state of one `Interpreter` (the store holds every frame and vector it ever made) -/
structure State where
  store : Store := {}
  env : Nat := 0                                         -- the root frame
  syn : Xform.SynEnv := []                               -- own child scope :: bundled forms
  factories : List (LibName × Factory) := []
  instances : List (LibName × List (String × Value)) := []  -- libraries already instantiated
  inProgress : List LibName := []
  importEnd : Bool := false
  files : List (String × FileEntry) := []                -- directory-qualified paths (`fileKey`); "" = the program base
  dir : String := ""                                     -- where libraries are looked up NOW (`program_directory`, else the cwd)
  deriving Inhabited

def assocInsert {α} (l : List (String × α)) (k : String) (v : α) : List (String × α) :=
  match l with
  | [] => [(k, v)]
  | (k', v') :: rest => if k' = k then (k, v) :: rest else (k', v') :: assocInsert rest k v

def libInsert {α} (l : List (LibName × α)) (k : LibName) (v : α) : List (LibName × α) :=
  match l with
  | [] => [(k, v)]
  | (k', v') :: rest => if k' = k then (k, v) :: rest else (k', v') :: libInsert rest k v

def libLookup {α} (l : List (LibName × α)) (k : LibName) : Option α :=
  match l with
  | [] => none
  | (k', v) :: rest => if k' = k then some v else libLookup rest k

/-- `LibraryName::path()` with extension `sld` -/
def libPath (n : LibName) : String := "/".intercalate (n.map LibElem.toString) ++ ".sld"

/-- `base_directory.join(path)`: the key of a file in `State.files`; "" is the directory the keys
are relative to -/
def fileKey (d p : String) : String := if d = "" then p else d ++ "/" ++ p

/-- `Path::parent`: everything before the last `/` ("" if there is none) -/
def dirOfChars (cs : List Char) : List Char := ((cs.reverse.dropWhile (· ≠ '/')).drop 1).reverse
def dirOf (path : String) : String := String.ofList (dirOfChars path.toList)

/-- the bundled derived forms: `create_syntax_binding` runs the parser over `grammar.sld`, which
binds every `define-syntax` in it -/
def grammarScope : List (String × Macro.Rules) :=
  let step := fun (env : Xform.SynEnv) (d : Datum) => (Xform.toStatement (Xform.xformFuel d) d env).2
  match Gen.grammarData.foldl step [[]] with
  | scope :: _ => scope
  | [] => []

/-- `LibraryFactory::from_char_stream`: parse every top-level form (tokens without locations, a
fresh syntax scope over the bundled forms) and return the first `define-library` of that name -/
def factoryOfText (name : LibName) (text : String) : Except SErr Factory :=
  let s := Read.ofText text.toList
  -- `Lexer::without_locations`: the tokens carry no location (lexer errors keep theirs)
  let s := { s with toks := s.toks.map (fun t => { t with loc := none }) }
  let rec go : Nat → Read.PState → Xform.SynEnv → Except SErr Factory
    | 0, _, _ => .error (.fuel, none)
    | fuel + 1, s, env =>
      match Read.nextDatum s with
      | .error e => .error e
      | .ok (none, _) => .error (.libNotFound, none)
      | .ok (some d, s') =>
        let d := d.strip
        match Xform.toStatement (Xform.xformFuel d) d env with
        | (.error e, _) => .error e
        | (.ok (.libraryDef n decls _), env') => if n = name then .ok (.ast decls) else go fuel s' env'
        | (.ok _, env') => go fuel s' env'
  go (s.toks.length + 1) s [[], grammarScope]

def nativeBase : List (String × Value) := Builtin.baseList.map (fun b => (b.name, .builtin b))
def nativeWrite : List (String × Value) := [("display", .builtin .display)]
def nativeHost : List (String × Value) := [("tick", .builtin .tick)]

def libRuschmBase : LibName := [.ident "ruschm", .ident "base"]
def libRuschmWrite : LibName := [.ident "ruschm", .ident "write"]
def libSchemeBase : LibName := [.ident "scheme", .ident "base"]
def libSchemeWrite : LibName := [.ident "scheme", .ident "write"]
def libVerifHost : LibName := [.ident "verif", .ident "host"]

/-- `eval_expression_or_definition` -/
def evalExprOrDef (fuel : Nat) (st : State) (s : Statement) (ρ : Nat) : Except SErr (Option Value) × State :=
  match s with
  | .expr e =>
    match Eval.evalExpr fuel st.store ρ e with
    | (.ok v, σ) => (.ok (some v), { st with store := σ })
    | (.error er, σ) => (.error er, { st with store := σ })
  | .definition (.mk name e _) =>
    match Eval.evalExpr fuel st.store ρ e with
    | (.ok v, σ) => (.ok none, { st with store := σ.define ρ name v })
    | (.error er, σ) => (.error er, { st with store := σ })
  | .syntaxDef name rules _ =>
    (.ok none, { st with store := st.store.define ρ name (.transformer rules) })
  | _ => (.error (.syntax, none), st)

mutual
/-- `eval_import_set` -/
def evalImportSet : Nat → State → ImportSet → Except SErr (List (String × Value)) × State
  | 0, st, _ => (.error (.fuel, none), st)
  | fuel + 1, st, s =>
    match s with
    | .direct name loc =>
      if st.inProgress.contains name then (.error (.cyclic, loc), st) else
      let st := { st with inProgress := name :: st.inProgress }
      let (r, st) := getLibrary fuel st name loc
      -- no longer in progress, whether it loaded or failed
      let st := { st with inProgress := st.inProgress.erase name }
      (r, st)
    | .only sub ids =>
      match evalImportSet fuel st sub with
      | (.ok defs, st) => (.ok (defs.filter (fun p => ids.contains p.1)), st)
      | (.error e, st) => (.error e, st)
    | .except sub ids =>
      match evalImportSet fuel st sub with
      | (.ok defs, st) => (.ok (defs.filter (fun p => !ids.contains p.1)), st)
      | (.error e, st) => (.error e, st)
    | .prefix sub p =>
      match evalImportSet fuel st sub with
      | (.ok defs, st) => (.ok (defs.map (fun q => (p ++ q.1, q.2))), st)
      | (.error e, st) => (.error e, st)
    | .rename sub pairs =>
      match evalImportSet fuel st sub with
      | (.ok defs, st) =>
        -- `HashMap` built from the pairs: a later pair for the same name wins
        let target := fun (n : String) => (pairs.reverse.lookup n).getD n
        (.ok (defs.map (fun q => (target q.1, q.2))), st)
      | (.error e, st) => (.error e, st)

/-- `get_library`: the cached instance, or instantiate through the registered factory, or through
a factory made from the library file -/
def getLibrary : Nat → State → LibName → Loc → Except SErr (List (String × Value)) × State
  | 0, st, _, _ => (.error (.fuel, none), st)
  | fuel + 1, st, name, loc =>
    match libLookup st.instances name with
    | some defs => (.ok defs, st)
    | none =>
      let found : Except SErr Factory × State :=
        match libLookup st.factories name with
        | some f => (.ok f, st)
        | none =>
          match st.files.lookup (fileKey st.dir (libPath name)) with
          | none => (.error (.libNotFound, loc), st)
          | some .unreadable => (.error (.io, none), st)
          | some (.text t) =>
            match factoryOfText name t with
            | .ok f => (.ok f, { st with factories := libInsert st.factories name f })
            | .error e => (.error e, st)
      match found with
      | (.error e, st) => (.error e, st)
      | (.ok f, st) =>
        let (r, st) : Except SErr (List (String × Value)) × State :=
          match f with
          | .native defs => (.ok defs, st)
          | .ast decls => evalLibraryDef fuel st decls
        match r with
        | .ok defs => (.ok defs, { st with instances := libInsert st.instances name defs })
        | .error e => (.error e, st)

/-- `eval_import`: all sets into one map (later entries overwrite earlier ones), then defined in
the target frame -/
def evalImport : Nat → State → List ImportSet → Nat → Except SErr Unit × State
  | 0, st, _, _ => (.error (.fuel, none), st)
  | fuel + 1, st, sets, ρ =>
    match evalImportSets fuel st sets [] with
    | (.error e, st) => (.error e, st)
    | (.ok defs, st) =>
      (.ok (), { st with store := defs.foldl (fun σ p => σ.define ρ p.1 p.2) st.store })

def evalImportSets : Nat → State → List ImportSet → List (String × Value) →
    Except SErr (List (String × Value)) × State
  | 0, st, _, _ => (.error (.fuel, none), st)
  | _ + 1, st, [], acc => (.ok acc, st)
  | fuel + 1, st, s :: rest, acc =>
    match evalImportSet fuel st s with
    | (.error e, st) => (.error e, st)
    | (.ok defs, st) =>
      -- one name with two different bindings is an error (`Value: PartialEq`)
      match defs.foldlM (fun (a : List (String × Value)) p =>
          match a.lookup p.1 with
          | some prev => if Prim.derivedEq st.store 100000 prev p.2 then Except.ok (assocInsert a p.1 p.2)
                         else Except.error ((Err.other, none) : SErr)
          | none => Except.ok (assocInsert a p.1 p.2)) acc with
      | .error e => (.error e, st)
      | .ok acc' => evalImportSets fuel st rest acc'

/-- `eval_library_definition`: a fresh root frame; declarations in order; then the exports -/
def evalLibraryDef : Nat → State → List LibDecl → Except SErr (List (String × Value)) × State
  | 0, st, _ => (.error (.fuel, none), st)
  | fuel + 1, st, decls =>
    let (ρ, σ) := st.store.newFrame none
    let st := { st with store := σ }
    match evalLibDecls fuel st ρ decls [] with
    | (.error e, st) => (.error e, st)
    | (.ok exports, st) =>
      let r := exports.foldlM (fun (acc : List (String × Value)) (ex : ExportSpec) =>
        let (from_, to, loc) := match ex with
          | .direct n l => (n, n, l)
          | .rename a b l => (a, b, l)
        match st.store.lookup ρ from_ with
        | some v => Except.ok (assocInsert acc to v)
        | none => Except.error ((Err.unbound, loc) : SErr)) []
      (r, st)

def evalLibDecls : Nat → State → Nat → List LibDecl → List ExportSpec →
    Except SErr (List ExportSpec) × State
  | 0, st, _, _, _ => (.error (.fuel, none), st)
  | _ + 1, st, _, [], acc => (.ok acc, st)
  | fuel + 1, st, ρ, d :: ds, acc =>
    match d with
    | .importDecl sets =>
      match evalImport fuel st sets ρ with
      | (.error e, st) => (.error e, st)
      | (.ok (), st) => evalLibDecls fuel st ρ ds acc
    | .export specs => evalLibDecls fuel st ρ ds (acc ++ specs)
    | .begin_ body =>
      match evalStatements fuel st ρ body with
      | (.error e, st) => (.error e, st)
      | (.ok (), st) => evalLibDecls fuel st ρ ds acc

def evalStatements : Nat → State → Nat → List Statement → Except SErr Unit × State
  | 0, st, _, _ => (.error (.fuel, none), st)
  | _ + 1, st, _, [] => (.ok (), st)
  | fuel + 1, st, ρ, s :: ss =>
    match evalExprOrDef fuel st s ρ with
    | (.error e, st) => (.error e, st)
    | (.ok _, st) => evalStatements fuel st ρ ss
end

/-- `eval_ast`: imports only before the first other statement; a missing error location is
replaced by the statement's -/
def evalAst (fuel : Nat) (st : State) (s : Statement) : Except SErr (Option Value) × State :=
  let (r, st) : Except SErr (Option Value) × State :=
    if !st.importEnd then
      match s with
      | .importDecl sets _ =>
        match evalImport fuel st sets st.env with
        | (.ok (), st) => (.ok none, st)
        | (.error e, st) => (.error e, st)
      | .libraryDef _ _ loc => (.error (.syntax, loc), st)
      | other => evalExprOrDef fuel { st with importEnd := true } other st.env
    else evalExprOrDef fuel st s st.env
  match r with
  | .ok v => (.ok v, st)
  | .error (e, loc) => (.error (e, loc.orElse (fun _ => s.loc)), st)

/-- `Interpreter::eval`: parse and evaluate form by form, stop at the first error (a parse
error included); the value of the last form -/
def evalText (fuel : Nat) (st : State) (text : List Char) : Except SErr (Option Value) × State :=
  let s := Read.ofText text
  let rec go : Nat → Read.PState → State → Option Value → Except SErr (Option Value) × State
    | 0, _, st, _ => (.error (.fuel, none), st)
    | n + 1, s, st, last =>
      match Read.nextDatum s with
      | .error e => (.error e, st)
      | .ok (none, _) => (.ok last, st)
      | .ok (some d, s') =>
        match Xform.toStatement (Xform.xformFuel d) d st.syn with
        | (.error e, syn) => (.error e, { st with syn := syn })
        | (.ok stmt, syn) =>
          match evalAst fuel { st with syn := syn } stmt with
          | (.error e, st) => (.error e, st)
          | (.ok v, st) => go n s' st v
  go (s.toks.length + 1) s st none

/-- `eval_file`: the directory of the program file becomes the lookup directory (before the file
is read), then the text of the file is evaluated; a file that cannot be read as text is an io
error -/
def evalFile (fuel : Nat) (st : State) (path : String) : Except SErr (Option Value) × State :=
  let st := { st with dir := dirOf path }
  match st.files.lookup path with
  | some (.text t) => evalText fuel st t.toList
  | _ => (.error (.io, none), st)

/-- `Interpreter::default()`: a root frame, an own syntax scope over the bundled forms, the four
standard factories (`(scheme base)`/`(scheme write)` parsed from the bundled text) -/
def default_ (withHost : Bool) : State :=
  let (ρ, σ) := ({} : Store).newFrame none
  let mk := fun (n : LibName) (t : String) => match factoryOfText n t with
    | .ok f => [(n, f)]
    | .error _ => []       -- the Rust `unwrap`s here: covered by the gen-selfcheck
  { store := σ, env := ρ, syn := [[], grammarScope],
    factories := [(libRuschmBase, .native nativeBase), (libRuschmWrite, .native nativeWrite)]
      ++ mk libSchemeBase Gen.baseLibText ++ mk libSchemeWrite Gen.writeLibText
      ++ (if withHost then [(libVerifHost, .native nativeHost)] else []) }

/-- `Interpreter::new_with_stdlib()`: `default()` then `import_stdlib()` (which `unwrap`s) -/
def withStdlib (fuel : Nat) (withHost : Bool) : State :=
  let st := default_ withHost
  (evalImport fuel st [.direct libSchemeBase none, .direct libSchemeWrite none] st.env).2

end Ruschm.Interp

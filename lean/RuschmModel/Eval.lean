/-
The evaluator: `src/interpreter/interpreter.rs` — `eval_expression`, `eval_procedure_call`,
`apply_procedure` (the trampoline loop), `apply_scheme_procedure`, `eval_tail_expression`,
`read_literal`, `eval_primitive`, and `spread_apply_arguments` (the native `apply`, which the
trampoline unpacks).

All functions take fuel (`.error (.fuel, _)` when it runs out — not an outcome of the real code)
and return the store together with the outcome, errors included: effects completed before an
error survive it.
-/
import RuschmModel.Prim
namespace Ruschm.Eval
open Prim

/-- `TailExpressionResult` -/
inductive TailRes where
  | value (v : Value)
  | tailCall (f : Expr) (args : List Expr) (env : Nat)

/-- decimal text of a real literal to binary32: `text.parse::<f64>()` then `as f32`.
The text is `sign? digits* ('.' digits*)? ('e' sign? digits+)?` (the lexer checked it). -/
def realOfText (text : String) : Float32 :=
  let cs := text.toList
  let (neg, cs) := match cs with
    | '-' :: r => (true, r)
    | '+' :: r => (false, r)
    | r => (false, r)
  let ip := cs.takeWhile Lex.isDigit
  let cs := cs.dropWhile Lex.isDigit
  let (fp, cs) := match cs with
    | '.' :: r => (r.takeWhile Lex.isDigit, r.dropWhile Lex.isDigit)
    | r => ([], r)
  let (eneg, ed) := match cs with
    | 'e' :: '-' :: r => (true, r)
    | 'e' :: '+' :: r => (false, r)
    | 'e' :: r => (false, r)
    | _ => (false, [])
  let mant := Lex.digitsVal (ip ++ fp)
  let e10 : Int := (if eneg then -(Lex.digitsVal ed : Int) else Lex.digitsVal ed) - fp.length
  let f : Float := if e10 ≥ 0 then Float.ofScientific mant false e10.toNat
                   else Float.ofScientific mant true (-e10).toNat
  let f := if neg then -f else f
  f.toFloat32

/-- `eval_primitive` -/
def evalPrim (p : Prim) : Except Err Value :=
  match p with
  | .chr c => .ok (.char c)
  | .str s => .ok (.str s)
  | .bool b => .ok (.bool b)
  | .int i => .ok (.num (.int i))
  | .real t => .ok (.num (.real (realOfText t)))
  | .rat n d => (Num.exactRatio n d).map .num

mutual
/-- `read_literal`: a quoted datum or self-evaluating vector becomes a fresh value; every vector
in it a fresh *immutable* cell -/
def readLiteral (σ : Store) : Datum → Res Value
  | .prim p _ =>
    match evalPrim p with
    | .ok v => (.ok v, σ)
    | .error e => (.error (e, none), σ)
  | .sym s _ => (.ok (.sym s), σ)
  | .nil _ => (.ok .nil, σ)
  | .pair a d _ =>
    match readLiteral σ a with
    | (.error e, σ) => (.error e, σ)
    | (.ok va, σ) =>
      match readLiteral σ d with
      | (.error e, σ) => (.error e, σ)
      | (.ok vd, σ) => (.ok (.pair va vd), σ)
  | .vec xs _ =>
    match readLiterals σ xs with
    | (.error e, σ) => (.error e, σ)
    | (.ok vs, σ) =>
      let (v, σ) := σ.allocVec false vs
      (.ok v, σ)
def readLiterals (σ : Store) : List Datum → Res (List Value)
  | [] => (.ok [], σ)
  | x :: xs =>
    match readLiteral σ x with
    | (.error e, σ) => (.error e, σ)
    | (.ok v, σ) =>
      match readLiterals σ xs with
      | (.error e, σ) => (.error e, σ)
      | (.ok vs, σ) => (.ok (v :: vs), σ)
end

/-- the arity test of `apply_procedure`: `args < fixed || (args > fixed && !variadic)` fails -/
def arityOk (fixed : Nat) (variadic : Bool) (n : Nat) : Bool :=
  !(n < fixed || (n > fixed && !variadic))

def procArity (p : Value) : Option (Nat × Bool) :=
  match p with
  | .closure lam _ => some (lam.formals.fixed.length, lam.formals.rest.isSome)
  | .builtin b => some b.arity
  | _ => none

/-- bind the fixed parameters in order (`arg_iter.next().unwrap()` for each) -/
def bindFixed (σ : Store) (ρ : Nat) : List String → List Value → Except Err (List Value) × Store
  | [], args => (.ok args, σ)
  | _ :: _, [] => (.error (.panic "apply_scheme_procedure: arg_iter.next().unwrap()"), σ)
  | f :: fs, a :: as => bindFixed (σ.define ρ f a) ρ fs as

/-- `spread_apply_arguments`: the procedure and the argument list an `apply` call stands for -/
def spreadApply (args : List Value) : Except Err (Value × List Value) :=
  match args with
  | [] => .error (.panic "spread_apply_arguments: unwrap")
  | f :: rest =>
    match procArity f with
    | none => .error .nonProcedure
    | some _ =>
      match rest.getLast? with
      | none => .ok (f, [])
      | some last =>
        match last with
        | .pair _ _ | .nil => .ok (f, rest.dropLast ++ last.elems)
        | _ => .error .type

def enter (σ : Store) : Store :=
  let d := σ.depth + 1
  { σ with depth := d, maxDepth := max σ.maxDepth d }
def leave (σ : Store) : Store := { σ with depth := σ.depth - 1 }

mutual
/-- `eval_expression` -/
def evalExpr : Nat → Store → Nat → Expr → Res Value
  | 0, σ, _, _ => (.error (.fuel, none), σ)
  | fuel + 1, σ, ρ, e =>
    match e with
    | .prim p _ =>
      match evalPrim p with
      | .ok v => (.ok v, σ)
      | .error er => (.error (er, none), σ)
    | .datum d _ => readLiteral σ d
    | .quote d _ => readLiteral σ d
    | .call f args _ =>
      match evalExpr fuel σ ρ f with
      | (.error er, σ) => (.error er, σ)
      | (.ok first, σ) =>
        -- the operands are evaluated whatever `first` is; a non-procedure is reported first
        let (rargs, σ) := evalArgs fuel σ ρ args
        match procArity first with
        | some _ =>
          match rargs with
          | .error er => (.error er, σ)
          | .ok vs => applyProcedure fuel σ first vs ρ
        | none =>
          -- (running out of fuel among the operands is not an outcome of the real code)
          match rargs with
          | .error (.fuel, l) => (.error (.fuel, l), σ)
          | _ => (.error (.nonProcedure, f.loc), σ)
    | .assign name ve loc =>
      match evalExpr fuel σ ρ ve with
      | (.error er, σ) => (.error er, σ)
      | (.ok v, σ) =>
        match σ.set ρ name v with
        | (true, σ) => (.ok .void, σ)
        | (false, σ) => (.error (.unbound, loc), σ)   -- `loc` is the target identifier's location
    | .lambda lam _ => (.ok (.closure lam ρ), σ)
    | .cond t c a _ =>
      match evalExpr fuel σ ρ t with
      | (.error er, σ) => (.error er, σ)
      | (.ok tv, σ) =>
        if tv.truthy then evalExpr fuel σ ρ c
        else match a with
          | some alt => evalExpr fuel σ ρ alt
          | none => (.ok .void, σ)
    | .sym s loc =>
      match σ.lookup ρ s with
      | some v => (.ok v, σ)
      | none => (.error (.unbound, loc), σ)

/-- operands left to right, stopping at the first error -/
def evalArgs : Nat → Store → Nat → List Expr → Res (List Value)
  | 0, σ, _, _ => (.error (.fuel, none), σ)
  | _ + 1, σ, _, [] => (.ok [], σ)
  | fuel + 1, σ, ρ, a :: as =>
    match evalExpr fuel σ ρ a with
    | (.error er, σ) => (.error er, σ)
    | (.ok v, σ) =>
      match evalArgs fuel σ ρ as with
      | (.error er, σ) => (.error er, σ)
      | (.ok vs, σ) => (.ok (v :: vs), σ)

/-- `apply_procedure`: one activation (counted in `depth`) running the trampoline loop -/
def applyProcedure : Nat → Store → Value → List Value → Nat → Res Value
  | 0, σ, _, _, _ => (.error (.fuel, none), σ)
  | fuel + 1, σ, p, args, env =>
    let (r, σ) := applyLoop fuel (enter σ) p args env
    (r, leave σ)

/-- the `loop` of `apply_procedure`: arity check, then a builtin returns, a user procedure either
returns a value or hands back a pending tail call that becomes the next iteration -/
def applyLoop : Nat → Store → Value → List Value → Nat → Res Value
  | 0, σ, _, _, _ => (.error (.fuel, none), σ)
  | fuel + 1, σ, p, args, env =>
    match procArity p with
    | none => (.error (.panic "apply_procedure: not a procedure", none), σ)
    | some (fixed, variadic) =>
      if !arityOk fixed variadic args.length then (.error (.arity, none), σ) else
      match p with
      | .builtin .apply =>
        -- `(apply proc arg … args)`: the loop continues with `proc` and the spread arguments
        match spreadApply args with
        | .error er => (.error (er, none), σ)
        | .ok (f, args') => applyLoop fuel σ f args' env
      | .builtin b => applyPure σ b args
      | .closure lam cenv =>
        match applyScheme fuel σ lam cenv args with
        | (.error er, σ) => (.error er, σ)
        | (.ok (.value v), σ) => (.ok v, σ)
        | (.ok (.tailCall f targs tenv), σ) =>
          -- `eval_procedure_call`: operator, operands, then the procedure test
          match evalExpr fuel σ tenv f with
          | (.error er, σ) => (.error er, σ)
          | (.ok first, σ) =>
            match evalArgs fuel σ tenv targs with
            | (.error er, σ) => (.error er, σ)
            | (.ok vs, σ) =>
              match procArity first with
              | none => (.error (.nonProcedure, f.loc), σ)
              | some _ => applyLoop fuel σ first vs env
      | _ => (.error (.panic "apply_procedure: not a procedure", none), σ)

/-- `apply_scheme_procedure`: fresh frame under the closure's frame, parameters, internal
definitions in order, body; the last body expression is a tail expression -/
def applyScheme : Nat → Store → Lambda → Nat → List Value → Res TailRes
  | 0, σ, _, _, _ => (.error (.fuel, none), σ)
  | fuel + 1, σ, lam, cenv, args =>
    let (ρ, σ) := σ.newFrame (some cenv)
    match bindFixed σ ρ lam.formals.fixed args with
    | (.error er, σ) => (.error (er, none), σ)
    | (.ok restArgs, σ) =>
      let σ := match lam.formals.rest with
        | some r => σ.define ρ r (Value.ofList restArgs)
        | none => σ
      match evalDefs fuel σ ρ lam.defs with
      | (.error er, σ) => (.error er, σ)
      | (.ok (), σ) => evalBody fuel σ ρ lam.body

def evalDefs : Nat → Store → Nat → List Def → Res Unit
  | 0, σ, _, _ => (.error (.fuel, none), σ)
  | _ + 1, σ, _, [] => (.ok (), σ)
  | fuel + 1, σ, ρ, (.mk name e _) :: ds =>
    match evalExpr fuel σ ρ e with
    | (.error er, σ) => (.error er, σ)
    | (.ok v, σ) => evalDefs fuel (σ.define ρ name v) ρ ds

/-- all but the last expression for effect, the last one as a tail expression -/
def evalBody : Nat → Store → Nat → List Expr → Res TailRes
  | 0, σ, _, _ => (.error (.fuel, none), σ)
  | _ + 1, σ, _, [] => (.error (.panic "apply_scheme_procedure: empty body", none), σ)
  | fuel + 1, σ, ρ, [last] => evalTail fuel σ ρ last
  | fuel + 1, σ, ρ, e :: es =>
    match evalExpr fuel σ ρ e with
    | (.error er, σ) => (.error er, σ)
    | (.ok _, σ) => evalBody fuel σ ρ es

/-- `eval_tail_expression`: a call is handed back unevaluated, `if` passes tail position on to
the chosen arm, anything else is evaluated -/
def evalTail : Nat → Store → Nat → Expr → Res TailRes
  | 0, σ, _, _ => (.error (.fuel, none), σ)
  | fuel + 1, σ, ρ, e =>
    match e with
    | .call f args _ => (.ok (.tailCall f args ρ), σ)
    | .cond t c a _ =>
      match evalExpr fuel σ ρ t with
      | (.error er, σ) => (.error er, σ)
      | (.ok tv, σ) =>
        if tv.truthy then evalTail fuel σ ρ c
        else match a with
          | some alt => evalTail fuel σ ρ alt
          | none => (.ok (.value .void), σ)
    | _ =>
      match evalExpr fuel σ ρ e with
      | (.error er, σ) => (.error er, σ)
      | (.ok v, σ) => (.ok (.value v), σ)

end

end Ruschm.Eval

/-
Helper lemmas for properties C09 and C10 (numeric tower).
-/
import RuschmSpec.Num
import Mathlib.Tactic.Ring
import Mathlib.Tactic.Linarith
import Mathlib.Tactic.FieldSimp
import Mathlib.Tactic.Positivity
import Mathlib.Tactic.NormNum
import Mathlib.Data.Rat.Lemmas

namespace Ruschm
namespace Num

/-! ### `fitsI32` -/

theorem fitsI32_iff (x : Int) : fitsI32 x = true ↔ -2147483648 ≤ x ∧ x ≤ 2147483647 := by
  simp [fitsI32]

theorem fitsI32_of_natAbs {x : Int} (h : x.natAbs ≤ 2147483647) : fitsI32 x = true := by
  rw [fitsI32_iff]; omega

/-! ### reduction to lowest terms -/

/-- the divisor used by `exactRatio` -/
def redDiv (n d : Int) : Int := (Int.gcd n d : Int) * d.sign

theorem gcd_pos_of_ne {n d : Int} (hd : d ≠ 0) : 0 < (Int.gcd n d : Int) := by
  have : Int.gcd n d ≠ 0 := by
    intro h; rw [Int.gcd_eq_zero_iff] at h; exact hd h.2
  omega

theorem redDiv_ne_zero {n d : Int} (hd : d ≠ 0) : redDiv n d ≠ 0 := by
  unfold redDiv
  have hg := gcd_pos_of_ne (n := n) hd
  have hs : d.sign ≠ 0 := by
    intro h; exact hd (Int.sign_eq_zero_iff_zero.mp h)
  exact Int.mul_ne_zero (by omega) hs

theorem redDiv_zero (n : Int) : redDiv n 0 = 0 := by simp [redDiv]

theorem tdiv_redDiv_num {n d : Int} (hd : d ≠ 0) : n.tdiv (redDiv n d) = redNum n d := by
  unfold redDiv redNum
  have hgn : (Int.gcd n d : Int) ∣ n := Int.gcd_dvd_left n d
  rcases Int.lt_or_gt_of_ne hd with h | h
  · rw [Int.sign_eq_neg_one_of_neg h]
    rw [Int.mul_neg, Int.mul_one, Int.mul_neg, Int.mul_one, Int.tdiv_neg,
      Int.tdiv_eq_ediv_of_dvd hgn, Int.neg_ediv_of_dvd hgn]
  · rw [Int.sign_eq_one_of_pos h, Int.mul_one, Int.mul_one, Int.tdiv_eq_ediv_of_dvd hgn]

theorem tdiv_redDiv_den {n d : Int} (hd : d ≠ 0) : d.tdiv (redDiv n d) = redDen n d := by
  unfold redDiv redDen
  have hgd : (Int.gcd n d : Int) ∣ d := Int.gcd_dvd_right n d
  rcases Int.lt_or_gt_of_ne hd with h | h
  · rw [Int.sign_eq_neg_one_of_neg h]
    rw [Int.mul_neg, Int.mul_one, Int.tdiv_neg,
      Int.tdiv_eq_ediv_of_dvd hgd, ← Int.neg_ediv_of_dvd hgd]
    congr 1; omega
  · rw [Int.sign_eq_one_of_pos h, Int.mul_one, Int.tdiv_eq_ediv_of_dvd hgd]
    congr 1; omega

theorem redNum_mul {n d : Int} (hd : d ≠ 0) : redNum n d * redDiv n d = n := by
  rw [← tdiv_redDiv_num hd]
  apply Int.tdiv_mul_cancel
  unfold redDiv
  have hgn : (Int.gcd n d : Int) ∣ n := Int.gcd_dvd_left n d
  rcases Int.lt_or_gt_of_ne hd with h | h
  · rw [Int.sign_eq_neg_one_of_neg h, Int.mul_neg, Int.mul_one]; exact Int.neg_dvd.mpr hgn
  · rw [Int.sign_eq_one_of_pos h, Int.mul_one]; exact hgn

theorem redDen_mul {n d : Int} (hd : d ≠ 0) : redDen n d * redDiv n d = d := by
  rw [← tdiv_redDiv_den hd]
  apply Int.tdiv_mul_cancel
  unfold redDiv
  have hgd : (Int.gcd n d : Int) ∣ d := Int.gcd_dvd_right n d
  rcases Int.lt_or_gt_of_ne hd with h | h
  · rw [Int.sign_eq_neg_one_of_neg h, Int.mul_neg, Int.mul_one]; exact Int.neg_dvd.mpr hgd
  · rw [Int.sign_eq_one_of_pos h, Int.mul_one]; exact hgd

theorem redDen_mul_gcd {n d : Int} : redDen n d * (Int.gcd n d : Int) = (d.natAbs : Int) := by
  unfold redDen
  apply Int.ediv_mul_cancel
  have hgd : (Int.gcd n d : Int) ∣ d := Int.gcd_dvd_right n d
  exact Int.dvd_natAbs.mpr hgd

theorem redNum_mul_gcd {n d : Int} : redNum n d * (Int.gcd n d : Int) = n * d.sign := by
  unfold redNum
  apply Int.ediv_mul_cancel
  exact Dvd.dvd.mul_right (Int.gcd_dvd_left n d) _

theorem redDen_pos {n d : Int} (hd : d ≠ 0) : 0 < redDen n d := by
  have hg := gcd_pos_of_ne (n := n) hd
  have h := redDen_mul_gcd (n := n) (d := d)
  have hd' : 0 < (d.natAbs : Int) := by omega
  rw [← h] at hd'
  exact Int.pos_of_mul_pos_left hd' (by omega)

theorem red_coprime {n d : Int} (hd : d ≠ 0) : Int.gcd (redNum n d) (redDen n d) = 1 := by
  have hg := gcd_pos_of_ne (n := n) hd
  have h1 := redNum_mul (n := n) hd
  have h2 := redDen_mul (n := n) hd
  have h := Int.gcd_mul_right (redNum n d) (redDiv n d) (redDen n d)
  rw [h1, h2] at h
  have hna : (redDiv n d).natAbs = Int.gcd n d := by
    unfold redDiv
    rw [Int.natAbs_mul, Int.natAbs_sign_of_ne_zero hd]; simp
  rw [hna] at h
  have hg' : 0 < Int.gcd n d := by omega
  have : Int.gcd n d * 1 = Int.gcd n d * Int.gcd (redNum n d) (redDen n d) := by
    rw [Nat.mul_one, Nat.mul_comm]; exact h
  exact (Nat.eq_of_mul_eq_mul_left hg' this).symm

theorem red_val {n d : Int} (hd : d ≠ 0) :
    (redNum n d : ℚ) / (redDen n d : ℚ) = (n : ℚ) / (d : ℚ) := by
  have hc := redDiv_ne_zero (n := n) hd
  have h1 := redNum_mul (n := n) hd
  have h2 := redDen_mul (n := n) hd
  have hc' : (redDiv n d : ℚ) ≠ 0 := by exact_mod_cast hc
  have e1 : (n : ℚ) = (redNum n d : ℚ) * (redDiv n d : ℚ) := by exact_mod_cast h1.symm
  have e2 : (d : ℚ) = (redDen n d : ℚ) * (redDiv n d : ℚ) := by exact_mod_cast h2.symm
  rw [e1, e2, mul_div_mul_right _ _ hc']

theorem redNum_natAbs_le {n d : Int} (hd : d ≠ 0) : (redNum n d).natAbs ≤ n.natAbs := by
  have hc := redDiv_ne_zero (n := n) hd
  have h1 := redNum_mul (n := n) hd
  have : n.natAbs = (redNum n d).natAbs * (redDiv n d).natAbs := by
    rw [← Int.natAbs_mul, h1]
  rw [this]
  exact Nat.le_mul_of_pos_right _ (by omega)

theorem redDen_natAbs_le {n d : Int} (hd : d ≠ 0) : (redDen n d).natAbs ≤ d.natAbs := by
  have hc := redDiv_ne_zero (n := n) hd
  have h1 := redDen_mul (n := n) hd
  have : d.natAbs = (redDen n d).natAbs * (redDiv n d).natAbs := by
    rw [← Int.natAbs_mul, h1]
  rw [this]
  exact Nat.le_mul_of_pos_right _ (by omega)

/-! ### `exactRatio` -/

/-- The exact number with the given (reduced) numerator and denominator. -/
def mkExact (n d : Int) : Num := if d = 1 then .int n else .rat n d

theorem exactRatio_zero (n : Int) :
    exactRatio n 0 = .error (.panic "exact_ratio: zero denominator") := by
  simp [exactRatio]

theorem exactRatio_eq {n d : Int} (hd : d ≠ 0) :
    exactRatio n d =
      if fitsI32 (redNum n d) && fitsI32 (redDen n d) then .ok (mkExact (redNum n d) (redDen n d))
      else .ok (.real (ratToReal (redNum n d) (redDen n d))) := by
  have hc := redDiv_ne_zero (n := n) hd
  have e : exactRatio n d =
      (if redDiv n d = 0 then .error (.panic "exact_ratio: zero denominator") else
        if fitsI32 (n.tdiv (redDiv n d)) && fitsI32 (d.tdiv (redDiv n d)) then
          if d.tdiv (redDiv n d) = 1 then .ok (.int (n.tdiv (redDiv n d)))
          else .ok (.rat (n.tdiv (redDiv n d)) (d.tdiv (redDiv n d)))
        else .ok (.real (ratToReal (n.tdiv (redDiv n d)) (d.tdiv (redDiv n d))))) := rfl
  rw [e, if_neg hc, tdiv_redDiv_num hd, tdiv_redDiv_den hd]
  unfold mkExact
  split <;> [split <;> rfl; rfl]

theorem exactRatio_ok_ne {n d : Int} {r : Num} (h : exactRatio n d = .ok r) : d ≠ 0 := by
  intro hd; subst hd; rw [exactRatio_zero] at h; cases h

theorem mkExact_isExact (n d : Int) : (mkExact n d).isExact = true := by
  unfold mkExact; split <;> rfl

theorem mkExact_val (n d : Int) : (mkExact n d).val = some ((n : ℚ) / (d : ℚ)) := by
  unfold mkExact; split
  · next h => subst h; simp [val]
  · rfl

theorem mkExact_wf {n d : Int} (hn : fitsI32 n = true) (hd : fitsI32 d = true) (hp : 0 < d)
    (hg : Int.gcd n d = 1) : (mkExact n d).WF := by
  unfold mkExact; split
  · exact hn
  · next h => exact ⟨hn, hd, hp, h, hg⟩

theorem exactRatio_isOk {n d : Int} (hd : d ≠ 0) : IsOk (exactRatio n d) := by
  rw [exactRatio_eq hd]; split <;> exact ⟨_, rfl⟩

/-- Complete case analysis of an `ok` result of `exactRatio`. -/
theorem exactRatio_cases {n d : Int} {r : Num} (h : exactRatio n d = .ok r) :
    d ≠ 0 ∧
    ((fitsI32 (redNum n d) = true ∧ fitsI32 (redDen n d) = true ∧
        r = mkExact (redNum n d) (redDen n d)) ∨
     (¬ (fitsI32 (redNum n d) = true ∧ fitsI32 (redDen n d) = true) ∧
        r = .real (ratToReal (redNum n d) (redDen n d)))) := by
  have hd := exactRatio_ok_ne h
  refine ⟨hd, ?_⟩
  rw [exactRatio_eq hd] at h
  split at h
  · next hf =>
    rw [Bool.and_eq_true] at hf
    left; cases h; exact ⟨hf.1, hf.2, rfl⟩
  · next hf =>
    rw [Bool.and_eq_true] at hf
    right; cases h; exact ⟨hf, rfl⟩

theorem exactRatio_wf' {n d : Int} {r : Num} (h : exactRatio n d = .ok r) : r.WF := by
  obtain ⟨hd, h | h⟩ := exactRatio_cases h
  · obtain ⟨h1, h2, rfl⟩ := h
    exact mkExact_wf h1 h2 (redDen_pos hd) (red_coprime hd)
  · obtain ⟨_, rfl⟩ := h; trivial

theorem exactRatio_sound' {n d : Int} {r : Num} (h : exactRatio n d = .ok r)
    (hr : r.isExact = true) : r.val = some ((n : ℚ) / (d : ℚ)) := by
  obtain ⟨hd, h | h⟩ := exactRatio_cases h
  · obtain ⟨h1, h2, rfl⟩ := h
    rw [mkExact_val, red_val hd]
  · obtain ⟨_, rfl⟩ := h; cases hr

/-- symmetric bounds suffice for an exact result -/
theorem exactRatio_exact_of_natAbs {n d : Int} (hd : d ≠ 0) (hn : n.natAbs ≤ 2147483647)
    (hdb : d.natAbs ≤ 2147483647) :
    ∃ r, exactRatio n d = .ok r ∧ r.isExact = true := by
  have h1 := fitsI32_of_natAbs (Nat.le_trans (redNum_natAbs_le (n := n) hd) hn)
  have h2 := fitsI32_of_natAbs (Nat.le_trans (redDen_natAbs_le (n := n) hd) hdb)
  rw [exactRatio_eq hd, h1, h2]
  exact ⟨_, rfl, mkExact_isExact _ _⟩

/-! ### uniqueness of the reduced representation -/

theorem coprime_div_unique {n1 d1 n2 d2 : Int} (h1 : 0 < d1) (h2 : 0 < d2)
    (g1 : Int.gcd n1 d1 = 1) (g2 : Int.gcd n2 d2 = 1)
    (h : (n1 : ℚ) / (d1 : ℚ) = (n2 : ℚ) / (d2 : ℚ)) : n1 = n2 ∧ d1 = d2 := by
  have c1 : (Int.natAbs n1).Coprime (Int.natAbs d1) := g1
  have c2 : (Int.natAbs n2).Coprime (Int.natAbs d2) := g2
  constructor
  · have a := Rat.num_div_eq_of_coprime h1 c1
    have b := Rat.num_div_eq_of_coprime h2 c2
    rw [← a, ← b, h]
  · have a := Rat.den_div_eq_of_coprime h1 c1
    have b := Rat.den_div_eq_of_coprime h2 c2
    rw [← a, ← b, h]

/-- A `WF` exact number is `mkExact` of a reduced pair. -/
theorem wf_exact_repr {x : Num} (hx : x.WF) (he : x.isExact = true) :
    ∃ n d, x = mkExact n d ∧ fitsI32 n = true ∧ fitsI32 d = true ∧ 0 < d ∧ Int.gcd n d = 1 := by
  cases x with
  | int i => exact ⟨i, 1, by simp [mkExact], hx, by decide, by decide, by simp⟩
  | rat n d =>
    obtain ⟨a, b, c, e, f⟩ := hx
    exact ⟨n, d, by simp [mkExact, e], a, b, c, f⟩
  | real r => cases he

/-- Two `WF` exact numbers with the same value are the same representation. -/
theorem wf_val_inj {x y : Num} (hx : x.WF) (hy : y.WF) {v : ℚ}
    (vx : x.val = some v) (vy : y.val = some v) : x = y := by
  have ex : x.isExact = true := by cases x <;> simp_all [val, isExact]
  have ey : y.isExact = true := by cases y <;> simp_all [val, isExact]
  obtain ⟨n1, d1, rfl, _, _, p1, g1⟩ := wf_exact_repr hx ex
  obtain ⟨n2, d2, rfl, _, _, p2, g2⟩ := wf_exact_repr hy ey
  rw [mkExact_val] at vx vy
  have h : (n1 : ℚ) / (d1 : ℚ) = (n2 : ℚ) / (d2 : ℚ) := by
    rw [Option.some.injEq] at vx vy; rw [vx, vy]
  obtain ⟨rfl, rfl⟩ := coprime_div_unique p1 p2 g1 g2 h
  rfl

/-- `exactRatio` finds the representation whenever one exists: it never falls back to an
inexact result when the true quotient is representable. -/
theorem exactRatio_complete' {n d : Int} (hd : d ≠ 0) {x : Num} (hx : x.WF)
    (vx : x.val = some ((n : ℚ) / (d : ℚ))) : exactRatio n d = .ok x := by
  have ex : x.isExact = true := by cases x <;> simp_all [val, isExact]
  obtain ⟨a, b, rfl, fa, fb, pb, gab⟩ := wf_exact_repr hx ex
  rw [mkExact_val, Option.some.injEq, ← red_val hd] at vx
  obtain ⟨rfl, rfl⟩ := coprime_div_unique pb (redDen_pos hd) gab (red_coprime hd) vx
  rw [exactRatio_eq hd, fa, fb]; rfl

/-! ### the binary operations on exact operands, uniformly through `num`/`den` -/

theorem val_num_den {a : Num} (ha : a.isExact = true) :
    a.val = some ((a.num : ℚ) / (a.den : ℚ)) := by
  cases a with
  | int i => simp [val, num, den]
  | rat n d => rfl
  | real r => cases ha

theorem val_isExact {a : Num} {v : ℚ} (h : a.val = some v) : a.isExact = true := by
  cases a <;> simp_all [val, isExact]

theorem isExact_val {a : Num} (h : a.isExact = true) : ∃ v, a.val = some v := by
  cases a with
  | int i => exact ⟨_, rfl⟩
  | rat n d => exact ⟨_, rfl⟩
  | real r => cases h

theorem posDen_den {a : Num} (h : a.PosDen) : 0 < a.den := by
  cases a with
  | int i => exact Int.one_pos
  | rat n d => exact h
  | real r => exact Int.one_pos

theorem WF.denPos {a : Num} (h : a.WF) : a.DenPos := by
  cases a with
  | int i => exact h
  | rat n d => exact ⟨h.1, h.2.1, h.2.2.1⟩
  | real r => trivial

theorem DenPos.posDen {a : Num} (h : a.DenPos) : a.PosDen := by
  cases a with
  | int i => trivial
  | rat n d => exact h.2.2
  | real r => trivial

theorem WF.posDen {a : Num} (h : a.WF) : a.PosDen := h.denPos.posDen

theorem add_exact {a b : Num} (ha : a.isExact = true) (hb : b.isExact = true) :
    add a b = exactRatio (a.num * b.den + a.den * b.num) (a.den * b.den) := by
  cases a <;> cases b <;> simp_all [isExact, add, upcast, num, den]

theorem sub_exact {a b : Num} (ha : a.isExact = true) (hb : b.isExact = true) :
    sub a b = exactRatio (a.num * b.den - a.den * b.num) (a.den * b.den) := by
  cases a <;> cases b <;> simp_all [isExact, sub, upcast, num, den]

theorem mul_exact {a b : Num} (ha : a.isExact = true) (hb : b.isExact = true) :
    mul a b = exactRatio (a.num * b.num) (a.den * b.den) := by
  cases a <;> cases b <;> simp_all [isExact, mul, upcast, num, den]

theorem div_exact {a b : Num} (ha : a.isExact = true) (hb : b.isExact = true) :
    div a b =
      if b.num = 0 then .error .divZero else
      if a.den = 0 then .error .divZero else
      if b.den = 0 then .error .divZero else
      exactRatio (a.num * b.den) (a.den * b.num) := by
  cases a <;> cases b <;> simp_all [isExact, div, upcast, num, den]
  repeat' split
  all_goals first | rfl | simp_all

theorem abs_exact {a : Num} (ha : a.isExact = true) :
    abs a = exactRatio a.num.natAbs a.den.natAbs := by
  cases a <;> simp_all [isExact, abs, num, den]

/-- dispatch on an inexact operand -/
theorem add_real {a b : Num} (h : a.isExact = false ∨ b.isExact = false) :
    add a b = .ok (.real (a.toReal + b.toReal)) := by
  cases a <;> cases b <;> first | (rcases h with h | h <;> simp [isExact] at h; done) | rfl

theorem sub_real {a b : Num} (h : a.isExact = false ∨ b.isExact = false) :
    sub a b = .ok (.real (a.toReal - b.toReal)) := by
  cases a <;> cases b <;> first | (rcases h with h | h <;> simp [isExact] at h; done) | rfl

theorem mul_real {a b : Num} (h : a.isExact = false ∨ b.isExact = false) :
    mul a b = .ok (.real (a.toReal * b.toReal)) := by
  cases a <;> cases b <;> first | (rcases h with h | h <;> simp [isExact] at h; done) | rfl

theorem div_real {a b : Num} (h : a.isExact = false ∨ b.isExact = false) :
    div a b = .ok (.real (a.toReal / b.toReal)) := by
  cases a <;> cases b <;> first | (rcases h with h | h <;> simp [isExact] at h; done) | rfl

/-! ### soundness: an exact result is the true result -/

theorem den_ne_of_mul_ne {a b : Int} (h : a * b ≠ 0) : (a : ℚ) ≠ 0 ∧ (b : ℚ) ≠ 0 := by
  have := Int.mul_ne_zero_iff.mp h
  exact ⟨by exact_mod_cast this.1, by exact_mod_cast this.2⟩

theorem val_eq_of {a : Num} {x : ℚ} (ha : a.val = some x) : x = (a.num : ℚ) / (a.den : ℚ) := by
  rw [val_num_den (val_isExact ha)] at ha; exact (Option.some.inj ha).symm

theorem add_sound {a b r : Num} {x y : ℚ} (ha : a.val = some x) (hb : b.val = some y)
    (h : add a b = .ok r) (hr : r.isExact = true) : r.val = some (x + y) := by
  rw [add_exact (val_isExact ha) (val_isExact hb)] at h
  obtain ⟨h1, h2⟩ := den_ne_of_mul_ne (exactRatio_ok_ne h)
  rw [exactRatio_sound' h hr, val_eq_of ha, val_eq_of hb]
  congr 1; push_cast; field_simp

theorem sub_sound {a b r : Num} {x y : ℚ} (ha : a.val = some x) (hb : b.val = some y)
    (h : sub a b = .ok r) (hr : r.isExact = true) : r.val = some (x - y) := by
  rw [sub_exact (val_isExact ha) (val_isExact hb)] at h
  obtain ⟨h1, h2⟩ := den_ne_of_mul_ne (exactRatio_ok_ne h)
  rw [exactRatio_sound' h hr, val_eq_of ha, val_eq_of hb]
  congr 1; push_cast; field_simp

theorem mul_sound {a b r : Num} {x y : ℚ} (ha : a.val = some x) (hb : b.val = some y)
    (h : mul a b = .ok r) (hr : r.isExact = true) : r.val = some (x * y) := by
  rw [mul_exact (val_isExact ha) (val_isExact hb)] at h
  obtain ⟨h1, h2⟩ := den_ne_of_mul_ne (exactRatio_ok_ne h)
  rw [exactRatio_sound' h hr, val_eq_of ha, val_eq_of hb]
  congr 1; push_cast; field_simp

/-- what an `ok` exact division tells about the operands -/
theorem div_ok_exact {a b r : Num} (ea : a.isExact = true) (eb : b.isExact = true)
    (h : div a b = .ok r) :
    b.num ≠ 0 ∧ a.den ≠ 0 ∧ b.den ≠ 0 ∧ exactRatio (a.num * b.den) (a.den * b.num) = .ok r := by
  rw [div_exact ea eb] at h
  split at h; · cases h
  split at h; · cases h
  split at h; · cases h
  exact ⟨by assumption, by assumption, by assumption, h⟩

theorem div_sound {a b r : Num} {x y : ℚ} (ha : a.val = some x) (hb : b.val = some y)
    (h : div a b = .ok r) (hr : r.isExact = true) : r.val = some (x / y) := by
  obtain ⟨n0, d1, d2, h⟩ := div_ok_exact (val_isExact ha) (val_isExact hb) h
  have n0' : (b.num : ℚ) ≠ 0 := by exact_mod_cast n0
  have d1' : (a.den : ℚ) ≠ 0 := by exact_mod_cast d1
  have d2' : (b.den : ℚ) ≠ 0 := by exact_mod_cast d2
  rw [exactRatio_sound' h hr, val_eq_of ha, val_eq_of hb]
  congr 1; push_cast; field_simp

theorem abs_sound {a r : Num} {x : ℚ} (ha : a.val = some x)
    (h : abs a = .ok r) (hr : r.isExact = true) : r.val = some |x| := by
  rw [abs_exact (val_isExact ha)] at h
  rw [exactRatio_sound' h hr, val_eq_of ha]
  congr 1
  rw [abs_div]; simp

/-- an exact result can only come from exact operands -/
theorem add_exact_inv {a b r : Num} (h : add a b = .ok r) (hr : r.isExact = true) :
    a.isExact = true ∧ b.isExact = true := by
  by_cases ha : a.isExact = true
  · by_cases hb : b.isExact = true
    · exact ⟨ha, hb⟩
    · rw [add_real (Or.inr (by simpa using hb))] at h; cases h; cases hr
  · rw [add_real (Or.inl (by simpa using ha))] at h; cases h; cases hr

theorem sub_exact_inv {a b r : Num} (h : sub a b = .ok r) (hr : r.isExact = true) :
    a.isExact = true ∧ b.isExact = true := by
  by_cases ha : a.isExact = true
  · by_cases hb : b.isExact = true
    · exact ⟨ha, hb⟩
    · rw [sub_real (Or.inr (by simpa using hb))] at h; cases h; cases hr
  · rw [sub_real (Or.inl (by simpa using ha))] at h; cases h; cases hr

theorem mul_exact_inv {a b r : Num} (h : mul a b = .ok r) (hr : r.isExact = true) :
    a.isExact = true ∧ b.isExact = true := by
  by_cases ha : a.isExact = true
  · by_cases hb : b.isExact = true
    · exact ⟨ha, hb⟩
    · rw [mul_real (Or.inr (by simpa using hb))] at h; cases h; cases hr
  · rw [mul_real (Or.inl (by simpa using ha))] at h; cases h; cases hr

theorem div_exact_inv {a b r : Num} (h : div a b = .ok r) (hr : r.isExact = true) :
    a.isExact = true ∧ b.isExact = true := by
  by_cases ha : a.isExact = true
  · by_cases hb : b.isExact = true
    · exact ⟨ha, hb⟩
    · rw [div_real (Or.inr (by simpa using hb))] at h; cases h; cases hr
  · rw [div_real (Or.inl (by simpa using ha))] at h; cases h; cases hr

/-! ### well-formedness of every result -/

theorem add_wf {a b r : Num} (h : add a b = .ok r) : r.WF := by
  by_cases hr : r.isExact = true
  · obtain ⟨ea, eb⟩ := add_exact_inv h hr
    rw [add_exact ea eb] at h; exact exactRatio_wf' h
  · cases r <;> simp_all [isExact, WF]

theorem sub_wf {a b r : Num} (h : sub a b = .ok r) : r.WF := by
  by_cases hr : r.isExact = true
  · obtain ⟨ea, eb⟩ := sub_exact_inv h hr
    rw [sub_exact ea eb] at h; exact exactRatio_wf' h
  · cases r <;> simp_all [isExact, WF]

theorem mul_wf {a b r : Num} (h : mul a b = .ok r) : r.WF := by
  by_cases hr : r.isExact = true
  · obtain ⟨ea, eb⟩ := mul_exact_inv h hr
    rw [mul_exact ea eb] at h; exact exactRatio_wf' h
  · cases r <;> simp_all [isExact, WF]

theorem div_wf {a b r : Num} (h : div a b = .ok r) : r.WF := by
  by_cases hr : r.isExact = true
  · obtain ⟨ea, eb⟩ := div_exact_inv h hr
    exact exactRatio_wf' (div_ok_exact ea eb h).2.2.2
  · cases r <;> simp_all [isExact, WF]

theorem abs_wf {a r : Num} (h : abs a = .ok r) : r.WF := by
  cases a with
  | int i => exact exactRatio_wf' h
  | rat n d => exact exactRatio_wf' h
  | real f => cases h; trivial

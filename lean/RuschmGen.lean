import RuschmGen.Grammar
import RuschmGen.BaseLib
import RuschmGen.WriteLib
import RuschmGen.Builtins

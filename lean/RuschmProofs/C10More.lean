/-
Property C10, second part — `max`/`min` and comparison chains with MIXED exact and inexact operands.

"... compare an exact with an inexact operand after converting the exact one to binary32, and an n-ary
comparison is the conjunction of its adjacent pairs. max and min return the numerically extreme argument
(inexact if any argument is inexact) ..."

`C10.lean` has `max`/`min` on exact operands (`maxAll_extreme`), the contagion of inexactness
(`max_contagion`) and one mixed comparison (`cmp_mixed`). Here:

1. `max`/`min` with an inexact operand: the operands before the first inexact one are compared exactly
   (the result is the extreme one of them), that one is converted to binary32, and from there on the fold
   is the binary32 fold `Num.realFold Num.fmax` of the converted operands, where `Num.fmax x y` is `x` if the
   binary32 comparison `x > y` HOLDS and `y` otherwise - which is all that is said about NaN: `Float32` is
   opaque, no theorem assumes that there is no NaN;
2. comparison chains with mixed operands: every adjacent pair means `Num.Cmp`: the order of ℚ on two exact
   operands, the binary32 relation of the converted operands otherwise;
3. the native procedures: every argument is type-checked, also after the pair that decides the result; on
   numbers they are `Num.cmpChain`, `Num.maxAll`, `Num.minAll`.

Vocabulary: `RuschmSpec/NumMore.lean`. Helper lemmas: `RuschmProofs/NumMoreLemmas.lean`.
-/
import RuschmProofs.C10
import RuschmProofs.NumMoreLemmas
import RuschmProofs.TypeFaultLemmas

namespace Ruschm.C10More
open Ruschm

/-! ## 1. max / min with an inexact operand -/

/-- The binary32 `max`/`min` the interpreter uses, spelled out: the LEFT operand is returned exactly when
the comparison (`>` for `max`, `<` for `min`) holds, otherwise the RIGHT one. No case is excluded: when
the comparison is false because an operand is a NaN, the right operand is the result (so a NaN accumulator
is dropped, a NaN operand is kept). -/
theorem fmax_fmin_spec (x y : Float32) :
    (x > y → Num.fmax x y = x) ∧ (¬ x > y → Num.fmax x y = y) ∧
    (x < y → Num.fmin x y = x) ∧ (¬ x < y → Num.fmin x y = y) := by
  unfold Num.fmax Num.fmin
  exact ⟨fun h => if_pos h, fun h => if_neg h, fun h => if_pos h, fun h => if_neg h⟩

/-- One step with an inexact operand: both operands are converted to binary32 and the step is the binary32
`fmax` (`fmin`); the result is inexact also when the exact operand is the one kept. -/
theorem maxStep_minStep_inexact {a b : Num} (h : a.isExact = false ∨ b.isExact = false) :
    Num.maxStep a b = .real (Num.fmax a.toReal b.toReal) ∧
    Num.minStep a b = .real (Num.fmin a.toReal b.toReal) :=
  ⟨Num.maxStep_fmax h, Num.minStep_fmin h⟩

example : (Num.int 16777217).isExact = false ∨ (Num.real 0.5).isExact = false := Or.inr rfl

/-- Once the running extreme is inexact, the rest is the pure binary32 fold of the converted operands. -/
theorem max_min_inexact_acc (g : Float32) (ys : List Num) :
    ys.foldl Num.maxStep (.real g) = .real (Num.realFold Num.fmax g ys) ∧
    ys.foldl Num.minStep (.real g) = .real (Num.realFold Num.fmin g ys) :=
  ⟨Num.foldl_real_acc (fun _ _ h => Num.maxStep_fmax h) ys g,
   Num.foldl_real_acc (fun _ _ h => Num.minStep_fmin h) ys g⟩

/-- `max`/`min` with an inexact operand `z` at any position, no hypothesis on the other operands. `z` first:
the binary32 fold from `z`. Otherwise the operands `x :: pre` before `z` are folded as `max` folds them on
their own (`m`), `m` is converted and compared with `z` in binary32, and the operands after `z` follow in the
binary32 fold. The result is always inexact. -/
theorem maxAll_minAll_inexact {z : Num} (hz : z.isExact = false) (post : List Num) :
    Num.maxAll (z :: post) = .ok (.real (Num.realFold Num.fmax z.toReal post)) ∧
    Num.minAll (z :: post) = .ok (.real (Num.realFold Num.fmin z.toReal post)) ∧
    (∀ (x : Num) (pre : List Num), ∃ m, Num.maxAll (x :: pre) = .ok m ∧
      Num.maxAll (x :: (pre ++ z :: post)) =
        .ok (.real (Num.realFold Num.fmax (Num.fmax m.toReal z.toReal) post))) ∧
    (∀ (x : Num) (pre : List Num), ∃ m, Num.minAll (x :: pre) = .ok m ∧
      Num.minAll (x :: (pre ++ z :: post)) =
        .ok (.real (Num.realFold Num.fmin (Num.fmin m.toReal z.toReal) post))) := by
  refine ⟨?_, ?_, fun x pre => ⟨_, rfl, ?_⟩, fun x pre => ⟨_, rfl, ?_⟩⟩
  · cases z with
    | real g => exact congrArg Except.ok (max_min_inexact_acc g post).1
    | int i => cases hz
    | rat n d => cases hz
  · cases z with
    | real g => exact congrArg Except.ok (max_min_inexact_acc g post).2
    | int i => cases hz
    | rat n d => cases hz
  · exact congrArg Except.ok (Num.foldl_split (fun _ _ h => Num.maxStep_fmax h) pre post x hz)
  · exact congrArg Except.ok (Num.foldl_split (fun _ _ h => Num.minStep_fmin h) pre post x hz)

example : (Num.real 2.5).isExact = false ∧
    ∀ f, Num.maxAll [.int 1, .real f, .int 3] =
      .ok (.real (Num.fmax (Num.fmax (Float32.ofInt 1) f) (Float32.ofInt 3))) :=
  ⟨rfl, fun f => by
    obtain ⟨m, hm, h⟩ := (maxAll_minAll_inexact (z := .real f) rfl [.int 3]).2.2.1 (.int 1) []
    cases hm; exact h⟩

/-- The usual case spelled out: `z` is the FIRST inexact operand and the exact operands before it have
positive denominators. Then the exact part is settled in ℚ: `m` is (literally) one of those operands and its
value is ≥ (for `min`: ≤) the value of each of them; `m` is then converted, and the result is the binary32
fold from `fmax m z`. The exact operands AFTER `z` are converted one by one (never compared exactly). -/
theorem maxAll_minAll_first_inexact {x z : Num} {pre : List Num} (post : List Num)
    (hz : z.isExact = false) (hpre : ∀ y ∈ x :: pre, y.isExact = true ∧ y.PosDen) :
    (∃ m ∈ x :: pre, (∀ y ∈ x :: pre, y.valD ≤ m.valD) ∧
      Num.maxAll (x :: (pre ++ z :: post)) =
        .ok (.real (Num.realFold Num.fmax (Num.fmax m.toReal z.toReal) post))) ∧
    (∃ m ∈ x :: pre, (∀ y ∈ x :: pre, m.valD ≤ y.valD) ∧
      Num.minAll (x :: (pre ++ z :: post)) =
        .ok (.real (Num.realFold Num.fmin (Num.fmin m.toReal z.toReal) post))) := by
  obtain ⟨mem, dom⟩ := Num.foldl_maxStep_spec pre x hpre
  obtain ⟨mem', dom'⟩ := Num.foldl_minStep_spec pre x hpre
  exact ⟨⟨_, mem, dom,
      congrArg Except.ok (Num.foldl_split (fun _ _ h => Num.maxStep_fmax h) pre post x hz)⟩,
    ⟨_, mem', dom',
      congrArg Except.ok (Num.foldl_split (fun _ _ h => Num.minStep_fmin h) pre post x hz)⟩⟩

example : (Num.real 2.5).isExact = false ∧
    ∀ y ∈ [Num.int 1, .rat 7 2], y.isExact = true ∧ y.PosDen := ⟨rfl, by decide⟩

/-- Hence: with some inexact operand (and at least one operand) `max` and `min` return an inexact number
(the converse, an inexact result only then, is `C10.max_contagion`). -/
theorem max_min_inexact_result {xs : List Num} (hx : ∃ y ∈ xs, y.isExact = false) :
    (∃ g, Num.maxAll xs = .ok (.real g)) ∧ (∃ g, Num.minAll xs = .ok (.real g)) := by
  obtain ⟨pre, z, post, rfl, hz⟩ := Num.exists_split_of_inexact hx
  obtain ⟨h1, h2, h3, h4⟩ := maxAll_minAll_inexact hz post
  cases pre with
  | nil => exact ⟨⟨_, h1⟩, ⟨_, h2⟩⟩
  | cons x pre =>
    obtain ⟨_, _, e3⟩ := h3 x pre
    obtain ⟨_, _, e4⟩ := h4 x pre
    exact ⟨⟨_, e3⟩, ⟨_, e4⟩⟩

example : ∃ y ∈ [Num.int 3, .real 0.5, .rat 1 2], y.isExact = false := ⟨.real 0.5, by simp, rfl⟩

/-! ## 2. comparison chains with mixed operands -/

/-- ONE comparison, any mixture of operands with positive denominators: two exact operands are compared by
their values in ℚ; as soon as one operand is inexact the other one is converted to binary32
(`Float32.ofInt i`, `ofInt n / ofInt d`) and the binary32 relation decides (`Num.Cmp`). -/
theorem cmp_pair {a b : Num} (pa : a.PosDen) (pb : b.PosDen) :
    (Num.lt a b = true ↔ Num.Cmp (· < ·) (· < ·) a b) ∧
    (Num.gt a b = true ↔ Num.Cmp (· > ·) (· > ·) a b) ∧
    (Num.le a b = true ↔ Num.Cmp (· ≤ ·) (· ≤ ·) a b) ∧
    (Num.ge a b = true ↔ Num.Cmp (· ≥ ·) (· ≥ ·) a b) ∧
    (Num.eq a b = true ↔ Num.Cmp (· = ·) (fun x y => (x == y) = true) a b) :=
  ⟨Num.cmp_of Num.lt_iff Num.lt_real pa pb, Num.cmp_of Num.gt_iff Num.gt_real pa pb,
   Num.cmp_of Num.le_iff Num.le_real pa pb, Num.cmp_of Num.ge_iff Num.ge_real pa pb,
   Num.cmp_of Num.eq_iff (fun h => by rw [Num.eq_real h, Bool.decide_eq_true]) pa pb⟩

example : (Num.rat 1 2).PosDen ∧ (Num.real 0.5).PosDen := ⟨by decide, trivial⟩

/-- What `Num.Cmp` says in the two cases. -/
theorem Cmp_cases (R : Rat → Rat → Prop) (F : Float32 → Float32 → Prop) (a b : Num) :
    (∀ x y, a.val = some x → b.val = some y → (Num.Cmp R F a b ↔ R x y)) ∧
    (a.isExact = false ∨ b.isExact = false → (Num.Cmp R F a b ↔ F a.toReal b.toReal)) := by
  constructor
  · intro x y hx hy; unfold Num.Cmp; rw [hx, hy]
  · intro h
    have : Num.Cmp R F a b = F a.toReal b.toReal := by
      cases a <;> cases b <;> first | rfl | (rcases h with h | h <;> cases h)
    rw [this]

example : (Num.rat 1 2).val = some (1 / 2) ∧
    ((Num.rat 1 2).isExact = false ∨ (Num.real 0.5).isExact = false) :=
  ⟨by norm_num [Num.val], Or.inr rfl⟩

/-- AN N-ARY COMPARISON WITH MIXED OPERANDS (positive denominators): it holds iff EVERY adjacent pair is
related in the sense of `Num.Cmp` - each pair on its own terms: an exact pair in ℚ, a pair with an inexact
member in binary32 after conversion of the other. (Consequently a chain is not a statement about one common
order: `(= 16777217 16777216. 16777216)` compares `16777217` with `16777216.` in binary32 and `16777216.`
with `16777216` in binary32.) -/
theorem cmpChain_mixed {xs : List Num} (hxs : ∀ x ∈ xs, x.PosDen) :
    (Num.cmpChain Num.lt xs = true ↔ ∀ (i : Nat) (h : i + 1 < xs.length),
      Num.Cmp (· < ·) (· < ·) (xs[i]'(by omega)) (xs[i + 1]'h)) ∧
    (Num.cmpChain Num.gt xs = true ↔ ∀ (i : Nat) (h : i + 1 < xs.length),
      Num.Cmp (· > ·) (· > ·) (xs[i]'(by omega)) (xs[i + 1]'h)) ∧
    (Num.cmpChain Num.le xs = true ↔ ∀ (i : Nat) (h : i + 1 < xs.length),
      Num.Cmp (· ≤ ·) (· ≤ ·) (xs[i]'(by omega)) (xs[i + 1]'h)) ∧
    (Num.cmpChain Num.ge xs = true ↔ ∀ (i : Nat) (h : i + 1 < xs.length),
      Num.Cmp (· ≥ ·) (· ≥ ·) (xs[i]'(by omega)) (xs[i + 1]'h)) ∧
    (Num.cmpChain Num.eq xs = true ↔ ∀ (i : Nat) (h : i + 1 < xs.length),
      Num.Cmp (· = ·) (fun x y => (x == y) = true) (xs[i]'(by omega)) (xs[i + 1]'h)) :=
  ⟨Num.cmpChain_cmp (fun _ _ pa pb => (cmp_pair pa pb).1) xs hxs,
   Num.cmpChain_cmp (fun _ _ pa pb => (cmp_pair pa pb).2.1) xs hxs,
   Num.cmpChain_cmp (fun _ _ pa pb => (cmp_pair pa pb).2.2.1) xs hxs,
   Num.cmpChain_cmp (fun _ _ pa pb => (cmp_pair pa pb).2.2.2.1) xs hxs,
   Num.cmpChain_cmp (fun _ _ pa pb => (cmp_pair pa pb).2.2.2.2) xs hxs⟩

example : ∀ x ∈ [Num.int 1, .real 1.5, .rat 7 2], x.PosDen := by simp [Num.PosDen]

/-- The same without any hypothesis, in terms of the model's own predicates: in a chain, every pair with an
inexact member is decided by the binary32 comparison of the converted operands (`C10.cmp_mixed` lifted to
chains; the pairs of two exact operands are decided by `Num.lt` etc. on exact operands, `C10.lt_iff`). -/
theorem cmpChain_mixed_pairs (xs : List Num) :
    (Num.cmpChain Num.lt xs = true ↔ ∀ (i : Nat) (h : i + 1 < xs.length),
      if (xs[i]'(by omega)).isExact = true ∧ (xs[i + 1]'h).isExact = true
      then Num.lt (xs[i]'(by omega)) (xs[i + 1]'h) = true
      else (xs[i]'(by omega)).toReal < (xs[i + 1]'h).toReal) ∧
    (Num.cmpChain Num.eq xs = true ↔ ∀ (i : Nat) (h : i + 1 < xs.length),
      if (xs[i]'(by omega)).isExact = true ∧ (xs[i + 1]'h).isExact = true
      then Num.eq (xs[i]'(by omega)) (xs[i + 1]'h) = true
      else ((xs[i]'(by omega)).toReal == (xs[i + 1]'h).toReal) = true) := by
  have key : ∀ (op : Num → Num → Bool) (F : Float32 → Float32 → Prop),
      (∀ a b, a.isExact = false ∨ b.isExact = false → (op a b = true ↔ F a.toReal b.toReal)) →
      ∀ a b, op a b = true ↔
        if a.isExact = true ∧ b.isExact = true then op a b = true else F a.toReal b.toReal := by
    intro op F hF a b
    by_cases he : a.isExact = true ∧ b.isExact = true
    · rw [if_pos he]
    · rw [if_neg he]
      apply hF
      rcases Bool.eq_false_or_eq_true a.isExact with h1 | h1
      · rcases Bool.eq_false_or_eq_true b.isExact with h2 | h2
        · exact absurd ⟨h1, h2⟩ he
        · exact Or.inr h2
      · exact Or.inl h1
  constructor
  · rw [(C10.cmpChain_iff Num.lt xs).2]
    exact forall_congr' fun i => forall_congr' fun h =>
      key Num.lt (· < ·) (fun a b h => by rw [Num.lt_real h]; exact decide_eq_true_iff) _ _
  · rw [(C10.cmpChain_iff Num.eq xs).2]
    exact forall_congr' fun i => forall_congr' fun h =>
      key Num.eq (fun x y => (x == y) = true) (fun a b h => by rw [Num.eq_real h]) _ _

/-! ## 3. the native procedures -/

/-- THE COMPARISON PROCEDURES TYPE-CHECK EVERY ARGUMENT. On arguments that are all numbers `= < > <= >=`
return the chain of section 2 (true for no and for one argument); if SOME argument is not a number the result
is a type error - wherever it stands, also after a pair that already made the chain false:
`(< 2 1 'a)` is an error, not `#f`. The store is unchanged. -/
theorem compare_builtins (σ : Store) :
    (∀ ns : List Num,
      Prim.applyPure σ .numEq (ns.map Value.num) = Prim.ok (.bool (Num.cmpChain Num.eq ns)) σ ∧
      Prim.applyPure σ .lt (ns.map Value.num) = Prim.ok (.bool (Num.cmpChain Num.lt ns)) σ ∧
      Prim.applyPure σ .le (ns.map Value.num) = Prim.ok (.bool (Num.cmpChain Num.le ns)) σ ∧
      Prim.applyPure σ .gt (ns.map Value.num) = Prim.ok (.bool (Num.cmpChain Num.gt ns)) σ ∧
      Prim.applyPure σ .ge (ns.map Value.num) = Prim.ok (.bool (Num.cmpChain Num.ge ns)) σ) ∧
    (∀ args : List Value, (∃ x ∈ args, ¬ Prim.IsNum x) →
      ∀ b ∈ [Builtin.numEq, .lt, .le, .gt, .ge], Prim.applyPure σ b args = Prim.err .type σ) := by
  constructor
  · intro ns
    simp only [Prim.applyPure, Prim.cmpNum_nums]
    exact ⟨rfl, rfl, rfl, rfl, rfl⟩
  · intro args hx b hb
    obtain ⟨pre, x, post, rfl, hnx⟩ := Prim.split_first_nonnum args hx
    simp only [List.mem_cons, List.mem_nil_iff, or_false] at hb
    rcases hb with rfl | rfl | rfl | rfl | rfl
    all_goals (simp only [Prim.applyPure, Prim.cmpNum_type hnx]; rfl)

example : ∃ x ∈ [Value.num (.int 2), .num (.int 1), .sym "a"], ¬ Prim.IsNum x :=
  ⟨.sym "a", by simp, fun h => h⟩

/-- `max` and `min` as native procedures: on numbers (at least one, as the arity check guarantees) they are
`Num.maxAll`/`Num.minAll`, so sections 1 above and 4 of `C10` speak about them; a non-number anywhere is a
type error. -/
theorem max_min_builtins (σ : Store) :
    (∀ ns : List Num, ns ≠ [] →
      Prim.applyPure σ .max (ns.map Value.num) = Prim.lift σ (Num.maxAll ns) .num ∧
      Prim.applyPure σ .min (ns.map Value.num) = Prim.lift σ (Num.minAll ns) .num) ∧
    (∀ args : List Value, (∃ x ∈ args, ¬ Prim.IsNum x) →
      Prim.applyPure σ .max args = Prim.err .type σ ∧ Prim.applyPure σ .min args = Prim.err .type σ) := by
  constructor
  · intro ns hne
    match ns, hne with
    | x :: ys, _ =>
      simp only [Prim.applyPure, Prim.extremum_nums]
      exact ⟨rfl, rfl⟩
  · intro args hx
    obtain ⟨pre, x, post, rfl, hnx⟩ := Prim.split_first_nonnum args hx
    simp only [Prim.applyPure, Prim.extremum_nonnum hnx]
    exact ⟨rfl, rfl⟩

example : ([Num.int 1, .real 2.5, .int 3] : List Num) ≠ [] := by simp

end Ruschm.C10More

/-
Property C10, last clause — "eqv? on two numbers is true exactly when they have the same exactness
and are numerically equal": the complete case table of the model's numeric `eqv?`
(`Num.exactEqv`, `values.rs` `exact_eqv`), what the builtins `eqv?`/`eq?` add to it (nothing), and
that `memv` (hence `case`) compares numbers with that same function.

Complements `RuschmProofs/C10.lean` (`eqv_iff`, `eqv_exact_iff`, `eqv_mixed_false`, `eqv_needs_wf`).
`Float32` is opaque to the kernel: what `a == b` answers on two reals is the host's IEEE binary32
equality, so the IEEE consequences (0.0 eqv -0.0; NaN eqv to nothing) carry that test as hypothesis.
-/
import RuschmProofs.C10
import RuschmProofs.C11

namespace Ruschm.C10Eqv
open Ruschm Ruschm.Eval Ruschm.ListSpec Ruschm.ListLib

/-! ## 1. real × real: the binary32 equality test and nothing else -/

/-- On two inexact numbers `eqv?` is exactly Float32's `==` (IEEE `f32::eq`): the interpreter tests
neither the sign bit nor the bit pattern. -/
theorem eqv_real_real (a b : Float32) : Num.exactEqv (.real a) (.real b) = (a == b) := rfl

/-- Consequence: any two reals that are binary32-equal are `eqv?` — by IEEE that includes `0.0` and
`-0.0` (R7RS says `(eqv? 0.0 -0.0)` is `#f`; this interpreter says `#t`). -/
theorem eqv_real_of_beq {a b : Float32} (h : (a == b) = true) :
    Num.exactEqv (.real a) (.real b) = true := h

/-- Consequence: a real that is not binary32-equal to `b` is not `eqv?` to it — by IEEE a NaN is
`eqv?` to nothing, itself included (R7RS would answer `#t` for `(eqv? +nan.0 +nan.0)` bitwise). -/
theorem eqv_real_of_not_beq {a b : Float32} (h : (a == b) = false) :
    Num.exactEqv (.real a) (.real b) = false := h

-- The hypotheses `(0.0 == -0.0) = true`, `(nan == nan) = false` are IEEE facts about the host's
-- binary32; `Float32` is opaque, so the kernel cannot discharge them (`#eval` confirms both). Use:
example (σ : Store) {a b : Float32} (h : (a == b) = true) :
    Prim.applyPure σ .eqv [.num (.real a), .num (.real b)] = (.ok (.bool true), σ) := by
  show (Except.ok (Value.bool (Num.exactEqv (.real a) (.real b))), σ) = _
  rw [eqv_real_of_beq h]

/-! ## 2. exact × real, in both orders: never -/

/-- An exact number (integer or ratio) is never `eqv?` to a real, whatever their values:
`(eqv? 2 2.0)` is `#f`. -/
theorem eqv_exact_real (r : Float32) (i n d : Int) :
    Num.exactEqv (.int i) (.real r) = false ∧ Num.exactEqv (.rat n d) (.real r) = false :=
  ⟨C10.eqv_mixed_false (by simp [Num.isExact]), C10.eqv_mixed_false (by simp [Num.isExact])⟩

/-- …and a real is never `eqv?` to an exact number. -/
theorem eqv_real_exact (r : Float32) (i n d : Int) :
    Num.exactEqv (.real r) (.int i) = false ∧ Num.exactEqv (.real r) (.rat n d) = false :=
  ⟨C10.eqv_mixed_false (by simp [Num.isExact]), C10.eqv_mixed_false (by simp [Num.isExact])⟩

/-- The exact rows of the table, for completeness: integers by equality, ratios by
cross-multiplication, an integer and a ratio never (a well-formed ratio has denominator ≠ 1). -/
theorem eqv_exact_table (i j n d n' d' : Int) :
    Num.exactEqv (.int i) (.int j) = (i == j) ∧
    Num.exactEqv (.rat n d) (.rat n' d') = (n * d' == d * n') ∧
    Num.exactEqv (.int i) (.rat n d) = false ∧ Num.exactEqv (.rat n d) (.int i) = false :=
  ⟨rfl, rfl, rfl, rfl⟩

/-! ## 3. the builtins add nothing -/

/-- `(eqv? a b)` and `(eq? a b)` on two numbers (extra arguments ignored) return the boolean
`Num.exactEqv a b` and leave the store as it was. -/
theorem eqv_builtin_table (σ : Store) (a b : Num) (rest : List Value) :
    Prim.applyPure σ .eqv (.num a :: .num b :: rest) = (.ok (.bool (Num.exactEqv a b)), σ) ∧
    Prim.applyPure σ .eq (.num a :: .num b :: rest) = (.ok (.bool (Num.exactEqv a b)), σ) :=
  ⟨rfl, rfl⟩

/-- With fewer than two arguments the builtin does not answer: it is the `unwrap` panic of
`base.rs`, not a boolean. -/
theorem eqv_builtin_missing (σ : Store) (a : Value) :
    Prim.applyPure σ .eqv [a] = Prim.missing .eqv σ ∧ Prim.applyPure σ .eqv [] = Prim.missing .eqv σ :=
  ⟨rfl, rfl⟩

-- (eqv? 2 2) ⇒ #t, (eqv? 2 2.0) ⇒ #f, (eqv? 1/2 1/2) ⇒ #t, (eqv? 1/2 2) ⇒ #f
example (σ : Store) : Prim.applyPure σ .eqv [.num (.int 2), .num (.int 2)] = (.ok (.bool true), σ) := rfl
example (σ : Store) : Prim.applyPure σ .eqv [.num (.int 2), .num (.real 2.0)] = (.ok (.bool false), σ) := rfl
example (σ : Store) : Prim.applyPure σ .eq [.num (.rat 1 2), .num (.rat 1 2)] = (.ok (.bool true), σ) := rfl
example (σ : Store) : Prim.applyPure σ .eqv [.num (.rat 1 2), .num (.int 2)] = (.ok (.bool false), σ) := rfl

/-! ## 4. memv on a list of numbers compares with that same function -/

/-- the tail `memv` returns: the first sublist whose head is `exactEqv` to `a`, or `#f` -/
def memvNums (a : Num) (ns : List Num) : Value :=
  match ns.dropWhile (fun n => !Num.exactEqv a n) with
  | [] => .bool false
  | l => Value.ofList (l.map Value.num)

private theorem memS_nums (a : Num) (ns : List Num) :
    memS (.num a) (Value.ofList (ns.map Value.num)) = .ok (memvNums a ns) := by
  induction ns with
  | nil => rfl
  | cons n ns ih =>
    simp only [List.map_cons, Value.ofList, memS, Prim.eqv, memvNums, List.dropWhile_cons]
    by_cases h : Num.exactEqv a n = true
    · simp [h, Value.ofList]
    · have h : Num.exactEqv a n = false := by simpa using h
      simpa [h, memvNums] using ih

/-- `(memv a '(n₁ … nₖ))` in any instance of `(scheme base)`, on a list of numbers: the answer is
the sublist from the first `nᵢ` with `Num.exactEqv a nᵢ`, else `#f` — the library's membership test
(and so `case`) uses numeric `eqv?`, not `=`: the key `2.0` does not match the datum `2`. -/
theorem memv_uses_eqv_on_numbers {σ : Store} {b : Nat} (h : LibFrame σ b) (a : Num)
    (ns : List Num) (env : Nat) :
    ∃ σ', Applies σ (libProc "memv" b) [.num a, Value.ofList (ns.map Value.num)] env
      (.ok (memvNums a ns)) σ' ∧ σ.Ext σ' := by
  have := C11.memv_spec h (.num a) (Value.ofList (ns.map Value.num)) env
  rwa [memS_nums] at this

example : memvNums (.real 2.0) [.int 1, .int 2, .int 3] = .bool false := rfl
example : memvNums (.int 2) [.int 1, .int 2, .int 3] = Value.ofList [.num (.int 2), .num (.int 3)] := by
  simp [memvNums, Num.exactEqv]
example : ∃ σ', Applies libStore (libProc "memv" 0)
    [.num (.real 2.0), Value.ofList ([Num.int 1, .int 2].map Value.num)] 0
    (.ok (memvNums (.real 2.0) [.int 1, .int 2])) σ' ∧ libStore.Ext σ' :=
  memv_uses_eqv_on_numbers libFrame_libStore _ _ 0

end Ruschm.C10Eqv

"""C02 — tail calls run in bounded space (partial: real stack and heap are MEASURED).
Theorems: lean/RuschmProofs/C02.lean (apply_procedure activations are balanced, the trampoline and
apply do not nest, tail position passes through if arms and through the expansions of the derived
forms regenerated from grammar.sld, the counting loop runs at a depth independent of N).
Tie: loops whose tail call sits in every composition (depth 2; thorough 3) of the 21 tail contexts,
in 5 loop shapes, at two iteration counts, on the real interpreter (a host procedure `tick` called
once per iteration records the address of a local = real stack depth, and the live heap bytes of a
counting allocator) and on the model (maximum nesting of apply_procedure activations). Oracle on the
implementation alone: result = iteration count; stack offset constant from the third iteration on;
live heap at the end not above live heap at the midpoint by more than a page."""
import itertools, random
from . import common as C, progrun as R

PROP = "C02"
MODULES = ["RuschmProofs.C02"]

CONTEXTS = {
    "body-last": "%s",
    "if-consequent": "(if #t %s 0)",
    "if-alternative": "(if #f 0 %s)",
    "begin-last": "(begin 0 %s)",
    "let-body": "(let ((j 1)) %s)",
    "let*-body": "(let* ((j 1) (jj j)) %s)",
    "cond-clause": "(cond (#f 0) (#t %s))",
    "cond-else": "(cond (#f 0) (else %s))",
    "cond-=>": "(cond (#t => (lambda (z) %s)))",
    "case-clause": "(case 1 ((1) %s))",
    "case-else": "(case 2 ((1) 0) (else %s))",
    "case-=>": "(case 1 ((1) => (lambda (z) %s)))",
    "and-last": "(and #t %s)",
    "or-last": "(or #f %s)",
    "when-last": "(when #t 0 %s)",
    "unless-last": "(unless #f %s)",
    # bodies that BEGIN with internal definitions: their last expression is still in tail position
    "thunk-body-after-define": "((lambda () (define j 1) %s))",
    "let-body-after-define": "(let ((j 1)) (define jj (+ j 1)) jj %s)",
    # a tail let / let* that binds a PROCEDURE made in this iteration (a local helper; one over the loop variable): the
    # helper lives in the let's own frame and dies with it - nothing may keep one frame per iteration alive
    "let-binds-procedure": "(let ((hlp (lambda (t) (+ t 1)))) %s)",
    "let*-binds-procedure": "(let* ((j 1) (hlp (lambda (t) (+ t j)))) %s)",
    "let-binds-closure-over-n": "(let ((hlp (lambda () n)) (j 2)) %s)",
}

SUM_ALL = "(define (sum-all l s) (if (null? l) s (sum-all (cdr l) (+ s ((car l))))))"      # a loop itself: no deep recursion

SHAPES = {
    "self": (["(define (loop n acc) (tick n) (if (= n 0) acc CTX))"], "(loop (- n 1) (+ acc 1))", "(loop %d 0)"),
    "self-internal-define": (["(define (loop n acc) (define step 1) (define acc2 (+ acc step)) (tick n) (if (= n 0) acc CTX))"],
                             "(loop (- n step) acc2)", "(loop %d 0)"),
    # the body defines an internal PROCEDURE: stack must stay flat; the live heap grows (frame -> closure -> frame is an Rc
    # cycle that is never reclaimed) - recorded as the open finding `closure-frame-cycle`, reported as KNOWN-FINDING
    "self-internal-procedure": (["(define (loop n acc) (define (dec k) (- k 1)) (tick n) (if (= n 0) acc CTX))"],
                                "(loop (dec n) (+ acc 1))", "(loop %d 0)"),
    # two closures of ONE lambda (made by one factory, different captured increments) hand over to each other through
    # parameters: the callee of each tail call is the OTHER closure (2 + 0 per pair of iterations: the result is N for even N)
    "factory-pair": (["(define (mk d) (lambda (self other n acc) (tick n) (if (= n 0) acc CTX)))", "(define fa (mk 2))", "(define fb (mk 0))"],
                     "(other other self (- n 1) (+ acc d))", "(fa fa fb %d 0)"),
    # every iteration hands a closure over ITS OWN n to the next one; at the end they are all called: n + (n-1) + ... + 1.
    # (retains one closure and frame per iteration by design: the heap criterion does not apply to this shape)
    "collect-closures": (["(define (loop n acc) (tick n) (if (= n 0) (sum-all acc 0) CTX))", SUM_ALL],
                         "(loop (- n 1) (cons (lambda () n) acc))", "(loop %d '())"),
    "collect-closures-mutual": (["(define (ev n acc) (tick n) (if (= n 0) (sum-all acc 0) CTXA))",
                                 "(define (od n acc) (tick n) (if (= n 0) (sum-all acc 0) CTXB))", SUM_ALL], None, "(ev %d '())"),
    "mutual": (["(define (ev n acc) (tick n) (if (= n 0) acc CTXA))", "(define (od n acc) (tick n) (if (= n 0) acc CTXB))"],
               None, "(ev %d 0)"),
    "parameter": (["(define (loop f n acc) (tick n) (if (= n 0) acc CTX))"], "(f f (- n 1) (+ acc 1))", "(loop loop %d 0)"),
    "variadic": (["(define (loop n . accs) (tick n) (if (= n 0) (car accs) CTX))"], "(loop (- n 1) (+ (car accs) 1))", "(loop %d 0)"),
    "apply": (["(define (loop n acc) (tick n) (if (= n 0) acc CTX))"], "(apply loop (list (- n 1) (+ acc 1)))", "(loop %d 0)"),
    "apply-leading": (["(define (loop n acc) (tick n) (if (= n 0) acc CTX))"], "(apply loop (- n 1) (list (+ acc 1)))", "(loop %d 0)"),
    "apply-forward-rest": (["(define (loop n . accs) (tick n) (if (= n 0) (car accs) CTX))"],
                           "(apply loop (- n 1) (+ (car accs) 1) (cdr accs))", "(loop %d 0)"),
    "apply-empty-tail": (["(define (loop n acc) (tick n) (if (= n 0) acc CTX))"], "(apply loop (- n 1) (+ acc 1) '())", "(loop %d 0)"),
}


def wrap(ctxs, e):
    for c in reversed(ctxs):
        e = CONTEXTS[c] % e
    return e


def program(shape, ctxs, n):
    defs, call, start = SHAPES[shape]
    if shape == "collect-closures-mutual":
        forms = [defs[0].replace("CTXA", wrap(ctxs, "(od (- n 1) (cons (lambda () n) acc))")),
                 defs[1].replace("CTXB", wrap(ctxs, "(ev (- n 1) (cons (lambda () n) acc))"))] + defs[2:]
    elif shape == "mutual":
        forms = [defs[0].replace("CTXA", wrap(ctxs, "(od (- n 1) (+ acc 1))")),
                 defs[1].replace("CTXB", wrap(ctxs, "(ev (- n 1) (+ acc 1))"))]
    else:
        forms = [defs[0].replace("CTX", wrap(ctxs, call))] + defs[1:]
    return ["(import (verif host))"] + forms + [start % n]


def kv(line):
    return {p.split("=")[0]: p.split("=")[1] for p in line.split() if "=" in p}


def run(rep, tier, rng):
    depth = 2 if tier == "quick" else 3
    big = 3000 if tier == "quick" else 20000
    names = list(CONTEXTS)
    combos = [()] + [(a,) for a in names] + list(itertools.product(names, repeat=2))
    if depth >= 3:
        triples = list(itertools.product(names, repeat=3))
        rng.shuffle(triples)
        combos += triples[:150]
    if tier == "quick":
        # all single contexts x all shapes; pairs sampled
        singles = [c for c in combos if len(c) <= 1]
        pairs = [c for c in combos if len(c) == 2]
        rng.shuffle(pairs)
        combos = singles + pairs[:90]
    cases, meta = [], {}
    k = 0
    for ctxs in combos:
        for shape in SHAPES:
            for n in (40, big if not shape.startswith("collect-closures") else min(big, 400)):   # those copy a growing list per call
                cid = "t%d" % k
                k += 1
                cases.append((cid, "progx", ["std+host+sum"] + program(shape, ctxs, n)))
                meta[cid] = (shape, ctxs, n)
    impl = C.run_hx(cases)
    model = C.run_driver(cases)
    depth_at = {}
    cycle_known = any(k.get("status") == "open" and k.get("id") == "closure-frame-cycle" for k in C.known_findings(PROP))
    cycle_seen = []
    for cid, _, fields in cases:
        shape, ctxs, n = meta[cid]
        a, b = impl.get(cid), model.get(cid)
        rep.count()
        rep.nontrivial((shape, ctxs, n))
        nf = len(fields) - 1
        if a is None or b is None:
            rep.violation({"broken": "runner lost a case", "program": fields}, no_input=True); continue
        if a and a[0].startswith("X not-run"):
            continue
        if a and a[0].startswith(("P process-died", "T timeout")):
            rep.violation({"what": "the loop does not complete: the interpreter process died (stack overflow / abort) or hung",
                           "shape": shape, "contexts": ctxs, "iterations": n, "program": fields, "implementation": a})
            continue
        res = a[nf - 1]
        ax = {x[:1]: x[2:] for x in a[nf:]}
        bx = {x[:1]: x[2:] for x in b[nf:]}
        if len(rep.cov["samples"]) < 4 and len(ctxs) == 2 and n > 40:
            rep.sample({"shape": shape, "contexts": ctxs, "iterations": n, "program": fields[2:], "result": res,
                        "stack": ax.get("S"), "heap": ax.get("H"), "model_max_depth": bx.get("D")})
        want = "V i:%d" % (n * (n + 1) // 2 if shape.startswith("collect-closures") else n)
        if res != want:
            rep.violation({"what": "the loop does not compute the same result as the bounded iteration (or does not complete)",
                           "shape": shape, "contexts": ctxs, "program": fields, "expected": want, "implementation": res})
            continue
        t = kv(ax.get("T", ""))
        if t.get("n") != str(n + 1):
            rep.violation({"what": "wrong number of iterations observed", "program": fields, "ticks": ax.get("T")}); continue
        s = kv(ax.get("S", ""))
        if s.get("min") != s.get("max"):
            rep.violation({"what": "interpreter stack depth changes between iterations of a loop of tail calls",
                           "shape": shape, "contexts": ctxs, "iterations": n, "program": fields, "stack_offsets": ax.get("S")})
            continue
        h = kv(ax.get("H", ""))
        if int(h.get("last", 0)) - int(h.get("mid", 0)) > 4096 and shape == "self-internal-procedure" and cycle_known:
            if not cycle_seen:
                cycle_seen.append(1)
                rep.known("closure-frame-cycle: a loop whose body defines an internal procedure leaks one frame per iteration "
                          "(the frame holds the closure, the closure holds the frame: an Rc cycle) - live heap %s for %s" % (ax.get("H"), fields[-1]))
        elif int(h.get("last", 0)) - int(h.get("mid", 0)) > 4096 and not shape.startswith("collect-closures"):
            rep.violation({"what": "live heap grows with the iteration count in a loop of tail calls",
                           "shape": shape, "contexts": ctxs, "iterations": n, "program": fields, "heap": ax.get("H")})
            continue
        # correspondence: result and tick summary of the model
        if b[nf - 1] != res or bx.get("T") != ax.get("T"):
            rep.violation({"broken": "correspondence evaluator model <-> interpreter.rs on a tail loop", "program": fields,
                           "implementation": [res, ax.get("T")], "model": [b[nf - 1], bx.get("T")]}, no_input=True)
        depth_at[(shape, ctxs, n)] = bx.get("D")
    # the model's activation depth must not depend on the iteration count
    for (shape, ctxs, n), d in depth_at.items():
        if n == 40 and (shape, ctxs, big) in depth_at and depth_at[(shape, ctxs, big)] != d:
            rep.violation({"broken": "model: apply_procedure nesting depth depends on the iteration count",
                           "shape": shape, "contexts": ctxs, "depth_40": d, "depth_big": depth_at[(shape, ctxs, big)]}, no_input=True)
    rep.extra["contexts"] = len(CONTEXTS)
    rep.extra["shapes"] = list(SHAPES)
    rep.extra["iterations"] = [40, big]


def main(tier, seed):
    rep = C.Report(PROP, tier, seed)
    rng = random.Random(seed)
    rep.cov["rule"] = ("loops whose tail call sits in a composition of the 21 tail contexts (the 16 of the derived forms, two bodies that begin with internal definitions, three lets that bind a procedure made in the iteration) (all single contexts, pairs sampled "
                       "in quick / all pairs and sampled triples in thorough) x 13 loop shapes (loops that hand a closure over the current iteration's variable to the next iteration - self and mutual -, two closures of one lambda handing over to each other, self, self with internal value definitions, self with an internal procedure definition, mutual, through a procedure "
                       "parameter, variadic, apply in its 2-argument, leading-argument, rest-forwarding and empty-tail forms) x 2 iteration counts; distinct = (shape, contexts, count)")
    rep.assumptions = ["real stack depth is the address of a local of the host procedure tick; live heap is a counting global allocator; "
                       "that activation depth bounds machine stack is measured here, not proved"]
    ok = C.standard_proof_phase(rep, MODULES, directed_search=lambda r: run(r, tier, rng))
    if ok:
        run(rep, tier, rng)
    return rep.finish("cd lean && lake build RuschmProofs.C02 && lake env lean <#print axioms of every theorem in RuschmProofs/C02.lean>")

/-
Helper lemmas for C07 (4): macro definition and expansion keep data free of `n/0`.
* templates built from `n/0`-free data are `n/0`-free (`toTmpl_ratOk`, `toRules_ratOk`);
* the matcher only ever stores sub-data of the use in its table (`matchDatum_ratOK`);
* instantiating an `n/0`-free template with an `n/0`-free table gives `n/0`-free data
  (`subst_ratOk_all`, `transform_ratOk`).
-/
import RuschmProofs.SafeFront

namespace Ruschm
open Ruschm

theorem Datum.spine_ratOk : ∀ (d : Datum), d.ratOk = true →
    (∀ x ∈ d.spine.1, x.ratOk = true) ∧ (∀ t, d.spine.2 = some t → t.ratOk = true)
  | .pair a d l, h => by
    simp only [Datum.ratOk, Bool.and_eq_true] at h
    have ih := Datum.spine_ratOk d h.2
    simp only [Datum.spine]
    refine ⟨?_, ih.2⟩
    intro x hx
    rcases List.mem_cons.1 hx with rfl | hx
    · exact h.1
    · exact ih.1 x hx
  | .nil _, _ => by simp [Datum.spine]
  | .prim p l, h => by simp [Datum.spine]; exact h
  | .sym s l, h => by simp [Datum.spine]; exact h
  | .vec xs l, h => by simp [Datum.spine]; exact h

theorem Datum.elems_ratOk (d : Datum) (h : d.ratOk = true) : ∀ x ∈ d.elems, x.ratOk = true := by
  have := Datum.spine_ratOk d h
  unfold Datum.elems
  split
  · rename_i xs hs; rw [hs] at this; exact this.1
  · rename_i xs t hs; rw [hs] at this
    intro x hx
    rcases List.mem_append.1 hx with hx | hx
    · exact this.1 x hx
    · simp at hx; subst hx; exact this.2 _ rfl


theorem Datum.ofList_ratOk (l : Loc) : ∀ (xs : List Datum), (∀ x ∈ xs, x.ratOk = true) → (Datum.ofList l xs).ratOk = true
  | [], _ => rfl
  | x :: xs, h => by
    simp only [Datum.ofList, Datum.ratOk, Bool.and_eq_true]
    exact ⟨h x (by simp), Datum.ofList_ratOk none xs fun y hy => h y (by simp [hy])⟩

namespace Macro

/-! ### templates -/

theorem tmpl_ratOk_all :
    (∀ d, ∀ t, toTmpl d = .ok t → d.ratOk = true → t.ratOk = true) ∧
    (∀ ds last, ∀ es, collectElems ds last = .ok es → Datum.ratOkList ds = true →
      (∀ p, last = some p → p.ratOk = true) → Tmpl.ratOkElems es = true) ∧
    (∀ d last, ∀ es, collectSpine d last = .ok es → d.ratOk = true →
      (∀ p, last = some p → p.ratOk = true) → Tmpl.ratOkElems es = true) := by
  apply toTmpl.mutual_induct
    (motive_1 := fun d => ∀ t, toTmpl d = .ok t → d.ratOk = true → t.ratOk = true)
    (motive_2 := fun ds last => ∀ es, collectElems ds last = .ok es → Datum.ratOkList ds = true →
      (∀ p, last = some p → p.ratOk = true) → Tmpl.ratOkElems es = true)
    (motive_3 := fun d last => ∀ es, collectSpine d last = .ok es → d.ratOk = true →
      (∀ p, last = some p → p.ratOk = true) → Tmpl.ratOkElems es = true)
  all_goals intros
  all_goals first
    | (rename_i t h hd; rw [toTmpl] at h)
    | (rename_i es h hd hl; first | rw [collectSpine] at h | rw [collectElems] at h | unfold collectSpine at h | unfold collectElems at h)
  all_goals try simp only [bind, Except.bind, pure, Except.pure] at h
  all_goals (repeat' split at h)
  all_goals first
    | (cases h; done)
    | grind [Datum.ratOk, Datum.ratOkList, Tmpl.ratOk, Tmpl.ratOkElems]


theorem toTmpl_ratOk {d t} (h : toTmpl d = .ok t) (hd : d.ratOk = true) : t.ratOk = true :=
  tmpl_ratOk_all.1 d t h hd

theorem expectList_ok {d d'} (h : expectList d = .ok d') : d' = d := by
  unfold expectList at h; split at h <;> cases h <;> rfl

theorem popProper_ratOk {d a r} (h : popProper d = .ok (some (a, r))) (hd : d.ratOk = true) :
    a.ratOk = true ∧ r.ratOk = true := by
  unfold popProper at h
  split at h <;> cases h <;> simp_all [Datum.ratOk]

theorem toRule_ratOk {k d pt} (h : toRule k d = .ok pt) (hd : d.ratOk = true) : pt.2.ratOk = true := by
  unfold toRule at h
  simp only [bind, Except.bind, pure, Except.pure] at h
  have := @expectList_ok; have := @toTmpl_ratOk; have := Datum.elems_ratOk d hd
  repeat' split at h
  all_goals first
    | (cases h; done)
    | grind

theorem mapM_ok_forall {α β} {f : α → Except SErr β} {P : α → Prop} {Q : β → Prop}
    (hf : ∀ a b, f a = .ok b → P a → Q b) :
    ∀ (l : List α) (r : List β), l.mapM f = .ok r → (∀ a ∈ l, P a) → ∀ b ∈ r, Q b
  | [], r, h, _ => by simp [List.mapM_nil, pure, Except.pure] at h; subst h; simp
  | a :: l, r, h, hp => by
    simp only [List.mapM_cons, bind, Except.bind, pure, Except.pure] at h
    split at h
    · cases h
    · rename_i b hb
      split at h
      · cases h
      · rename_i bs hbs
        cases h
        intro x hx
        rcases List.mem_cons.1 hx with rfl | hx
        · exact hf a _ hb (hp a (by simp))
        · exact mapM_ok_forall hf l bs hbs (fun y hy => hp y (by simp [hy])) x hx

theorem toRules_ratOk {k d r} (h : toRules k d = .ok r) (hd : d.ratOk = true) : r.RatOK := by
  unfold toRules at h
  simp only [bind, Except.bind, pure, Except.pure] at h
  split at h
  · cases h
  · rename_i d' hd'
    have := expectList_ok hd'; subst this
    have hel := Datum.elems_ratOk _ hd
    split at h
    · cases h
    · rename_i first rest hdrop
      have hfr : ∀ x ∈ first :: rest, x.ratOk = true := by
        intro x hx; rw [← hdrop] at hx; exact hel x (List.mem_of_mem_drop hx)
      split at h
      · cases h
      · rename_i v hv
        obtain ⟨lits, ruleData⟩ := v
        have hrd : ∀ x ∈ ruleData, x.ratOk = true := by
          revert hv
          have := @expectList_ok
          repeat' split
          all_goals first
            | (intro hv; cases hv; done)
            | (intro hv; simp only [Except.ok.injEq, Prod.mk.injEq] at hv; obtain ⟨_, rfl⟩ := hv
               intro x hx; exact hfr x (by simp_all))
        split at h
        · cases h
        · split at h
          · cases h
          · rename_i rules hrules
            cases h
            intro pt hpt
            exact mapM_ok_forall (P := fun d => d.ratOk = true) (Q := fun pt => pt.2.ratOk = true)
              (fun a b hab ha => toRule_ratOk hab ha) _ _ hrules hrd pt hpt


/-! ### the matcher -/


theorem Subst.ratOK_nil : Subst.RatOK [] := by intro e he; cases he

theorem Subst.ratOK_insert {σ : Subst} {v : String} {x : Datum × List Datum} (hσ : σ.RatOK)
    (hx : x.1.ratOk = true ∧ ∀ d ∈ x.2, d.ratOk = true) : (σ.insert v x).RatOK := by
  induction σ with
  | nil => intro e he; simp [Subst.insert] at he; subst he; exact hx
  | cons kv rest ih =>
    obtain ⟨k, y⟩ := kv
    simp only [Subst.insert]
    split
    · intro e he
      rcases List.mem_cons.1 he with rfl | he
      · exact hx
      · exact hσ e (by simp [he])
    · intro e he
      rcases List.mem_cons.1 he with rfl | he
      · exact hσ _ (by simp)
      · exact ih (fun e he => hσ e (by simp [he])) e he

theorem Subst.ratOK_push {σ σ' : Subst} {v : String} {d : Datum} (hσ : σ.RatOK) (hd : d.ratOk = true)
    (h : σ.push? v d = some σ') : σ'.RatOK := by
  induction σ generalizing σ' with
  | nil => simp [Subst.push?] at h
  | cons kv rest ih =>
    obtain ⟨k, f, more⟩ := kv
    simp only [Subst.push?] at h
    split at h
    · cases h
      intro e he
      rcases List.mem_cons.1 he with rfl | he
      · have := hσ (k, f, more) (by simp)
        refine ⟨this.1, fun x hx => ?_⟩
        rcases List.mem_append.1 hx with hx | hx
        · exact this.2 x hx
        · simp at hx; subst hx; exact hd
      · exact hσ e (by simp [he])
    · cases hr : Subst.push? rest v d with
      | none => simp [hr] at h
      | some r =>
        simp [hr] at h; subst h
        intro e he
        rcases List.mem_cons.1 he with rfl | he
        · exact hσ _ (by simp)
        · exact ih (fun e he => hσ e (by simp [he])) hr e he

theorem pushAll_ratOK : ∀ (τ σ σ' : Subst), τ.RatOK → σ.RatOK → pushAll τ σ = some σ' → σ'.RatOK
  | [], σ, σ', _, hσ, h => by simp [pushAll] at h; subst h; exact hσ
  | e :: τ, σ, σ', hτ, hσ, h => by
    rw [pushAll_cons] at h
    cases hp : Subst.push? σ e.1 e.2.1 with
    | none => simp [hp] at h
    | some σ1 =>
      simp [hp] at h
      exact pushAll_ratOK τ σ1 σ' (fun x hx => hτ x (by simp [hx]))
        (Subst.ratOK_push hσ (hτ e (by simp)).1 hp) h


theorem match_rat_aux (lits : List String) : ∀ n,
    (∀ p d σ, d.ratOk = true → Subst.RatOK σ → ∀ b σ', matchDatum n lits p d σ = .ok (b, σ') → Subst.RatOK σ') ∧
    (∀ ps ds mm σ, (∀ d ∈ ds, d.ratOk = true) → Subst.RatOK σ →
      ∀ b σ', matchStream n lits ps ds mm σ = .ok (b, σ') → Subst.RatOK σ') := by
  intro n
  induction n with
  | zero => simp
  | succ n ih =>
    obtain ⟨ihD, ihS⟩ := ih
    constructor
    · intro p d σ hd hσ b σ' h
      cases hp : p.isListy
      · cases p <;> simp [Pat.isListy] at hp
        · simp at h; obtain ⟨_, rfl⟩ := h; exact hσ
        · simp at h; obtain ⟨_, rfl⟩ := h; exact hσ
        · rw [matchDatum_vec] at h
          cases d <;> simp at h <;> try (obtain ⟨_, rfl⟩ := h; exact hσ)
          rename_i ps ds loc
          exact ihS ps ds none σ (Datum.ratOkList_iff.1 hd) hσ _ _ h
        · rename_i v
          rw [matchDatum_ident] at h
          split at h
          · cases h; exact hσ
          · cases h; exact Subst.ratOK_insert hσ ⟨hd, by simp⟩
        · rw [matchDatum_prim] at h; cases h; exact hσ
      · cases hdl : d.isListy
        · rw [matchDatum_listy_atom hp hdl] at h; cases h; exact hσ
        · rw [matchDatum_listy hp hdl] at h
          have hsp := Datum.spine_ratOk d hd
          split at h
          · cases h
          · rename_i σ1 he; cases h; exact ihS _ _ _ _ hsp.1 hσ _ _ he
          · rename_i σ1 he
            have h1 := ihS _ _ _ _ hsp.1 hσ _ _ he
            split at h
            · rename_i lp ld hlp hld
              exact ihD lp ld σ1 (hsp.2 _ hld) h1 _ _ h
            · cases h; exact h1
            · cases h; exact h1
    · intro ps ds mm σ hds hσ b σ' h
      cases ps with
      | nil => cases ds <;> simp at h <;> (obtain ⟨_, rfl⟩ := h; exact hσ)
      | cons p ps =>
        cases ds with
        | nil =>
          cases hp : p.isEllipsis
          · rw [matchStream_cons_nil_ne hp] at h; cases h; exact hσ
          · cases p <;> simp [Pat.isEllipsis] at hp
            cases mm with
            | none => simp at h; obtain ⟨_, rfl⟩ := h; exact hσ
            | some mp =>
              rw [matchStream_ell_nil_some] at h
              exact ihS ps [] (some mp) σ (by simp) hσ _ _ h
        | cons d ds =>
          have hd : d.ratOk = true := hds d (by simp)
          have hds' : ∀ x ∈ ds, x.ratOk = true := fun x hx => hds x (by simp [hx])
          cases hp : p.isEllipsis
          · rw [matchStream_step_ne hp] at h
            split at h
            · cases h
            · rename_i σ1 he; cases h; exact ihD p d σ hd hσ _ _ he
            · rename_i σ1 he
              exact ihS ps ds _ σ1 hds' (ihD p d σ hd hσ _ _ he) _ _ h
          · cases p <;> simp [Pat.isEllipsis] at hp
            cases n with
            | zero => rw [matchStream_ell_one] at h; cases h
            | succ n =>
              cases mm with
              | none => rw [matchStream_ell_none] at h; cases h
              | some mp =>
                rw [matchStream_step_ell] at h
                split at h
                · cases h
                · cases h; exact hσ
                · rename_i τ he
                  have hτ := ihD mp d [] hd Subst.ratOK_nil _ _ he
                  split at h
                  · cases h
                  · rename_i σ2 hσ2
                    have h2 := pushAll_ratOK τ σ σ2 hτ hσ hσ2
                    split at h
                    · cases h
                    · rename_i σ3 he2; cases h; exact ihS _ ds _ σ2 hds' h2 _ _ he2
                    · rename_i σ3 he2
                      exact ihS ps ds _ σ3 hds' (ihS _ ds _ σ2 hds' h2 _ _ he2) _ _ h

theorem matchDatum_ratOK {lits n p d σ b σ'} (h : matchDatum n lits p d σ = .ok (b, σ'))
    (hd : d.ratOk = true) (hσ : Subst.RatOK σ) : Subst.RatOK σ' :=
  (match_rat_aux lits n).1 p d σ hd hσ b σ' h


theorem Subst.get?_ratOK {σ : Subst} (hσ : σ.RatOK) {v : String} {f : Datum} {more : List Datum}
    (h : σ.get? v = some (f, more)) : f.ratOk = true ∧ ∀ d ∈ more, d.ratOk = true := by
  exact hσ _ (Subst.get?_mem h)

theorem Subst.get?_ratOK_fst {σ : Subst} (hσ : σ.RatOK) {v : String} {f : Datum} {more : List Datum}
    (h : σ.get? v = some (f, more)) : f.ratOk = true := (Subst.get?_ratOK hσ h).1

theorem Subst.get?_ratOK_more {σ : Subst} (hσ : σ.RatOK) {v : String} {f : Datum} {more : List Datum}
    (h : σ.get? v = some (f, more)) {i : Nat} {d : Datum} (hi : more[i]? = some d) : d.ratOk = true :=
  (Subst.get?_ratOK hσ h).2 d (List.mem_of_getElem? hi)

theorem substItem_ratOk_all :
    (∀ (t : Tmpl) (σ : Subst) (i : Nat) (loc : Loc), t.ratOk = true → σ.RatOK →
      ∀ d, substItem t σ i loc = some d → d.ratOk = true) ∧
    (∀ (es : List (Tmpl × Bool)) (σ : Subst) (i : Nat) (loc : Loc), Tmpl.ratOkElems es = true → σ.RatOK →
      ∀ ds, substItems es σ i loc = some ds → ∀ d ∈ ds, d.ratOk = true) := by
  apply substItem.mutual_induct
    (motive_1 := fun t σ i loc => t.ratOk = true → σ.RatOK →
      ∀ d, substItem t σ i loc = some d → d.ratOk = true)
    (motive_2 := fun es σ i loc => Tmpl.ratOkElems es = true → σ.RatOK →
      ∀ ds, substItems es σ i loc = some ds → ∀ d ∈ ds, d.ratOk = true)
  all_goals intros
  all_goals first
    | (rename_i ht hσ ds h d hd; rw [substItems] at h)
    | (rename_i ht hσ d h; rw [substItem] at h)
  all_goals (repeat' split at h)
  all_goals try simp only [Option.map_eq_some_iff] at h
  all_goals first
    | (cases h; done)
    | grind [Datum.ratOk, Datum.ratOkList_iff, Tmpl.ratOk, Tmpl.ratOkElems, Subst.get?_ratOK_fst, Subst.get?_ratOK_more, Datum.ofList_ratOk]


theorem substItemLoop_ratOk : ∀ (fuel : Nat) (t : Tmpl) (σ : Subst) (i : Nat) (loc : Loc), t.ratOk = true → σ.RatOK →
    ∀ ds, substItemLoop fuel t σ i loc = some ds → ∀ d ∈ ds, d.ratOk = true
  | 0, t, σ, i, loc, _, _, ds, h => by simp [substItemLoop] at h
  | fuel + 1, t, σ, i, loc, ht, hσ, ds, h => by
    rw [substItemLoop] at h
    split at h
    · cases h; simp
    · rename_i d hd
      simp only [Option.map_eq_some_iff] at h
      obtain ⟨r, hr, rfl⟩ := h
      intro x hx
      rcases List.mem_cons.1 hx with rfl | hx
      · exact substItem_ratOk_all.1 t σ i loc ht hσ _ hd
      · exact substItemLoop_ratOk fuel t σ (i + 1) loc ht hσ r hr x hx

theorem subst_ratOk_all (fuel : Nat) :
    (∀ (t : Tmpl) (σ : Subst) (loc : Loc), t.ratOk = true → σ.RatOK →
      ∀ d, subst fuel t σ loc = some d → d.ratOk = true) ∧
    (∀ (es : List (Tmpl × Bool)) (σ : Subst) (loc : Loc), Tmpl.ratOkElems es = true → σ.RatOK →
      ∀ ds, substElems fuel es σ loc = some ds → ∀ d ∈ ds, d.ratOk = true) := by
  apply subst.mutual_induct fuel
    (motive_1 := fun t σ loc => t.ratOk = true → σ.RatOK →
      ∀ d, subst fuel t σ loc = some d → d.ratOk = true)
    (motive_2 := fun es σ loc => Tmpl.ratOkElems es = true → σ.RatOK →
      ∀ ds, substElems fuel es σ loc = some ds → ∀ d ∈ ds, d.ratOk = true)
  all_goals intros
  all_goals first
    | (rename_i ht hσ ds h d hd; rw [substElems] at h)
    | (rename_i ht hσ d h; rw [subst] at h)
  all_goals (repeat' split at h)
  all_goals try simp only [Option.map_eq_some_iff] at h
  all_goals first
    | (cases h; done)
    | grind [Datum.ratOk, Datum.ratOkList_iff, Tmpl.ratOk, Tmpl.ratOkElems, Subst.get?_ratOK_fst, Datum.ofList_ratOk,
        substItemLoop_ratOk]

theorem transformRules_ratOk (fuel : Nat) (lits : List String) :
    ∀ (rules : List (Pat × Tmpl)) (use d : Datum), (∀ pt ∈ rules, pt.2.ratOk = true) → use.ratOk = true →
      transformRules fuel lits rules use = .ok d → d.ratOk = true
  | [], use, d, _, _, h => by simp [transformRules] at h
  | (p, t) :: rest, use, d, hr, hu, h => by
    rw [transformRules] at h
    simp only [bind, Except.bind, pure, Except.pure] at h
    split at h
    · cases h
    · rename_i v hv
      obtain ⟨ok, σ⟩ := v
      simp only at h
      split at h
      · split at h
        · cases h
        · split at h
          · rename_i d' hd'
            cases h
            exact (subst_ratOk_all fuel).1 t σ _ (hr (p, t) (by simp)) (matchDatum_ratOK hv hu Subst.ratOK_nil) _ hd'
          · cases h
      · exact transformRules_ratOk fuel lits rest use d (fun pt hpt => hr pt (by simp [hpt])) hu h

theorem transform_ratOk {fuel : Nat} {r : Rules} {use d : Datum} (hr : r.RatOK) (hu : use.ratOk = true)
    (h : transform fuel r use = .ok d) : d.ratOk = true :=
  transformRules_ratOk fuel _ _ _ _ hr hu h

end Macro
end Ruschm

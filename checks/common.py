"""Shared machinery of ./check: builds, the two runners (real code / Lean model), the axiom
audit, known findings, replay files and evidence.  Python only generates, diffs and judges;
the theorems are checked by Lean, the real code is run by harness/hx."""
import fcntl, hashlib, json, os, random, re, subprocess, sys, time

ROOT = os.path.dirname(os.path.dirname(os.path.abspath(__file__)))
LEAN = os.path.join(ROOT, "lean")
BUILD = os.path.join(ROOT, "build")
HX = os.path.join(BUILD, "hx", "debug", "hx")
DRIVER = os.path.join(LEAN, ".lake", "build", "bin", "driver")
REPO = "/repo"
ALLOWED_AXIOMS = {"propext", "Classical.choice", "Quot.sound"}
FORBIDDEN = re.compile(r"\bsorry\b|\badmit\b|^\s*axiom\s|native_decide|bv_decide|implemented_by|\bunsafe\s|maxHeartbeats\s+0\b", re.M)

TRUSTED_BASE = [
    "Lean 4.33 kernel (axioms allowed: propext, Classical.choice, Quot.sound; no native_decide/bv_decide/sorry)",
    "the hand-written Lean model RuschmModel/* of the Rust code; tied to /repo by the differential correspondence run of this check (harness/hx runs the real code, lean driver runs the model)",
    "generated constants RuschmGen/* (tools/sld2lean.py) re-derived from /repo on every run and self-checked against the model's reader",
    "rustc/cargo, Rust std, the crates Ruschm links; Lean's Float32 = host IEEE binary32, same as Rust f32",
    "python generators/differ in checks/*.py",
]


def log(*a):
    print(*a, file=sys.stderr, flush=True)


class Lock:
    def __enter__(self):
        os.makedirs(BUILD, exist_ok=True)
        self.f = open(os.path.join(BUILD, ".lock"), "w")
        fcntl.flock(self.f, fcntl.LOCK_EX)
        return self

    def __exit__(self, *a):
        fcntl.flock(self.f, fcntl.LOCK_UN)
        self.f.close()


def sh(cmd, cwd=None, env=None, timeout=None, input=None):
    e = dict(os.environ)
    if env:
        e.update(env)
    p = subprocess.run(cmd, cwd=cwd, env=e, stdout=subprocess.PIPE, stderr=subprocess.STDOUT,
                       timeout=timeout, input=input, text=True, shell=isinstance(cmd, str))
    return p.returncode, p.stdout


# ---------------------------------------------------------------- builds

def build_harness():
    """cargo build of harness/ against /repo's working tree, hooks on."""
    env = {"CARGO_TARGET_DIR": os.path.join(BUILD, "hx"), "CARGO_NET_OFFLINE": "true",
           "RUSTFLAGS": "--cfg ruschm_verif --check-cfg cfg(ruschm_verif) -Awarnings"}
    rc, out = sh(["cargo", "build", "--offline", "--quiet"], cwd=os.path.join(ROOT, "harness"), env=env)
    if rc != 0:
        raise BuildError("harness", out[-4000:])


def build_repo_binary():
    """the real `ruschm` binary (for C17/C18), built from /repo's working tree into build/repo."""
    env = {"CARGO_NET_OFFLINE": "true", "RUSTFLAGS": "-Awarnings"}
    rc, out = sh(["cargo", "build", "--offline", "--quiet", "--manifest-path", os.path.join(REPO, "Cargo.toml"),
                  "--target-dir", os.path.join(BUILD, "repo")], env=env)
    if rc != 0:
        raise BuildError("repo-binary", out[-4000:])
    return os.path.join(BUILD, "repo", "debug", "ruschm")


class BuildError(Exception):
    def __init__(self, what, out):
        super().__init__(what)
        self.what, self.out = what, out


def regen():
    """regenerate RuschmGen/* from /repo (only rewrites files whose content changed)."""
    gen = os.path.join(ROOT, "tools", "sld2lean.py")
    if os.path.exists(gen):
        rc, out = sh([sys.executable, gen])
        if rc != 0:
            raise BuildError("regen", out[-4000:])
    # the table of native procedures, read from the running code (needs the harness built from the current tree)
    rc, out = sh([sys.executable, os.path.join(ROOT, "tools", "genbuiltins.py")])
    if rc != 0:
        raise BuildError("regen-builtins", out[-4000:])


def lake_build(targets):
    rc, out = sh(["lake", "build"] + targets, cwd=LEAN)
    return rc, out


def theorems_of(module):
    """names of the theorems stated in a property file (every one is an obligation)."""
    path = os.path.join(LEAN, module.replace(".", "/") + ".lean")
    src = open(path).read()
    src_nc = strip_comments(src)
    ns = []
    names = []
    for line in src_nc.splitlines():
        m = re.match(r"\s*namespace\s+(\S+)", line)
        if m:
            ns.append(m.group(1)); continue
        m = re.match(r"\s*end\s+(\S+)", line)
        if m and ns and ns[-1].split(".")[-1] == m.group(1).split(".")[-1]:
            ns.pop(); continue
        # private theorems are helpers of the non-vacuity examples, not obligations
        m = re.match(r"\s*(?:@\[[^\]]*\]\s*)?(?:protected\s+)?theorem\s+([^\s:({\[]+)", line)
        if m:
            names.append(".".join(ns + [m.group(1)]))
    return names


def strip_comments(src):
    src = re.sub(r"/-.*?-/", "", src, flags=re.S)
    src = re.sub(r"--[^\n]*", "", src)
    return src


def import_closure(modules):
    """the Ruschm* source files a set of modules depends on (transitively)"""
    seen, todo = set(), list(modules)
    while todo:
        m = todo.pop()
        if m in seen or not m.startswith("Ruschm"):
            continue
        path = os.path.join(LEAN, m.replace(".", "/") + ".lean")
        if not os.path.exists(path):
            continue
        seen.add(m)
        for im in re.findall(r"^\s*(?:public\s+)?import\s+(\S+)", open(path).read(), re.M):
            todo.append(im)
    return sorted(seen)


def forbidden_tokens(modules):
    bad = []
    for m in import_closure(modules):
        path = os.path.join(LEAN, m.replace(".", "/") + ".lean")
        src = strip_comments(open(path).read())
        src = re.sub(r'"(?:[^"\\]|\\.)*"', '""', src)
        for x in FORBIDDEN.finditer(src):
            bad.append((path, x.group(0).strip()))
    return bad


def axiom_audit(modules):
    """#print axioms on every theorem of the property files; returns (ok_names, problems)."""
    names = []
    for m in modules:
        names += theorems_of(m)
    if not names:
        return [], [("no theorems found", ",".join(modules))]
    os.makedirs(os.path.join(BUILD, "audit"), exist_ok=True)
    tag = hashlib.sha1(",".join(modules).encode()).hexdigest()[:10]
    path = os.path.join(BUILD, "audit", "audit_%s.lean" % tag)
    with open(path, "w") as f:
        for m in modules:
            f.write("import %s\n" % m)
        for n in names:
            f.write("#print axioms %s\n" % n)
    rc, out = sh(["lake", "env", "lean", path], cwd=LEAN)
    ok, problems = [], []
    seen = {}
    # output: 'X' depends on axioms: [a, b]   |   'X' does not depend on any axioms
    flat = out.replace("\n ", " ")
    for m in re.finditer(r"^'(.+)' depends on axioms: \[([^\]]*)\]", flat, re.M):
        seen[m.group(1)] = set(x.strip() for x in m.group(2).split(",") if x.strip())
    for m in re.finditer(r"^'(.+)' does not depend on any axioms", flat, re.M):
        seen[m.group(1)] = set()
    for n in names:
        if n not in seen:
            problems.append((n, "not reported by #print axioms (rc=%d): %s" % (rc, out[-300:])))
        elif not seen[n] <= ALLOWED_AXIOMS:
            problems.append((n, "axioms " + ",".join(sorted(seen[n] - ALLOWED_AXIOMS))))
        else:
            ok.append(n)
    return ok, problems


# ---------------------------------------------------------------- runners

def esc_field(s):
    out = []
    for ch in s:
        if ch == "\\": out.append("\\\\")
        elif ch == "\n": out.append("\\n")
        elif ch == "\t": out.append("\\t")
        elif ch == "\r": out.append("\\r")
        elif ord(ch) < 32 or ord(ch) == 127 or ord(ch) > 126:
            out.append("\\u{%x}" % ord(ch))
        else: out.append(ch)
    return "".join(out)


def esc_out(s):
    """the escaping the harness and the driver apply to captured output (`esc` of main.rs / Proto.lean)"""
    out = []
    for ch in s:
        if ch in '\\"() ' or not ("!" <= ch <= "~"):
            out.append("\\u{%x}" % ord(ch))
        else:
            out.append(ch)
    return "".join(out)


def write_cases(cases):
    """cases: list of (id, kind, [fields]) -> TSV text"""
    return "".join("%s\t%s\t%s\n" % (i, k, "\t".join(esc_field(f) for f in fs)) for i, k, fs in cases)


def parse_results(text):
    res = {}
    for line in text.splitlines():
        if not line: continue
        parts = line.split("\t")
        res[parts[0]] = [] if parts[1:] == [""] else parts[1:]
    return res


def _limits():
    import resource
    try:
        # an input that makes the interpreter allocate without bound should fail fast, not take the machine down
        resource.setrlimit(resource.RLIMIT_AS, (24 << 30, 24 << 30))
    except Exception:
        pass


SAME_THREAD = [False]     # set by run_hx(..., same_thread=True): all cases of the process on ONE thread (HX_SAME_THREAD)


def _run_hx_once(cases, timeout):
    os.makedirs(os.path.join(BUILD, "tmp"), exist_ok=True)
    outp = os.path.join(BUILD, "tmp", "hx-out-%d.tsv" % os.getpid())
    env = dict(os.environ)
    env["HX_OUT"] = outp
    env["HX_TMP"] = os.path.join(BUILD, "tmp")
    if SAME_THREAD[0]:
        env["HX_SAME_THREAD"] = "1"
    try:
        p = subprocess.run([HX], input=write_cases(cases), stdout=subprocess.DEVNULL, stderr=subprocess.PIPE,
                           text=True, timeout=timeout, env=env, preexec_fn=_limits)
        rc, err = p.returncode, p.stderr
    except subprocess.TimeoutExpired:
        rc, err = -999, "timeout"
    text = open(outp, errors="replace").read() if os.path.exists(outp) else ""
    if os.path.exists(outp):
        os.remove(outp)
    return rc, err, parse_results(text)


MAX_DEATHS = 3      # per batch: after that many isolated culprits the remaining cases are not run any more


def run_hx_same_thread(cases, timeout=1800):
    """the cases one after another on ONE thread of ONE process (thread-local state of the interpreter survives from case to case)"""
    SAME_THREAD[0] = True
    try:
        rc, err, res = _run_hx_once(cases, timeout)
    finally:
        SAME_THREAD[0] = False
    return res if rc == 0 else None


def run_hx(cases, timeout=1800, _deaths=None):
    """runs the cases on the real code. If the harness process dies (abort, stack overflow, out of
    memory, timeout) the culprit case is found by bisection and gets the result `P process-died`;
    the other cases are still run - until MAX_DEATHS culprits have been isolated in this batch, then the
    rest is reported as `X not-run` (a tree on which the interpreter keeps dying is not explored case by case)."""
    top = _deaths is None
    if top:
        _deaths = [0]
    if _deaths[0] >= MAX_DEATHS:
        return {c[0]: ["X not-run the harness process had already died %d times in this batch" % _deaths[0]] for c in cases}
    rc, err, res = _run_hx_once(cases, timeout)
    if rc != 0 and len(cases) == 1:
        _deaths[0] += 1
    if rc == 0:
        return res
    if len(cases) == 1:
        if rc == -999:
            return {cases[0][0]: ["T timeout"]}     # did not finish: not a crash, and not a claim of any property
        return {cases[0][0]: ["P process-died rc=%s %s" % (rc, err[-200:].replace("\n", " "))]}
    # results before the crash are valid - except the last one written, whose line may have been cut off by the death of the
    # process: it is run again; rerun the rest split in two
    present = [c[0] for c in cases if c[0] in res]
    if present and len(present) < len(cases):
        res.pop(present[-1], None)
    done = [c for c in cases if c[0] in res]
    rest = [c for c in cases if c[0] not in res]
    if not rest:
        return res
    if len(rest) == 1:
        res.update(run_hx(rest, timeout, _deaths))
        return res
    # the first unfinished case is the likely culprit
    res.update(run_hx(rest[:1], min(timeout, 120), _deaths))
    res.update(run_hx(rest[1:], timeout, _deaths))
    return res


def _big_stack():
    import resource
    try:
        resource.setrlimit(resource.RLIMIT_STACK, (resource.RLIM_INFINITY, resource.RLIM_INFINITY))
    except Exception:
        pass


def run_driver(cases, timeout=1800):
    p = subprocess.run([DRIVER], input=write_cases(cases), stdout=subprocess.PIPE, stderr=subprocess.PIPE,
                       text=True, timeout=timeout, preexec_fn=_big_stack)
    if p.returncode != 0:
        raise BuildError("driver-run", "exit %d: %s" % (p.returncode, p.stderr[-2000:]))
    return parse_results(p.stdout)


# ---------------------------------------------------------------- findings / replays / evidence

def known_findings(prop):
    path = os.path.join(ROOT, "known_findings.json")
    if not os.path.exists(path):
        return []
    return [e for e in json.load(open(path)) if e.get("property") == prop]


def write_replay(prop, payload):
    os.makedirs(os.path.join(ROOT, "replays"), exist_ok=True)
    h = hashlib.sha1(json.dumps(payload, sort_keys=True).encode()).hexdigest()[:10]
    path = os.path.join(ROOT, "replays", "%s-%s.json" % (prop, h))
    json.dump(payload, open(path, "w"), indent=1)
    return path


class Report:
    """collects what a run did; prints VIOLATION / KNOWN-FINDING lines; writes the evidence."""

    def __init__(self, prop, tier, seed):
        self.prop, self.tier, self.seed = prop, tier, seed
        self.t0 = time.time()
        self.violations = []      # (replay_path, no_input)
        self._failing, self._broken = [], []
        self.cov = {"evaluations": 0, "distinct_nontrivial": 0, "samples": [], "rule": ""}
        self.obligations, self.discharged = 0, 0
        self.extra = {}
        self.assumptions = []
        self._distinct = set()
        self.known_hit = []

    def count(self, n=1):
        self.cov["evaluations"] += n

    def nontrivial(self, key):
        self._distinct.add(key)

    def sample(self, s, limit=6):
        if len(self.cov["samples"]) < limit:
            self.cov["samples"].append(s)

    def violation(self, payload, no_input=False):
        """a concrete failing input (no_input=False), or something that no longer checks for which
        no failing input is known (no_input=True). Printed at finish()."""
        (self._broken if no_input else self._failing).append(dict(payload))

    def _emit(self, payload, no_input):
        payload = dict(payload)
        payload.update({"property": self.prop, "seed": self.seed, "tier": self.tier})
        path = write_replay(self.prop, payload)
        self.violations.append((path, no_input))
        print("VIOLATION property=%s replay=%s%s" % (self.prop, path, " no-failing-input-found" if no_input else ""), flush=True)

    def flush_violations(self):
        if self._failing:
            # concrete inputs on which the property fails; what else broke is recorded alongside
            for p in self._failing[:3]:
                if self._broken:
                    p["also_broken"] = [b.get("broken") or b.get("what") for b in self._broken[:5]]
                if len(self._failing) > 3:
                    p["further_failing_inputs"] = len(self._failing) - 3
                self._emit(p, False)
        elif self._broken:
            p = dict(self._broken[0])
            if len(self._broken) > 1:
                p["further"] = self._broken[1:10]
                p["count"] = len(self._broken)
            self._emit(p, True)

    def known(self, what):
        self.known_hit.append(what)
        print("KNOWN-FINDING: property=%s %s" % (self.prop, what), flush=True)

    def finish(self, checker_cmd, level="proof"):
        self.flush_violations()
        self.cov["distinct_nontrivial"] = len(self._distinct)
        cov = dict(self.cov)
        if self.discharged >= 1 and self.obligations >= 1:
            cov.update({"obligations": self.obligations, "discharged": self.discharged})
        else:
            # a run in which the proof modules did not build discharged nothing: say so under other names (the schema's
            # proof keys must be >= 1), the exploration counts of the directed search stand on their own
            cov.update({"obligations_total": self.obligations, "obligations_discharged": 0})
        cov.update({"checker_cmd": checker_cmd, "trusted_base": TRUSTED_BASE})
        cov.update(self.extra)
        ev = {"property_id": self.prop, "tier": self.tier, "seed": self.seed, "level": level,
              "coverage": cov, "assumptions": self.assumptions, "wall_s": round(time.time() - self.t0, 2),
              "violations": len(self.violations), "known_findings_reconfirmed": self.known_hit}
        os.makedirs(os.path.join(ROOT, "evidence"), exist_ok=True)
        json.dump(ev, open(os.path.join(ROOT, "evidence", "%s.json" % self.prop), "w"), indent=1)
        return 1 if self.violations else 0


def standard_proof_phase(rep, modules, directed_search=None):
    """build harness + driver + the property's proof modules, audit axioms.
    On a broken obligation: run directed_search(rep) (which reports a VIOLATION with a concrete
    input if it finds one); if it finds none, report no-failing-input-found."""
    try:
        build_harness()
        regen()
    except BuildError as e:
        rep.violation({"broken": "build:" + e.what, "output": e.out}, no_input=True)
        return False
    rc, out = lake_build(["driver"])
    if rc != 0:
        rep.violation({"broken": "lake build driver (model does not compile)", "output": out[-3000:]}, no_input=True)
        return False
    names = []
    for m in modules:
        names += theorems_of(m)
    rep.obligations = len(names)
    rc, out = lake_build(modules)
    broken = None
    if rc != 0:
        errs = re.findall(r"error: ([^\n]*)", out)
        broken = {"broken": "proof obligation: lake build %s failed" % " ".join(modules),
                  "theorem_files": modules, "errors": errs[:10], "output": out[-3000:]}
    else:
        bad = forbidden_tokens(modules)
        ok, problems = axiom_audit(modules)
        rep.discharged = len(ok)
        if bad or problems:
            broken = {"broken": "axiom/forbidden-token audit", "forbidden": bad[:10], "axiom_problems": problems[:10]}
        elif rep.tier == "thorough":
            # second opinion: the toolchain's independent re-checker replays the compiled declarations of the property modules
            p = subprocess.run(["lake", "env", "leanchecker"] + modules, cwd=LEAN, stdout=subprocess.PIPE, stderr=subprocess.STDOUT, text=True)
            rep.extra["leanchecker"] = {"modules": modules, "exit": p.returncode}
            if p.returncode != 0:
                broken = {"broken": "leanchecker rejects the compiled property modules", "output": p.stdout[-3000:]}
    if broken:
        rep.violation(broken, no_input=True)
        if directed_search:
            directed_search(rep)
        return False
    return True
